#!/usr/bin/env python3
"""Regenerate /verif/MANIFEST.json from the table below (keeps the manifest valid at all times).

A property is claimed iff vf/props/<id>.py exists; the others are listed under not_applicable with the reason
"check not built yet" until their module lands.
"""

from __future__ import annotations

import json
import subprocess
from pathlib import Path

ROOT = Path(__file__).resolve().parent.parent
PY = "PYTHONHASHSEED=0 PYTHONDONTWRITEBYTECODE=1 PYTHONPATH=/repo:/verif /venv/bin/python"

# id -> (category, technique, level text, level note, design ref)
TABLE = {
    "C01": (
        "exploration",
        "reference-peer monitor (independent HAP accessory) + exhaustive single-bit/structural reply mutation",
        "The real get_session_keys generator (and the IP/BLE/CoAP installs of its keys) is run against an independently"
        " written pair-verify accessory; every reply mutant carries an ACCEPT/REJECT class decided by construction."
        " Exhaustive over single-bit flips of every reply byte and the structural mutant list per pairing record;"
        " sampled over records and ephemeral keys.",
        "Trusts cryptography/OpenSSL primitives and my reading of the HAP spec for the reference accessory.",
        "DESIGN.md 4/C01",
    ),
    "C02": (
        "exploration",
        "differential monitor vs independent SRP-6a reference, directed search for leading-zero classes",
        "SrpClient is driven exactly as pair-setup drives it and compared byte-for-byte with an integer/hashlib reference"
        " (validated against the RFC 5054 vector); directed search produces the 1-in-256 leading-zero classes.",
        "Padding convention: fixed-width PAD() for A, B, S and 16-byte salt (see DESIGN 3.4).",
        "DESIGN.md 4/C02",
    ),
    "C03": (
        "exploration",
        "reference-peer monitor (independent pair-setup accessory) + reply mutation",
        "The real pair-setup generators run against an independent accessory that verifies M3/M5 and produces M2/M4/M6;"
        " every mutated reply must make pairing fail, every honest exchange must return a self-consistent record.",
        "Same trusted base as C01/C02.",
        "DESIGN.md 4/C03",
    ),
    "C04": (
        "exploration",
        "exhaustive cell enumeration (step x error code x state x field subset x feed mode) vs exception-class oracle",
        "Finite table enumerated completely against the documented code->exception mapping; add/remove pairing on a"
        " scripted IP and BLE accessory.",
        "Oracle table is my reading of the property statement.",
        "DESIGN.md 4/C04",
    ),
    "C05": (
        "exploration",
        "reference session codec monitor; exhaustive 1-/2-cut segmentation and single-bit corruption",
        "Real SecureHomeKitProtocol framing compared with an independent encoder/decoder; exhaustive cut positions on"
        " small streams, every single-bit corruption of small frames, real-transport teardown slice.",
        "Trusts OpenSSL ChaCha20-Poly1305 for the reference.",
        "DESIGN.md 4/C05",
    ),
    "C06": (
        "exploration",
        "AEAD (key, nonce)/replay history checker over bounded-exhaustive fault histories (IP, BLE, CoAP)",
        "Every AEAD call of the real code is recorded by class-level wrappers; an online checker decides nonce uniqueness"
        " and accept-once-in-order over all histories to a bounded depth and random ones beyond.",
        "Histories are driven through simulated transports; real radios/UDP are not exercised.",
        "DESIGN.md 4/C06",
    ),
    "C07": (
        "exploration",
        "segmentation-independence monitor: exhaustive 1-/2-cut splits of generated HTTP/EVENT streams",
        "The real feed loop is fed every single/double cut of small well-formed streams and random multi-cuts of larger"
        " ones; completed messages are compared with what the generator serialised.",
        "Only well-formed message sequences (statement's quantifier).",
        "DESIGN.md 4/C07",
    ),
    "C08": (
        "exploration",
        "unique-id request/response history checker on a simulated network in virtual time",
        "Real HomeKitConnection over real asyncio transports (socketpair) against a scripted accessory; every request"
        " carries a unique id; attribution, bounded completion and stale-response freedom are checked over enumerated"
        " interleavings.",
        "AF_UNIX socketpair stands in for TCP; virtual clock.",
        "DESIGN.md 4/C08",
    ),
    "C09": (
        "exploration",
        "recording transport vs canonical request serializer",
        "Every transport write of every public sender is compared byte-for-byte with an independent canonical serializer"
        " and a JSON whitespace scanner; one transport call per request.",
        "Canonical form is my reading of the statement/README.",
        "DESIGN.md 4/C09",
    ),
    "C10": (
        "fault_enumeration",
        "fault-sequence enumeration with attempt-log trace monitor (virtual time)",
        "All per-attempt outcome sequences to a bounded depth x host lists x triggers; a trace specification S1-S8 over"
        " the attempt log decides back-off bounds, single connector, waiter bounds and no-attempt-after-close.",
        "Liveness clauses restated as bounded progress (DESIGN C10).",
        "DESIGN.md 4/C10",
    ),
    "C11": (
        "fault_enumeration",
        "fault-history enumeration with open-connection-set monitor at quiescent points",
        "The simulated accessory is ground truth for open connections; histories of failing setups, retries, peer closes"
        " in every order and close() sweeps are enumerated.",
        "socketpair transports; quiescence = empty ready queue and no I/O for several iterations.",
        "DESIGN.md 4/C11",
    ),
    "C12": (
        "exploration",
        "exactly-once/in-order event-log checker + per-connection subscription registration monitor",
        "Listener logs with unique event values are checked offline against the accessory's sent sequence; subscription"
        " registrations are recorded per accessory-side connection across reconnects.",
        "Same network simulation as C08.",
        "DESIGN.md 4/C12",
    ),
    "C13": (
        "exploration",
        "scripted-accessory ground truth; exhaustive small status vectors (IP, CoAP, BLE)",
        "Every status vector for up to 3 items, 204/207 shapes, request-wide statuses and malformed entries; results and"
        " listener notifications compared with the script.",
        "Only unambiguous replies are judged (DESIGN C13).",
        "DESIGN.md 4/C13",
    ),
    "C14": (
        "exploration",
        "post-condition monitor with exact rational-arithmetic oracle",
        "check_convert_value/Service.build_update wrapped with a post-condition computed in fractions.Fraction on the"
        " decimal reading of the inputs; exhaustive grid of formats x constraints x boundary inputs plus random.",
        "Three-tier tolerance exactly as the statement words it.",
        "DESIGN.md 4/C14",
    ),
    "C15": (
        "exploration",
        "differential monitor vs independent TLV8 codec; exhaustive short inputs; BLE reassembly through fake GATT",
        "Round trip and canonical encoding over all boundary-length pairs/triples and random lists; decoder totality over"
        " every byte string of length <= 2 and every length 3-6 string over a TLV-significant alphabet plus mutants;"
        " expected-filter semantics; BLE pairing fragment reassembly with 1-50 pieces.",
        "Reference codec is my reading of the HAP TLV8 rules.",
        "DESIGN.md 4/C15",
    ),
    "C16": (
        "exploration",
        "reflection-driven differential monitor vs independent schema-driven struct codec",
        "Every TLVStruct subclass found by reflection is exercised with boundary-size field values; received structures"
        " (BLE signatures, CoAP database) are produced by the reference encoder and decoded by the real code.",
        "Schema obtained by reflection from the real dataclasses.",
        "DESIGN.md 4/C16",
    ),
    "C17": (
        "exploration",
        "reference PDU peer; exhaustive fragment-size x body-length grid; exhaustive small CoAP batches",
        "BLE requests/responses through a fake GATT client backed by an independent reassembler; CoAP batch decoding over"
        " every outcome combination for 1-4 items.",
        "Fake GATT client replaces bleak.",
        "DESIGN.md 4/C17",
    ),
    "C18": (
        "exploration",
        "reference acceptance model over advertisement histories",
        "A reference model (independent AEAD, last-accepted counter) decides accept/ignore for every advertisement fed to"
        " the real scanner callback; listener log and state number are compared after each.",
        "4-byte tag collisions are re-evaluated by the reference before judging.",
        "DESIGN.md 4/C18",
    ),
    "C19": (
        "exploration",
        "schedule enumeration in virtual time with callback-escape monitor; reference advert parsers",
        "All schedules of waiter start/advert/cancel/timeout over 1-3 waiters x 1-2 ids on mDNS, BLE and aggregate"
        " controllers; parsing compared with reference parsers; any exception escaping a callback is an event.",
        "zeroconf DNSCache/AsyncServiceInfo are trusted; no real mDNS traffic.",
        "DESIGN.md 4/C19",
    ),
    "C20": (
        "fault_enumeration",
        "exhaustive crash-point injection (in-process file-op shim; strace SIGKILL in thorough) + round-trip monitor",
        "Every file operation of a save is numbered and the process is 'killed' before/after each and after every written"
        " byte prefix; a fresh controller reloads what is on disk. Round trips over pairing sets and accessory databases.",
        "Crash model = process kill (no power-loss reordering).",
        "DESIGN.md 4/C20",
    ),
}


def main() -> None:
    checks = []
    not_applicable = []
    for pid, (cat, technique, text, note, ref) in TABLE.items():
        if (ROOT / "vf" / "props" / f"{pid.lower()}.py").exists():
            checks.append(
                {
                    "property_id": pid,
                    "quick_cmd": f"{PY} check.py {pid} --tier quick",
                    "thorough_cmd": f"{PY} check.py {pid} --tier thorough",
                    "evidence_file": f"/verif/evidence/{pid}.json",
                    "replay_cmd_template": f"{PY} check.py {pid} --replay {{path}}",
                    "engine": "vf-runtime-monitor",
                    "level_claimed": {"category": cat, "text": text, "design_ref": ref},
                    "level_note": note,
                    "technique": technique,
                }
            )
        else:
            not_applicable.append({"property_id": pid, "reason": "check not built yet (planned: " + technique + ")"})
    try:
        repo_commits = subprocess.run(
            ["git", "-C", "/repo", "log", "--format=%h %s", "a5fd28a..HEAD"], capture_output=True, text=True
        ).stdout.splitlines()
    except Exception:
        repo_commits = []
    hook_commits = [c.split()[0] for c in repo_commits if not c.split(" ", 1)[1].startswith("fix:")]
    manifest = {
        "version": 1,
        "setup_cmd": f"{PY} tools/selftest.py",
        "hooks": {
            "guard": "AIOHOMEKIT_VERIF",
            "enable": "no guarded code in /repo: every observation point is reached from the harness by wrapping"
            " classes/module attributes at run time; checks import /repo's working tree via PYTHONPATH=/repo",
            "baseline_off_cmd": "cd /repo && /venv/bin/python -m pytest -ra -q -p no:cacheprovider --timeout=900"
            " --continue-on-collection-errors",
            "source_commits": hook_commits,
            "add_only": True,
        },
        "engines": [
            {
                "name": "vf-runtime-monitor",
                "path": "/verif/check.py",
                "serves_properties": [c["property_id"] for c in checks],
                "kind_free_text": "runtime monitoring: real code under hostile workloads, reference-peer monitors,"
                " history checkers, invariants at quiescent points, virtual-time event loop",
            }
        ],
        "checks": checks,
        "not_applicable": not_applicable,
        "notes": "Exit 0 = held on everything observed, 1 = VIOLATION (replay file), 2 = INCONCLUSIVE (a deciding"
        " monitor saw nothing / watchdog). Known findings: /verif/KNOWN_FINDINGS.txt. See DESIGN.md.",
    }
    (ROOT / "MANIFEST.json").write_text(json.dumps(manifest, indent=1) + "\n")
    print(f"MANIFEST.json: {len(checks)} checks, {len(not_applicable)} not yet built")


if __name__ == "__main__":
    main()
