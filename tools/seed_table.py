#!/usr/bin/env python3
"""Markdown table of the kept seeded changes of one round (DESIGN.md 8.4), generated from seeded/<id>/meta.json.

usage: seed_table.py <round>      (round 1 = ids -a/-b, which carry no "round" field)
"""

from __future__ import annotations

import json
import sys
from pathlib import Path

VERIF = Path(__file__).resolve().parent.parent


def main() -> int:
    rnd = int(sys.argv[1])
    print("| id | change | needs, in order to manifest | caught by (first key) |")
    print("|---|---|---|---|")
    n = missed = 0
    for d in sorted((VERIF / "seeded").iterdir()):
        mp = d / "meta.json"
        if not mp.exists():
            continue
        m = json.loads(mp.read_text())
        if m.get("round", 1) != rnd:
            continue
        n += 1
        own = m["property"]
        cb = m.get("caught_by", {})
        first = m.get("first_evaluation") or {}
        if m.get("not_a_violation"):
            caught = "none - judged not to break the property as stated"
        elif not cb:
            caught = "NOT CAUGHT"
        else:
            lead = own if own in cb else sorted(cb)[0]
            keys = cb[lead].get("keys") or ["?"]
            others = [c for c in sorted(cb) if c != lead]
            caught = f"{lead} `{keys[0]}`" + (f" (also {', '.join(others)})" if others else "")
        if first and not first.get("own_check_caught", True) and not m.get("not_a_violation"):
            missed += 1
            caught += " - first missed" + (f" (then only {', '.join(first['caught_by'])})" if first.get("caught_by") else "")

        def cell(t, limit=260):
            t = str(t).replace("|", "\\|").replace("\n", " ")
            if len(t) > limit:
                cut = t[:limit]
                k = max(cut.rfind(". "), cut.rfind("; "), cut.rfind(" - "))
                t = cut[: k + 1].rstrip(" -;") if k > 100 else cut.rsplit(" ", 1)[0] + " ..."
            return t

        print(f"| {m['id']} | {cell(m.get('change', ''))} | {cell(m.get('needs_to_manifest', ''))} | {caught} |")
    print(f"\n<!-- {n} changes, {missed} missed by the property's own check at first evaluation -->")
    return 0


if __name__ == "__main__":
    sys.exit(main())
