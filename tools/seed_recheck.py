#!/usr/bin/env python3
"""Sensitivity regression: re-run the checks against every kept seeded change (seeded/<id>/patch.diff).

usage: seed_recheck.py [ids ...] [--jobs N] [--tier quick] [--update]

Each change is applied in its own scratch git worktree of /repo (under /tmp, removed afterwards; /repo itself is never
touched), the property's own check - plus every check recorded as catching it - runs with VERIF_REPO=<worktree> and
VERIF_OUT=<scratch> (so evidence/ of the real tree is not overwritten). Exit 0 iff every change is caught by at least one
check (rc 1 + VIOLATION line); with --update the outcome is written back to meta.json ("recheck").
"""

from __future__ import annotations

import argparse
import json
import os
import shutil
import subprocess
import sys
import tempfile
import time
from concurrent.futures import ThreadPoolExecutor
from pathlib import Path

VERIF = Path(__file__).resolve().parent.parent
REPO = "/repo"


def sh(cmd, cwd=None, env=None, timeout=3600):
    return subprocess.run(cmd, shell=True, cwd=cwd, env=env, text=True, capture_output=True, timeout=timeout)


def one(sid: str, tier: str) -> dict:
    d = VERIF / "seeded" / sid
    meta = json.loads((d / "meta.json").read_text())
    own = meta["property"]
    checks = [own] + [c for c in meta.get("caught_by", {}) if c != own] + [c for c in meta.get("also_check", []) if c != own]
    wt = tempfile.mkdtemp(prefix=f"seedre_{sid}_")
    os.rmdir(wt)
    out_dir = tempfile.mkdtemp(prefix=f"seedre_out_{sid}_")
    res = {"id": sid, "caught": {}, "missed": [], "inconclusive": []}
    try:
        r = sh(f"git -C {REPO} worktree add --detach {wt} HEAD")
        if r.returncode:
            res["error"] = r.stderr[-300:]
            return res
        r = sh(f"git apply {d / 'patch.diff'}", cwd=wt)
        if r.returncode:
            res["error"] = "patch does not apply: " + r.stderr[-300:]
            return res
        env = dict(os.environ, VERIF_REPO=wt, VERIF_OUT=out_dir, PYTHONHASHSEED="0", PYTHONDONTWRITEBYTECODE="1", PYTHONPATH=f"{wt}:{VERIF}")
        for c in checks:
            t0 = time.time()
            r = sh(f"/venv/bin/python check.py {c} --tier {tier}", cwd=str(VERIF), env=env)
            keys = sorted({ln.strip().split()[0][4:] for ln in r.stdout.splitlines() if ln.startswith("  key=")})
            if r.returncode == 1 and "VIOLATION property=" in r.stdout:
                res["caught"][c] = {"keys": keys[:8], "seconds": round(time.time() - t0, 1)}
            elif r.returncode == 2:
                res["inconclusive"].append(c)
            else:
                res["missed"].append(c)
    finally:
        sh(f"git -C {REPO} worktree remove --force {wt}")
        shutil.rmtree(wt, ignore_errors=True)
        shutil.rmtree(out_dir, ignore_errors=True)
    return res


def main() -> int:
    ap = argparse.ArgumentParser()
    ap.add_argument("ids", nargs="*")
    ap.add_argument("--jobs", type=int, default=3)
    ap.add_argument("--tier", default="quick")
    ap.add_argument("--update", action="store_true")
    args = ap.parse_args()
    ids = args.ids or sorted(p.name for p in (VERIF / "seeded").iterdir() if (p / "patch.diff").exists())
    # kept for the record but judged NOT to break the property as stated (reason in meta.json / DESIGN 8.4): not re-run
    ids = [i for i in ids if not json.loads((VERIF / "seeded" / i / "meta.json").read_text()).get("not_a_violation")] if not args.ids else ids
    bad = 0
    with ThreadPoolExecutor(args.jobs) as ex:
        for res in ex.map(lambda s: one(s, args.tier), ids):
            sid = res["id"]
            ok = bool(res["caught"]) and "error" not in res
            bad += not ok
            own = json.loads((VERIF / "seeded" / sid / "meta.json").read_text())["property"]
            print(f"{sid}: {'CAUGHT by ' + ','.join(sorted(res['caught'])) if ok else 'NOT CAUGHT'}"
                  f"{'' if own in res['caught'] or not ok else '  (own check ' + own + ' silent)'}"
                  f"{'  inconclusive: ' + ','.join(res['inconclusive']) if res['inconclusive'] else ''}{'  ERROR ' + res['error'] if 'error' in res else ''}", flush=True)
            if args.update and "error" not in res:
                mp = VERIF / "seeded" / sid / "meta.json"
                meta = json.loads(mp.read_text())
                first = meta.get("first_evaluation") or {"caught_by": sorted(meta.get("caught_by", {})), "own_check_caught": own in meta.get("caught_by", {})}
                meta["first_evaluation"] = first
                merged = dict(meta.get("caught_by", {}))
                merged.update(res["caught"])
                for c in res["missed"]:
                    merged.pop(c, None)
                meta["caught_by"] = merged
                meta["not_caught_by"] = sorted((set(meta.get("not_caught_by", [])) | set(res["missed"])) - set(merged))
                meta["recheck"] = {"tier": args.tier, "caught_by": sorted(res["caught"]), "missed": res["missed"], "inconclusive": res["inconclusive"]}
                mp.write_text(json.dumps(meta, indent=1) + "\n")
    sh(f"git -C {REPO} worktree prune")
    print(f"{len(ids) - bad}/{len(ids)} seeded changes caught")
    return 0 if bad == 0 else 1


if __name__ == "__main__":
    sys.exit(main())
