#!/usr/bin/env python3
"""Systematic sensitivity sweep: simple AST mutants of the files the properties are anchored in.

usage: mutation_sweep.py [--per-file N] [--jobs J] [--seed S] [--files f1,f2] [--out FILE]

For every anchor file (properties.jsonl anchors.files) a seeded sample of single-site mutants is generated with the
operators below. Each mutant is written into a scratch git worktree of /repo (under /tmp, removed afterwards; /repo is
never touched) and judged in this order:
  1. the quick checks of the properties anchored in that file (fastest first, VERIF_REPO=<worktree>, VERIF_OUT=<scratch>):
     the first check that reports a VIOLATION kills the mutant;
  2. a mutant no check kills is run against the repository's own test suite (own network namespace): if the suite fails it
     is not a change "that still passes the existing tests" and is set aside;
  3. what passes both is a SURVIVOR: written to the report with its diff, to be read by a human (equivalent mutant, outside
     every property, or a hole in a check).
Operators: comparison swap (< <= > >= == != is / is not, in / not in), boolean operator swap, `not` removal, integer
constant +-1, True/False swap, min/max swap, arithmetic operator swap, statement deletion (expression statements,
assignments to attributes, `raise`, `return x` -> `return None`, `break`/`continue` -> pass), `if cond` -> `if True` / `if False`.
"""

from __future__ import annotations

import argparse
import ast
import copy
import json
import os
import random
import shutil
import subprocess
import sys
import tempfile
import time
from concurrent.futures import ThreadPoolExecutor
from pathlib import Path

VERIF = Path(__file__).resolve().parent.parent
REPO = "/repo"
SPEED = ["C13", "C16", "C17", "C09", "C15", "C19", "C10", "C06", "C01", "C20", "C11", "C14", "C05", "C18", "C08", "C12", "C07", "C04", "C02", "C03"]


def sh(cmd, cwd=None, env=None, timeout=3600):
    return subprocess.run(cmd, shell=True, cwd=cwd, env=env, text=True, capture_output=True, timeout=timeout)


CMP = {ast.Lt: ast.LtE, ast.LtE: ast.Lt, ast.Gt: ast.GtE, ast.GtE: ast.Gt, ast.Eq: ast.NotEq, ast.NotEq: ast.Eq, ast.Is: ast.IsNot, ast.IsNot: ast.Is, ast.In: ast.NotIn, ast.NotIn: ast.In}
ARITH = {ast.Add: ast.Sub, ast.Sub: ast.Add, ast.Mult: ast.FloorDiv, ast.FloorDiv: ast.Mult, ast.Mod: ast.FloorDiv, ast.BitAnd: ast.BitOr, ast.BitOr: ast.BitAnd, ast.LShift: ast.RShift, ast.RShift: ast.LShift}


class Collector(ast.NodeVisitor):
    """Enumerate mutation sites as (description, apply(tree_copy_node)) by node index."""

    def __init__(self):
        self.sites = []  # (node_index, kind, arg)

    def collect(self, tree):
        # never evaluated / no behaviour: annotations (every module uses `from __future__ import annotations`), logging calls
        skip = set()
        for node in ast.walk(tree):
            for field in ("annotation", "returns"):
                sub = getattr(node, field, None)
                if isinstance(sub, ast.AST):
                    skip.update(id(n) for n in ast.walk(sub))
            if isinstance(node, ast.Expr) and isinstance(node.value, ast.Call) and isinstance(node.value.func, ast.Attribute) and isinstance(node.value.func.value, ast.Name) \
                    and node.value.func.value.id in ("logger", "_LOGGER", "logging"):
                skip.update(id(n) for n in ast.walk(node))
        for i, node in enumerate(ast.walk(tree)):
            if id(node) in skip:
                continue
            if isinstance(node, ast.Compare):
                for k, op in enumerate(node.ops):
                    if type(op) in CMP:
                        self.sites.append((i, "cmp", k))
            elif isinstance(node, ast.BoolOp):
                self.sites.append((i, "boolop", None))
            elif isinstance(node, ast.UnaryOp) and isinstance(node.op, ast.Not):
                self.sites.append((i, "not", None))
            elif isinstance(node, ast.Constant):
                if isinstance(node.value, bool):
                    self.sites.append((i, "bool", None))
                elif isinstance(node.value, int) and abs(node.value) < 70000:
                    self.sites.append((i, "int+", None))
                    self.sites.append((i, "int-", None))
            elif isinstance(node, ast.Call) and isinstance(node.func, ast.Name) and node.func.id in ("min", "max"):
                self.sites.append((i, "minmax", None))
            elif isinstance(node, ast.BinOp) and type(node.op) in ARITH:
                self.sites.append((i, "arith", None))
            elif isinstance(node, (ast.If, ast.While)):
                self.sites.append((i, "cond-true", None))
                self.sites.append((i, "cond-false", None))
            elif isinstance(node, ast.Expr) and not (isinstance(node.value, ast.Constant) and isinstance(node.value.value, str)):
                self.sites.append((i, "del", None))
            elif isinstance(node, ast.Assign) and any(isinstance(t, (ast.Attribute, ast.Subscript)) for t in node.targets):
                self.sites.append((i, "del", None))
            elif isinstance(node, ast.AugAssign):
                self.sites.append((i, "del", None))
            elif isinstance(node, ast.Raise):
                self.sites.append((i, "del", None))
            elif isinstance(node, ast.Return) and node.value is not None and not (isinstance(node.value, ast.Constant) and node.value.value is None):
                self.sites.append((i, "ret-none", None))
            elif isinstance(node, (ast.Break, ast.Continue)):
                self.sites.append((i, "del", None))
        return self.sites


def apply(tree, site):
    idx, kind, arg = site
    tree = copy.deepcopy(tree)
    nodes = list(ast.walk(tree))
    node = nodes[idx]
    line = getattr(node, "lineno", 0)
    if kind == "cmp":
        node.ops[arg] = CMP[type(node.ops[arg])]()
    elif kind == "boolop":
        node.op = ast.Or() if isinstance(node.op, ast.And) else ast.And()
    elif kind == "not":
        _replace(tree, node, node.operand)
    elif kind == "bool":
        node.value = not node.value
    elif kind == "int+":
        node.value = node.value + 1
    elif kind == "int-":
        node.value = node.value - 1
    elif kind == "minmax":
        node.func.id = "max" if node.func.id == "min" else "min"
    elif kind == "arith":
        node.op = ARITH[type(node.op)]()
    elif kind == "cond-true":
        node.test = ast.Constant(True)
    elif kind == "cond-false":
        node.test = ast.Constant(False)
    elif kind == "del":
        _replace(tree, node, ast.Pass())
    elif kind == "ret-none":
        node.value = ast.Constant(None)
    ast.fix_missing_locations(tree)
    return tree, line


def _replace(tree, old, new):
    for parent in ast.walk(tree):
        for field, value in ast.iter_fields(parent):
            if value is old:
                setattr(parent, field, new)
                return
            if isinstance(value, list):
                for k, v in enumerate(value):
                    if v is old:
                        value[k] = new
                        return


def in_function(tree):
    """Set of node indexes that live inside a function body (module-level constants and imports are left alone)."""
    inside = set()
    nodes = list(ast.walk(tree))
    pos = {id(n): i for i, n in enumerate(nodes)}
    for n in nodes:
        if isinstance(n, (ast.FunctionDef, ast.AsyncFunctionDef)):
            for sub in ast.walk(n):
                if sub is not n:
                    inside.add(pos[id(sub)])
    return inside


def anchor_map():
    files = {}
    for line in (VERIF / "properties.jsonl").read_text().splitlines():
        d = json.loads(line)
        for f in d["anchors"]["files"]:
            if f.endswith(".py"):
                files.setdefault(f, []).append(d["id"])
    return files


def judge(worker: int, rel: str, src_mut: str, props, desc, results, wt_root):
    wt = f"{wt_root}/w{worker}"
    out_dir = f"{wt_root}/out{worker}"
    path = Path(wt) / rel
    orig = path.read_text()
    path.write_text(src_mut)
    rec = {"file": rel, "mutation": desc, "killed_by": None, "suite": None, "checks_run": sorted(props)}
    try:
        r = sh(f"/venv/bin/python -c \"import ast,sys; ast.parse(open('{path}').read())\"")
        if r.returncode:
            rec["killed_by"] = "syntax"
            return rec
        env = dict(os.environ, VERIF_REPO=wt, VERIF_OUT=out_dir, PYTHONHASHSEED="0", PYTHONDONTWRITEBYTECODE="1", PYTHONPATH=f"{wt}:{VERIF}")
        for c in sorted(props, key=SPEED.index):
            t0 = time.time()
            try:
                r = sh(f"/venv/bin/python check.py {c} --tier quick", cwd=str(VERIF), env=env, timeout=1500)
            except subprocess.TimeoutExpired:
                rec["killed_by"] = c + " (hang)"
                return rec
            if r.returncode == 1 and "VIOLATION property=" in r.stdout:
                keys = sorted({ln.strip().split()[0][4:] for ln in r.stdout.splitlines() if ln.startswith("  key=")})
                rec["killed_by"] = c
                rec["keys"] = keys[:3]
                rec["seconds"] = round(time.time() - t0, 1)
                return rec
            if r.returncode == 2:
                rec.setdefault("inconclusive", []).append(c)
        try:
            r = sh("timeout -s KILL 400 unshare -n sh -c 'ip link set lo up; /venv/bin/python -m pytest -q -p no:cacheprovider --timeout=60 -x -q > .mut_suite.log 2>&1; echo EXIT=$?'", cwd=wt, timeout=900)
        except subprocess.TimeoutExpired:
            rec["suite"] = "fails: hang"
            return rec
        tail = (r.stdout.strip().splitlines() or [""])[-1]
        rec["suite"] = "passes" if tail == "EXIT=0" else "fails: " + (tail or "killed after 400 s (hang)")
        try:
            os.unlink(os.path.join(wt, ".mut_suite.log"))
        except OSError:
            pass
        if rec["suite"] == "passes":
            d = sh(f"git diff -- {rel}", cwd=wt).stdout
            rec["diff"] = d[-1500:]
        return rec
    finally:
        path.write_text(orig)
        shutil.rmtree(out_dir, ignore_errors=True)
        tp = Path(wt) / "tests-pairing.json"
        if tp.exists():
            tp.unlink()


def main() -> int:
    ap = argparse.ArgumentParser()
    ap.add_argument("--per-file", type=int, default=12)
    ap.add_argument("--jobs", type=int, default=4)
    ap.add_argument("--seed", type=int, default=0)
    ap.add_argument("--files")
    ap.add_argument("--out", default=str(VERIF / "seeded" / "MUTATION_SWEEP.json"))
    ap.add_argument("--cover-map", help="tools/coverage_map.py output: a mutant is also judged by every check whose workload executes the mutated line")
    args = ap.parse_args()
    amap = anchor_map()
    cover = json.loads(Path(args.cover_map).read_text())["checks"] if args.cover_map else {}

    def covering(rel, line):
        return [c for c, files in cover.items() if any(a <= line <= b for a, b in files.get(rel, []))]

    files = args.files.split(",") if args.files else sorted(amap)
    rng = random.Random(args.seed)
    work = []
    for rel in files:
        src = (Path(REPO) / rel).read_text()
        tree = ast.parse(src)
        inside = in_function(tree)
        sites = [s for s in Collector().collect(tree) if s[0] in inside]
        rng.shuffle(sites)
        n = 0
        for site in sites:
            if n >= args.per_file:
                break
            try:
                mt, line = apply(tree, site)
                new_src = ast.unparse(mt) + "\n"
            except Exception:  # noqa: BLE001
                continue
            if new_src == ast.unparse(tree) + "\n":
                continue
            props = list(dict.fromkeys(amap.get(rel, []) + covering(rel, line)))
            work.append((rel, new_src, props, f"{site[1]} at line {line}"))
            n += 1
    wt_root = tempfile.mkdtemp(prefix="mutsweep_")
    for w in range(args.jobs):
        r = sh(f"git -C {REPO} worktree add --detach {wt_root}/w{w} HEAD")
        if r.returncode:
            print(r.stderr)
            return 2
    # the baseline of every file in the worktrees is the UNPARSED original, so that diffs show only the mutation
    for w in range(args.jobs):
        for rel in files:
            p = Path(f"{wt_root}/w{w}") / rel
            p.write_text(ast.unparse(ast.parse(p.read_text())) + "\n")
        sh("git -c user.email=x -c user.name=x commit -qam baseline-unparsed", cwd=f"{wt_root}/w{w}")
    results = []
    t0 = time.time()
    try:
        import queue

        free = queue.Queue()
        for w in range(args.jobs):
            free.put(w)

        def run(item):
            w = free.get()
            try:
                return judge(w, item[0], item[1], item[2], item[3], results, wt_root)
            finally:
                free.put(w)

        with ThreadPoolExecutor(args.jobs) as ex:
            for k, rec in enumerate(ex.map(run, work)):
                results.append(rec)
                status = rec["killed_by"] or ("SURVIVOR" if rec["suite"] == "passes" else "suite " + str(rec["suite"]))
                print(f"[{k + 1}/{len(work)} {time.time() - t0:.0f}s] {rec['file']} {rec['mutation']}: {status}", flush=True)
    finally:
        for w in range(args.jobs):
            sh(f"git -C {REPO} worktree remove --force {wt_root}/w{w}")
        sh(f"git -C {REPO} worktree prune")
        shutil.rmtree(wt_root, ignore_errors=True)
    killed = [r for r in results if r["killed_by"] and r["killed_by"] != "syntax"]
    suite_only = [r for r in results if not r["killed_by"] and r["suite"] != "passes"]
    surv = [r for r in results if not r["killed_by"] and r["suite"] == "passes"]
    summary = {"seed": args.seed, "per_file": args.per_file, "mutants": len(results), "killed_by_checks": len(killed), "killed_only_by_repo_suite": len(suite_only), "survivors": len(surv),
               "by_check": {c: sum(1 for r in killed if r["killed_by"].startswith(c)) for c in SPEED}, "survivor_list": surv, "suite_only_list": [{k: v for k, v in r.items() if k != "diff"} for r in suite_only]}
    Path(args.out).write_text(json.dumps(summary, indent=1) + "\n")
    print(json.dumps({k: v for k, v in summary.items() if not k.endswith("_list")}, indent=1))
    return 0


if __name__ == "__main__":
    sys.exit(main())
