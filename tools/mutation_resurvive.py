#!/usr/bin/env python3
"""Re-judge survivors of a mutation sweep report against chosen checks (after checks were strengthened, or with checks the
sweep did not run for that file).

usage: mutation_resurvive.py --checks C18,C19 [--match substr] [--report seeded/MUTATION_SWEEP.json] [--jobs N] [--update]

Every survivor whose file name contains --match is re-created in a scratch worktree of /repo (file normalised with
ast.unparse exactly as the sweep does, then the recorded diff applied) and the given quick checks run against it. With
--update a survivor that is killed now is annotated in the report ("killed_later_by").
"""

from __future__ import annotations

import argparse
import ast
import json
import os
import shutil
import subprocess
import sys
import tempfile
from concurrent.futures import ThreadPoolExecutor
from pathlib import Path

VERIF = Path(__file__).resolve().parent.parent
REPO = "/repo"


def sh(cmd, cwd=None, env=None, timeout=3000, inp=None):
    return subprocess.run(cmd, shell=True, cwd=cwd, env=env, text=True, capture_output=True, timeout=timeout, input=inp)


def one(k, s, checks):
    wt = tempfile.mkdtemp(prefix=f"resurv{k}_")
    os.rmdir(wt)
    out = tempfile.mkdtemp(prefix=f"resurv_out{k}_")
    res = {"k": k, "killed_by": None, "keys": [], "inconclusive": []}
    try:
        r = sh(f"git -C {REPO} worktree add --detach {wt} HEAD")
        if r.returncode:
            res["error"] = r.stderr[-200:]
            return res
        p = Path(wt) / s["file"]
        p.write_text(ast.unparse(ast.parse(p.read_text())) + "\n")
        r = sh("git apply --unidiff-zero -", cwd=wt, inp=s["diff"] if s["diff"].endswith("\n") else s["diff"] + "\n")
        if r.returncode:
            r = sh("patch -p1 --fuzz=3", cwd=wt, inp=s["diff"])
            if r.returncode:
                res["error"] = "diff does not apply: " + (r.stderr or r.stdout)[-200:]
                return res
        env = dict(os.environ, VERIF_REPO=wt, VERIF_OUT=out, PYTHONHASHSEED="0", PYTHONDONTWRITEBYTECODE="1", PYTHONPATH=f"{wt}:{VERIF}")
        for c in checks:
            r = sh(f"/venv/bin/python check.py {c} --tier quick", cwd=str(VERIF), env=env)
            if r.returncode == 1 and "VIOLATION property=" in r.stdout:
                res["killed_by"] = c
                res["keys"] = sorted({ln.strip().split()[0][4:] for ln in r.stdout.splitlines() if ln.startswith("  key=")})[:3]
                return res
            if r.returncode == 2:
                res["inconclusive"].append(c)
        return res
    finally:
        sh(f"git -C {REPO} worktree remove --force {wt}")
        shutil.rmtree(wt, ignore_errors=True)
        shutil.rmtree(out, ignore_errors=True)


def main() -> int:
    ap = argparse.ArgumentParser()
    ap.add_argument("--checks", required=True)
    ap.add_argument("--match", default="")
    ap.add_argument("--report", default=str(VERIF / "seeded" / "MUTATION_SWEEP.json"))
    ap.add_argument("--jobs", type=int, default=3)
    ap.add_argument("--update", action="store_true")
    args = ap.parse_args()
    rep = json.loads(Path(args.report).read_text())
    checks = args.checks.split(",")
    todo = [(k, s) for k, s in enumerate(rep["survivor_list"]) if args.match in s["file"] and "diff" in s and not s.get("killed_later_by")]
    with ThreadPoolExecutor(args.jobs) as ex:
        for res in ex.map(lambda ks: one(ks[0], ks[1], checks), todo):
            s = rep["survivor_list"][res["k"]]
            verdict = f"KILLED by {res['killed_by']} {res['keys']}" if res["killed_by"] else ("ERROR " + res["error"] if "error" in res else "survives" + (f" (inconclusive: {res['inconclusive']})" if res["inconclusive"] else ""))
            print(f"{s['file']} {s['mutation']}: {verdict}", flush=True)
            if args.update and res["killed_by"]:
                s["killed_later_by"] = res["killed_by"]
                s["killed_later_keys"] = res["keys"]
    sh(f"git -C {REPO} worktree prune")
    if args.update:
        Path(args.report).write_text(json.dumps(rep, indent=1) + "\n")
    return 0


if __name__ == "__main__":
    sys.exit(main())
