#!/bin/bash
# usage: tools/run_all.sh <tier> [seed...]   - runs every check, prints one line per check
tier=${1:-quick}; shift
seeds=${@:-0}
here=$(cd "$(dirname "$0")/.." && pwd)
cd "$here"
for seed in $seeds; do
  for i in $(seq -w 1 20); do
    p=C$i
    s=$(date +%s.%N)
    out=$(VERIF_SEED=$seed PYTHONHASHSEED=0 PYTHONDONTWRITEBYTECODE=1 PYTHONPATH=${VERIF_REPO:-/repo}:$here /venv/bin/python check.py $p --tier $tier 2>&1)
    rc=$?
    e=$(date +%s.%N)
    printf "%s seed=%s rc=%s %.1fs %s\n" $p $seed $rc $(echo "$e - $s" | bc) "$(echo "$out" | tail -1 | cut -c1-90)"
    if [ $rc -ne 0 ]; then echo "$out" | grep -E "VIOLATION|INCONCLUSIVE|key=" | head -8; fi
  done
done
