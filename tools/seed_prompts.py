#!/usr/bin/env python3
"""Write the task descriptions for one round of independent seeded changes (DESIGN.md 8.4).

usage: seed_prompts.py <round> <out-dir> <worktree-prefix>     e.g. seed_prompts.py 7 /tmp/seed_prompts7 /tmp/w7_

One file <out-dir>/Cnn.prompt per property. A sub-agent gets NOTHING from /verif except what is in its file: the property's
text (statement, quantifier, why tests cannot settle it, anchors) and one-line descriptions of the changes already kept for
that property (so that it looks for a different mechanism). The scratch worktrees <worktree-prefix>Cnn are created by the
caller (`git -C /repo worktree add --detach <dir> HEAD`) and removed after evaluation.
"""

from __future__ import annotations

import json
import sys
from pathlib import Path

VERIF = Path(__file__).resolve().parent.parent

TEMPLATE = '''You are helping test a verification framework by writing realistic *regressions* for a Python library. You are given ONE semantic property of the library Jc2k/aiohomekit (an asyncio HomeKit Accessory Protocol client) and your own scratch git worktree of the repository at __WT__ (a clean checkout; the package is `aiohomekit/`, tests are in `tests/`).

RULES
- Work ONLY inside __WT__. Do not read, list or touch /verif or /repo, and do not create other git worktrees. Do not commit anything.
- Use `/venv/bin/python` (the repo's dependencies are installed there). Run Python/pytest with cwd = __WT__ so that the worktree's `aiohomekit` package is the one imported. Never run Python with cwd inside `__WT__/aiohomekit` (it shadows stdlib modules).
- No network is available. Other jobs run the same test suite concurrently on this machine and the suite binds fixed TCP ports, so ALWAYS run the suite inside its own network namespace:
    unshare -n sh -c 'ip link set lo up; cd __WT__ && /venv/bin/python -m pytest -q -p no:cacheprovider --timeout=900 -x'
  (229 tests, about 35 s; one test is known to fail once in a while under load - re-run once before concluding that your change broke it).

THE PROPERTY
__PROPERTY__
(Note: line numbers and some parenthetical remarks in the mechanism list may be slightly stale; read the current code.)

ALREADY SUBMITTED BY SOMEONE ELSE (do NOT submit these or close variants of them; find DIFFERENT mechanisms):
__DONE__
__EXTRA__
YOUR TASK
Produce TWO different, independent changes to the library source (files under __WT__/aiohomekit/ only - never edit tests) such that each change, applied alone to the clean tree:
  1. still imports/compiles, and the existing test suite still passes completely (command above);
  2. BREAKS the property above - i.e. there is an input / schedule / fault sequence / history within the property's quantifier for which the library now misbehaves;
  3. is the kind of mistake a maintainer could plausibly make in a refactor, optimisation or "clean-up" (not sabotage that any use would expose at once). __FOCUS__Prefer changes that need something SPECIFIC to manifest: a particular interleaving, a fault at a particular point, a multi-step sequence of operations, an unusual but legal input (boundary length, leading zero byte, particular status code, ...), or two cooperating sites that each look fine alone. Ordinary happy-path use must keep working.
  The two changes should be different in mechanism from each other and from the list above. Look at parts of the property (clauses, transports, code paths) the list above does NOT touch.

For each change also write a DEMONSTRATION: a small pytest test file or stand-alone script that exercises the real library code, FAILS (non-zero exit) with the change applied and PASSES (exit 0) on the clean tree. It may use mocks/fakes of the network, but must call the real aiohomekit functions the property is about. Verify both directions yourself (use `git stash` / `git checkout -- aiohomekit` to switch between the clean and the changed tree).

DELIVERABLES (create exactly this layout, then leave the worktree's aiohomekit/ sources CLEAN, i.e. `git -C __WT__ status --short aiohomekit` prints nothing):
  __WT__/seeded_demo/a/patch.diff      - `git diff -- aiohomekit` of change A (must apply with `git apply` to the clean tree)
  __WT__/seeded_demo/a/demo.py         - demonstration for A (pytest file with test_ functions, or a script; say which in the notes), run from cwd __WT__
  __WT__/seeded_demo/a/NOTES.md        - 5-15 lines, FIRST LINE a one-sentence title of the change ("# Change A - ..."), then: what the change is, which clause of the property it breaks, a line starting "Needed to manifest:" saying what exactly is needed, the exact commands you ran and their outcomes
  __WT__/seeded_demo/b/...             - same for change B

Keep each patch small. When you are done, reply with a 10-line summary: for A and B one sentence each on the mechanism and what it needs to manifest, and confirmation of the three verification runs for each (suite with change passes; demo with change fails; demo on clean tree passes).
'''

FOCUS = {
    7: ("__N__ changes have already been submitted for this property (listed above); do not repeat their sites or their triggers. This time: make change A a slip on an ERROR, CANCELLATION, TIMEOUT or CLEAN-UP path "
        "(an except/finally block, a reset or rollback that is skipped or runs too early, a future/lock/counter left in the wrong state after a failure, an exception class or error code mapped wrongly) so that the FIRST "
        "operation after some fault misbehaves while fault-free use is unchanged. Make change B a slip in a HELPER the property's mechanisms rely on but that is not itself named in the mechanism list (a conversion, "
        "length/offset computation, cache, lookup table, default value, comparison of ids/keys, ordering of a collection), preferably on a transport or clause the list above touches least. "),
    8: ("__N__ changes have already been submitted for this property (listed above); do not repeat their sites or their triggers. This time: make change A a CONCURRENCY or ORDERING slip - two operations of the "
        "public API overlapping on one object (a second caller arriving while the first is suspended at an await), a callback or listener that calls back into the API, an await moved across a state update, a lock "
        "or flag released too early / taken too late, a task or timer not cancelled, work done in the wrong order after a refactor into helper coroutines - so that sequential use is unchanged and only an "
        "interleaving misbehaves. Make change B a slip in how data CROSSES A BOUNDARY: caller-owned mutable arguments kept or modified (aliasing), values converted between representations (bytes/str/int, "
        "case, endianness, signedness, units, seconds/milliseconds), limits and sizes taken from the wrong side (ours vs the peer's), defaults applied when a field is absent vs empty vs zero. "),
}

EXTRA = {
    "C06": "  (Note: BLE *broadcast* notifications - keyed by the broadcast key, not a session key - belong to a different property; stay with session keys here.)\n",
}


def main() -> int:
    rnd, out_dir, wt_prefix = int(sys.argv[1]), Path(sys.argv[2]), sys.argv[3]
    out_dir.mkdir(parents=True, exist_ok=True)
    done: dict[str, list[str]] = {}
    for mp in sorted((VERIF / "seeded").glob("*/meta.json")):
        m = json.loads(mp.read_text())
        if m.get("change"):
            done.setdefault(m["property"], []).append(m["change"])
    for line in (VERIF / "properties.jsonl").read_text().splitlines():
        p = json.loads(line)
        pid = p["id"]
        mech = "\n".join(f"  - {m['name']} ({m['where']})" for m in p["anchors"]["mechanism"])
        txt = (f"Property {pid}: {p['title']}\n\nSTATEMENT: {p['statement']}\n\nQUANTIFIER ({', '.join(p['quantifier']['over'])}): {p['quantifier']['text']}\n\n"
               f"WHY TESTS CANNOT SETTLE IT: {p['why_tests_cant']}\n\nANCHOR FILES: {', '.join(p['anchors']['files'])}\nMECHANISMS MEANT TO MAKE IT HOLD:\n{mech}\n")
        d = "\n".join("  - " + c for c in done.get(pid, []))
        focus = FOCUS.get(rnd, "").replace("__N__", str(len(done.get(pid, []))))
        s = (TEMPLATE.replace("__PROPERTY__", txt).replace("__DONE__", d).replace("__EXTRA__", EXTRA.get(pid, "") + "\n" if EXTRA.get(pid) else "")
             .replace("__FOCUS__", focus).replace("__WT__", f"{wt_prefix}{pid}"))
        (out_dir / f"{pid}.prompt").write_text(s)
    print("wrote", len(list(out_dir.glob("*.prompt"))), "prompts to", out_dir)
    return 0


if __name__ == "__main__":
    sys.exit(main())
