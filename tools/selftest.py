#!/venv/bin/python
"""setup_cmd: offline self-test of the framework (no installs, no network).

* every module under vf/ref imports without pulling in aiohomekit (independence of the reference peers);
* reference self-tests (RFC vectors) pass;
* the repository imports from /repo's working tree.
"""

from __future__ import annotations

import importlib
import pkgutil
import subprocess
import sys
from pathlib import Path

ROOT = Path(__file__).resolve().parent.parent
sys.path.insert(0, str(ROOT))


def main() -> int:
    code = (
        "import sys, pkgutil, importlib; sys.path.insert(0, %r);\n"
        "import vf.ref as r\n"
        "mods=[m.name for m in pkgutil.iter_modules(r.__path__)]\n"
        "[importlib.import_module('vf.ref.'+m) for m in mods]\n"
        "bad=[m for m in sys.modules if m=='aiohomekit' or m.startswith('aiohomekit.')]\n"
        "assert not bad, bad\n"
        "for m in mods:\n"
        "    mod=sys.modules['vf.ref.'+m]\n"
        "    if hasattr(mod,'selftest'): mod.selftest()\n"
        "print('vf.ref independent:', ','.join(mods))\n"
    ) % str(ROOT)
    r = subprocess.run([sys.executable, "-c", code], capture_output=True, text=True, timeout=300)
    sys.stdout.write(r.stdout)
    if r.returncode != 0:
        sys.stdout.write(r.stderr)
        print("SELFTEST FAILED: reference modules")
        return 1
    import os

    repo = os.environ.get("VERIF_REPO", "/repo")
    sys.path.insert(0, repo)
    import aiohomekit

    if not str(Path(aiohomekit.__file__).resolve()).startswith(repo.rstrip("/") + "/"):
        print("SELFTEST FAILED: aiohomekit is not imported from /repo:", aiohomekit.__file__)
        return 1
    for m in pkgutil.iter_modules([str(ROOT / "vf" / "props")]):
        importlib.import_module("vf.props." + m.name)
    print("selftest ok")
    return 0


if __name__ == "__main__":
    sys.exit(main())
