#!/usr/bin/env python3
"""Sensitivity test helper: apply one textual mutation to /repo's working tree, run a check, restore.

usage: mutate.py <Cnn>[,Cmm] <repo-relative-file> <old> <new> [--tier quick] [--count N]
       mutate.py <Cnn> --patch file.diff

Never commits anything to /repo; always restores with `git checkout -- <file>` (also on error).
Exit status 0 if the (first) check reported a VIOLATION (mutant caught), 3 if it was missed.
"""

from __future__ import annotations

import argparse
import subprocess
import sys
import time


def sh(cmd, **kw):
    return subprocess.run(cmd, shell=True, text=True, capture_output=True, **kw)


def main() -> int:
    ap = argparse.ArgumentParser()
    ap.add_argument("props")
    ap.add_argument("file", nargs="?")
    ap.add_argument("old", nargs="?")
    ap.add_argument("new", nargs="?")
    ap.add_argument("--patch")
    ap.add_argument("--tier", default="quick")
    ap.add_argument("--count", type=int, default=1)
    ap.add_argument("--seed", default="0")
    args = ap.parse_args()

    dirty = sh("git -C /repo status --porcelain --untracked-files=no").stdout.strip()
    if dirty:
        print("refusing: /repo has uncommitted tracked changes:\n" + dirty)
        return 2
    try:
        if args.patch:
            r = sh(f"git -C /repo apply {args.patch}")
            if r.returncode:
                print("patch does not apply:", r.stderr)
                return 2
        else:
            path = "/repo/" + args.file
            src = open(path).read()
            if src.count(args.old) < 1:
                print("old string not found")
                return 2
            if src.count(args.old) != args.count:
                print(f"old string occurs {src.count(args.old)} times (expected {args.count})")
                return 2
            open(path, "w").write(src.replace(args.old, args.new))
        caught_all = True
        for prop in args.props.split(","):
            t0 = time.time()
            r = sh(
                f"cd /verif && VERIF_SEED={args.seed} PYTHONHASHSEED=0 PYTHONDONTWRITEBYTECODE=1 PYTHONPATH=/repo:/verif"
                f" /venv/bin/python check.py {prop} --tier {args.tier}"
            )
            lines = r.stdout.strip().splitlines()
            viol = [ln for ln in lines if ln.startswith("VIOLATION")]
            keys = sorted({ln.split()[0] for ln in lines if ln.startswith("  key=")})
            verdict = "CAUGHT" if r.returncode == 1 and viol else ("INCONCLUSIVE" if r.returncode == 2 else "MISSED")
            print(f"{prop}: {verdict} rc={r.returncode} in {time.time() - t0:.1f}s keys={keys[:6]}")
            if verdict != "CAUGHT":
                caught_all = False
                print("\n".join(lines[-6:]))
                if r.stderr.strip():
                    print(r.stderr[-800:])
            else:
                for ln in lines:
                    if ln.startswith("  key="):
                        print("   ", ln.strip()[:260])
                        break
        return 0 if caught_all else 3
    finally:
        sh("git -C /repo checkout -- .")
        # evidence written while the repo was mutated is not evidence
        sh("cd /verif && git checkout -- evidence 2>/dev/null; rm -rf /verif/replays")


if __name__ == "__main__":
    sys.exit(main())
