#!/usr/bin/env python3
"""Which lines of the library does each check's quick workload actually execute?

usage: coverage_map.py [Cnn ...] [--shards K] [--jobs N] [--out FILE]

Every check is run shard by shard (the first K of its quick-tier shards, the real shard entry point) under coverage.py
(sys.monitoring core) with the library as the measured source; the executed lines are merged per check and written to
seeded/COVERAGE_MAP.json as {check: {file: [[first, last], ...]}} plus, per property, the share of executable lines of its
ANCHOR files that the workload reached.  Two uses:

* evidence of reach (DESIGN 8.5): a monitor cannot notice a change on a line its workload never executes;
* tools/mutation_sweep.py --cover-map: a mutant is judged by the checks anchored in its file AND by every check whose
  workload executes the mutated line.

The evidence directory of the real tree is not touched (VERIF_OUT points into a scratch directory).
"""

from __future__ import annotations

import argparse
import json
import os
import shutil
import subprocess
import sys
import tempfile
from concurrent.futures import ThreadPoolExecutor
from pathlib import Path

VERIF = Path(__file__).resolve().parent.parent
REPO = os.environ.get("VERIF_REPO", "/repo")
ALL = [f"C{i:02d}" for i in range(1, 21)]


def ranges(lines):
    out = []
    for n in sorted(lines):
        if out and out[-1][1] == n - 1:
            out[-1][1] = n
        else:
            out.append([n, n])
    return out


def one(check: str, shards: int, scratch: str) -> dict:
    sys.path.insert(0, str(VERIF))
    d = Path(scratch) / check
    d.mkdir(parents=True)
    env = dict(os.environ, VERIF_OUT=str(d / "out"), PYTHONHASHSEED="0", PYTHONDONTWRITEBYTECODE="1", PYTHONPATH=f"{REPO}:{VERIF}", COVERAGE_CORE="sysmon",
               COVERAGE_FILE=str(d / ".coverage"))
    nshards = json.loads(subprocess.run([
        "/venv/bin/python", "-c", f"import json,importlib; m=importlib.import_module('vf.props.{check.lower()}'); print(json.dumps(m.SHARDS['quick']))"],
        cwd=str(VERIF), env=env, capture_output=True, text=True).stdout or "1")
    procs = []
    for i in range(min(shards, nshards)):
        procs.append(subprocess.Popen(
            ["/venv/bin/python", "-m", "coverage", "run", "-p", f"--source={REPO}/aiohomekit", "check.py", check, "--tier", "quick", "--shard", f"{i}/{nshards}", "--out", str(d / f"s{i}.json")],
            cwd=str(VERIF), env=env, stdout=subprocess.DEVNULL, stderr=subprocess.DEVNULL))
    for p in procs:
        try:
            p.wait(timeout=3000)
        except subprocess.TimeoutExpired:
            p.kill()
    subprocess.run(["/venv/bin/python", "-m", "coverage", "combine", "-q"], cwd=str(d), env=env, capture_output=True)
    r = subprocess.run(["/venv/bin/python", "-m", "coverage", "json", "-q", "-o", str(d / "cov.json")], cwd=str(d), env=env, capture_output=True, text=True)
    if not (d / "cov.json").exists():
        return {"check": check, "error": r.stderr[-300:]}
    cov = json.loads((d / "cov.json").read_text())
    files = {}
    stats = {}
    for f, rec in cov["files"].items():
        rel = os.path.relpath(f, REPO)
        if rec["executed_lines"]:
            files[rel] = ranges(rec["executed_lines"])
        stats[rel] = (len(rec["executed_lines"]), len(rec["executed_lines"]) + len(rec["missing_lines"]))
    return {"check": check, "files": files, "stats": stats, "shards_run": min(shards, nshards), "shards_total": nshards}


def main() -> int:
    ap = argparse.ArgumentParser()
    ap.add_argument("checks", nargs="*")
    ap.add_argument("--shards", type=int, default=4)
    ap.add_argument("--jobs", type=int, default=4)
    ap.add_argument("--out", default=str(VERIF / "seeded" / "COVERAGE_MAP.json"))
    args = ap.parse_args()
    checks = args.checks or ALL
    anchors = {}
    for line in (VERIF / "properties.jsonl").read_text().splitlines():
        p = json.loads(line)
        anchors[p["id"]] = [f for f in p["anchors"]["files"] if f.endswith(".py")]
    scratch = tempfile.mkdtemp(prefix="covmap_")
    out = {"shards_per_check": args.shards, "checks": {}, "anchor_reach": {}}
    if Path(args.out).exists() and args.checks:
        out = json.loads(Path(args.out).read_text())
    try:
        with ThreadPoolExecutor(args.jobs) as ex:
            for res in ex.map(lambda c: one(c, args.shards, scratch), checks):
                c = res["check"]
                if "error" in res:
                    print(c, "ERROR", res["error"])
                    continue
                out["checks"][c] = res["files"]
                reach = {}
                for f in anchors[c]:
                    e, t = res["stats"].get(f, (0, 0))
                    reach[f] = {"executed": e, "executable": t}
                out["anchor_reach"][c] = reach
                print(c, f"shards {res['shards_run']}/{res['shards_total']}", " ".join(f"{Path(f).name}:{v['executed']}/{v['executable']}" for f, v in reach.items()), flush=True)
    finally:
        shutil.rmtree(scratch, ignore_errors=True)
    Path(args.out).write_text(json.dumps(out, separators=(",", ":")) + "\n")
    return 0


if __name__ == "__main__":
    sys.exit(main())
