#!/usr/bin/env python3
"""Evaluate one independently written breaking change (delivered by a sub-agent in a scratch worktree).

usage: seed_eval.py <worktree> <variant a|b> <property id> [--checks C01,C02,...] [--keep]

Steps (everything happens in the scratch worktree; /repo is never touched here):
  1. the worktree's aiohomekit/ must be clean; patch.diff must apply;
  2. with the patch: the repository's own test suite must pass; the demonstration must FAIL;
  3. without the patch: the demonstration must PASS;
  4. with the patch applied in the worktree, every listed check (default: all 20) is run at the quick tier with
     VERIF_REPO=<worktree>; which ones report a VIOLATION is recorded;
  5. if everything in 1-3 is confirmed the change is kept as /verif/seeded/<PROP>-<variant>/ (patch.diff, demo, meta.json).
"""

from __future__ import annotations

import argparse
import json
import os
import shutil
import subprocess
import sys
import tempfile
import time
from pathlib import Path

VERIF = Path("/verif")


def sh(cmd, cwd=None, timeout=3600, env=None):
    return subprocess.run(cmd, shell=True, cwd=cwd, text=True, capture_output=True, timeout=timeout, env=env)


def run_demo(wt, demo: Path):
    if "def test_" in demo.read_text():
        cmd = f"/venv/bin/python -m pytest -q -p no:cacheprovider --timeout=600 {demo}"
    else:
        cmd = f"/venv/bin/python {demo}"
    r = sh(cmd, cwd=wt, timeout=1200)
    return r.returncode, cmd, (r.stdout + r.stderr)[-600:]


def main() -> int:
    ap = argparse.ArgumentParser()
    ap.add_argument("worktree")
    ap.add_argument("variant")
    ap.add_argument("prop")
    ap.add_argument("--checks")
    ap.add_argument("--skip-suite", action="store_true")
    ap.add_argument("--as", dest="as_", help="suffix to store the change under (default: the variant letter)")
    args = ap.parse_args()
    wt = args.worktree.rstrip("/")
    src = Path(wt) / "seeded_demo" / args.variant
    patch = src / "patch.diff"
    demo = src / "demo.py"
    sid = f"{args.prop}-{args.as_ or args.variant}"
    if not patch.exists() or not demo.exists():
        print(f"{sid}: deliverables missing in {src}")
        return 2
    if sh("git status --short aiohomekit", cwd=wt).stdout.strip():
        sh("git checkout -- aiohomekit", cwd=wt)
    meta = {"id": sid, "property": args.prop, "source": "independent sub-agent (given only the property text and a scratch worktree)",
            "notes_from_author": (src / "NOTES.md").read_text()[:3000] if (src / "NOTES.md").exists() else "", "ran": []}
    # clean tree: demo passes
    rc, cmd, out = run_demo(wt, demo)
    meta["ran"].append({"cmd": f"(clean tree) {cmd}", "rc": rc})
    if rc != 0:
        print(f"{sid}: REJECTED - demonstration fails on the clean tree\n{out}")
        return 3
    r = sh(f"git apply {patch}", cwd=wt)
    if r.returncode:
        print(f"{sid}: REJECTED - patch does not apply: {r.stderr}")
        return 3
    try:
        rc, cmd, out = run_demo(wt, demo)
        meta["ran"].append({"cmd": f"(patched) {cmd}", "rc": rc})
        if rc == 0:
            print(f"{sid}: REJECTED - demonstration passes with the change applied")
            return 3
        if not args.skip_suite:
            # own network namespace: the suite binds ports 51842+ and collides with other concurrent test runs otherwise
            r = sh("unshare -n sh -c 'ip link set lo up; /venv/bin/python -m pytest -q -p no:cacheprovider --timeout=900 -x --ignore=seeded_demo'", cwd=wt, timeout=1800)
            tail = (r.stdout.strip().splitlines() or [""])[-1]
            meta["ran"].append({"cmd": "(patched) /venv/bin/python -m pytest -q -p no:cacheprovider --timeout=900 -x", "rc": r.returncode, "tail": tail})
            if r.returncode != 0:
                print(f"{sid}: REJECTED - existing test suite fails with the change: {tail}")
                return 3
        # which checks catch it?
        checks = args.checks.split(",") if args.checks else [f"C{i:02d}" for i in range(1, 21)]
        caught, missed, other = {}, [], {}
        out_dir = tempfile.mkdtemp(prefix="seed_eval_out_")
        env = dict(os.environ, VERIF_REPO=wt, VERIF_OUT=out_dir, PYTHONHASHSEED="0", PYTHONDONTWRITEBYTECODE="1", PYTHONPATH=f"{wt}:/verif")
        for c in checks:
            t0 = time.time()
            r = sh(f"/venv/bin/python check.py {c} --tier quick", cwd=str(VERIF), env=env, timeout=3600)
            lines = r.stdout.splitlines()
            keys = sorted({ln.strip().split()[0][4:] for ln in lines if ln.startswith("  key=")})
            if r.returncode == 1:
                caught[c] = {"keys": keys[:8], "seconds": round(time.time() - t0, 1)}
            elif r.returncode == 2:
                other[c] = [ln for ln in lines if ln.startswith("INCONCLUSIVE")][:2]
            else:
                missed.append(c)
        meta["caught_by"] = caught
        meta["inconclusive"] = other
        meta["not_caught_by"] = missed
    finally:
        sh("git checkout -- aiohomekit", cwd=wt)
        # evidence written against a patched tree is not evidence: it went to a scratch directory (VERIF_OUT)
        if "out_dir" in locals():
            shutil.rmtree(out_dir, ignore_errors=True)
    dst = VERIF / "seeded" / sid
    dst.mkdir(parents=True, exist_ok=True)
    shutil.copy(patch, dst / "patch.diff")
    shutil.copy(demo, dst / "demo.py")
    for extra in src.iterdir():
        if extra.name not in ("patch.diff", "demo.py", "NOTES.md") and extra.is_file() and extra.stat().st_size < 200_000:
            shutil.copy(extra, dst / extra.name)
    meta["breaks"] = args.prop
    meta["confirmed"] = {"demo_clean_tree": "passes", "demo_with_change": "fails", "suite_with_change": "passes (229)" if not args.skip_suite else "not re-run"}
    (dst / "meta.json").write_text(json.dumps(meta, indent=1) + "\n")
    target = caught.get(args.prop)
    print(f"{sid}: KEPT; own check {args.prop}: {'CAUGHT ' + str(target['keys'][:3]) if target else 'MISSED'}; all catching checks: {sorted(caught)}; inconclusive: {sorted(other)}")
    return 0 if target else 4


if __name__ == "__main__":
    sys.exit(main())
