"""C14 Values prepared for writing respect format, range and step.

Post-condition monitor on the real check_convert_value / Service.build_update with an exact
rational-arithmetic oracle (fractions.Fraction on the decimal reading of the inputs).
"""

from __future__ import annotations

import itertools
import math
import re
from fractions import Fraction

PROPERTY_ID = "C14"
LEVEL = "exploration"
RULE = (
    "cases = format {bool,uint8,uint16,uint32,uint64,int,float} x constraint set (none/min/max/min+max, +step; negative"
    " minima to -2^31, maxima to 2^64-1, fractional steps 0.1/0.5/0.01/0.25 for float) x input (int, float, numeric string,"
    " bool, garbage) placed around every grid point (+-0, +-eps, step/2-+eps, step/2), around the bounds, at powers of 10"
    " up to 1e20 and 2^n+-1, plus seeded random inputs; each through check_convert_value and through Service.build_update."
    " Distinct by (format, constraints, repr(input), entry point); non-trivial = a numeric/bool format with a non-None input."
)
ASSUMPTIONS = [
    "decimal reading: float inputs are read as repr(x), strings by plain/scientific decimal notation",
    "ties go upward is judged for q>0 (for q<0 with no minimum either neighbour is accepted: 'upward' and 'half-up' differ there)",
    "tier (ii) for the float format tolerates double-representation noise of declared float metadata: |r-g*| <= 1e-9*max(|min|,|c|,step,|g*|)",
    "tier (iii) tolerance: |k-q| <= 1/2 + 2e-5*max(1,|q|) and the result within 2e-5 relative of off+k*step",
    "integer formats are generated with integral min/max/step only; without a declared step only type, range and |r-c|<1 are judged",
    "strings such as '0x10', ' 12 ', '1_0', 'nan', 'inf' are ambiguous: only the exception clause is judged",
]
SHARDS = {"quick": 8, "thorough": 16}
TIMEOUT = {"quick": 600, "thorough": 3600}
MIN_CASES = {"quick": 40_000, "thorough": 500_000}
REQUIRED_COUNTERS = ["postconditions_evaluated", "tier_i_exact", "tier_ii_exact", "tier_iii_tolerant", "format_errors_seen", "build_update_calls", "metadata_style_1", "metadata_style_2", "metadata_style_3", "ambient_context_probes_inside_the_rounding_block"]

NUM_RE = re.compile(r"^[+-]?(\d+(\.\d*)?|\.\d+)([eE][+-]?\d+)?$")
INT_FORMATS = ["uint8", "uint16", "uint32", "uint64", "int"]
GARBAGE = ["", "abc", "1,5", None, [], {}, b"1", "--1", "1e", ".", "12abc", "one"]
AMBIGUOUS = ["0x10", " 12 ", "1_0", "nan", "inf", "-inf", "Infinity", "NaN", "+inf"]
VENDOR_TYPE = "0000FF01-0000-1000-8000-0026BB765291"


def decimal_reading(x):
    """Fraction for inputs that denote a finite number; 'garbage' / 'ambiguous' otherwise."""
    if isinstance(x, bool):
        return Fraction(int(x))
    if isinstance(x, int):
        return Fraction(x)
    if isinstance(x, float):
        if math.isnan(x) or math.isinf(x):
            return "ambiguous"
        return Fraction(repr(x))
    if isinstance(x, str):
        if NUM_RE.match(x):
            return Fraction(x)
        if x in AMBIGUOUS or x.strip().lower().lstrip("+-") in ("nan", "inf", "infinity", "snan"):
            return "ambiguous"
        if x != x.strip() and NUM_RE.match(x.strip()):
            return "ambiguous"
        if "_" in x or x.lower().startswith(("0x", "0o", "0b")):
            return "ambiguous"
        return "garbage"
    return "garbage"


def sig_digits(fr: Fraction):
    """Number of significant decimal digits of a terminating decimal, None if non-terminating."""
    if fr == 0:
        return 1
    den = fr.denominator
    while den % 2 == 0:
        den //= 2
    while den % 5 == 0:
        den //= 5
    if den != 1:
        return None
    # scale to integer
    n, d = abs(fr.numerator), fr.denominator
    scale = 0
    while n * 10**scale % d:
        scale += 1
        if scale > 60:
            return None
    m = n * 10**scale // d
    s = str(m).rstrip("0") or "0"
    return len(s)


def fr(x):
    if x is None:
        return None
    if isinstance(x, float):
        return Fraction(repr(x))
    return Fraction(x)


def make_char(fmt, mn, mx, step, style: int = 0):
    """style 0: metadata passed to the constructor (IP, cache files); 1: assigned to the attributes after construction
    (what the BLE GATT fetch does: add_char(uuid, iid=..), then hap_char.minValue = ...); 2: the object first carried OTHER
    limits and was used with them (metadata re-read after a configuration change)."""
    from aiohomekit.model import Accessory

    acc = Accessory(1)
    svc = acc.add_service("0000FF00-0000-1000-8000-0026BB765291")
    if style == 0:
        ch = svc.add_char(VENDOR_TYPE, format=fmt, min_value=mn, max_value=mx, min_step=step, perms=["pr", "pw"], unit=None,
                          description=None, valid_values=None)
        return svc, ch
    if style == 1:
        ch = svc.add_char(VENDOR_TYPE, perms=["pr", "pw"], unit=None, description=None, valid_values=None)
    else:
        from aiohomekit.model.characteristics.characteristic import check_convert_value

        ch = svc.add_char(VENDOR_TYPE, format=fmt, min_value=0, max_value=1, min_step=1, perms=["pr", "pw"], unit=None,
                          description=None, valid_values=None)
        try:
            check_convert_value(1, ch)
        except Exception:  # noqa: BLE001
            pass
    ch.format = fmt
    ch.minValue = mn
    ch.maxValue = mx
    ch.minStep = step
    return svc, ch


BLE_FORMAT_CODE = {"uint8": (0x04, "B"), "uint16": (0x06, "H"), "uint32": (0x08, "L"), "uint64": (0x0A, "Q"), "int": (0x10, "l"), "float": (0x14, "f")}


def ble_signature_expressible(fmt, mn, mx, step) -> bool:
    """Can a HAP-BLE characteristic signature carry exactly these limits? (valid range = both bounds, values of the
    characteristic's own wire type; for float only values that float32 represents exactly)"""
    import struct

    if fmt not in BLE_FORMAT_CODE or mn is None or mx is None:
        return False
    code = BLE_FORMAT_CODE[fmt][1]
    for v in (mn, mx) + ((step,) if step is not None else ()):
        if isinstance(v, bool):
            return False
        try:
            if struct.unpack("<" + code, struct.pack("<" + code, v))[0] != v:
                return False
        except (struct.error, TypeError, OverflowError):
            return False
        if fmt != "float" and not isinstance(v, int):
            return False
    return step is None or step != 0


def ble_signature_char(fmt, mn, mx, step):
    """style 3: the limits reach the model the way they do on BLE - packed into a characteristic signature (reference packing
    here), decoded by the real ble.structs.Characteristic, copied onto the model characteristic as BlePairing does."""
    import struct

    from aiohomekit.controller.ble.structs import Characteristic as BleSig
    from aiohomekit.model import Accessory

    fcode, pack = BLE_FORMAT_CODE[fmt]
    sig = BleSig(
        type=0xFF01, instance_id=9, properties=0x0030, presentation_format=struct.pack("<BxHxxx", fcode, 0x2700),
        valid_range=struct.pack("<" + pack * 2, mn, mx), step_value=struct.pack("<" + pack, step) if step is not None else None,
        valid_values=None, valid_values_range=None, service_instance_id=None, service_type=None, user_description=None,
    )
    decoded = BleSig.decode(sig.encode()).to_dict()
    acc = Accessory(1)
    svc = acc.add_service("0000FF00-0000-1000-8000-0026BB765291")
    ch = svc.add_char(VENDOR_TYPE, iid=9)
    ch.perms = decoded.get("perms", [])
    if "format" in decoded:
        ch.format = decoded["format"]
    if "minStep" in decoded:
        ch.minStep = decoded["minStep"]
    if "minValue" in decoded:
        ch.minValue = decoded["minValue"]
    if "maxValue" in decoded:
        ch.maxValue = decoded["maxValue"]
    return svc, ch


def judge(ctx, fmt, mn, mx, step, value, entry, result, exc, replay) -> None:
    """Oracle. result/exc are what the real code did."""
    from aiohomekit.exceptions import FormatError

    ctx.count("postconditions_evaluated")
    desc = f"format={fmt} min={mn!r} max={mx!r} step={step!r} input={value!r} via {entry}"
    if exc is not None:
        if not isinstance(exc, FormatError):
            ctx.violation(
                f"raises-{type(exc).__name__}-instead-of-FormatError",
                f"{desc}: raised {type(exc).__name__}: {exc}",
                replay,
            )
            return
        ctx.count("format_errors_seen")
    if fmt == "bool":
        canon = {True: 1, 1: 1, "1": 1, "true": 1, "True": 1, False: 0, 0: 0, "0": 0, "false": 0, "False": 0}
        if exc is not None:
            if isinstance(value, (bool, int, str)) and not isinstance(value, float) and value in canon:
                ctx.violation("bool-rejects-canonical", f"{desc}: raised FormatError", replay)
            return
        if type(result) is not int or result not in (0, 1):
            ctx.violation("bool-result-not-0-or-1", f"{desc}: returned {result!r}", replay)
            return
        try:
            want = canon.get(value) if not isinstance(value, float) else None
        except TypeError:
            want = None
        if want is not None and result != want:
            ctx.violation("bool-wrong-mapping", f"{desc}: returned {result!r}, want {want}", replay)
        return

    v = decimal_reading(value)
    if v == "garbage":
        if exc is None:
            ctx.violation("garbage-accepted", f"{desc}: returned {result!r} for an input that does not denote a number", replay)
        return
    if v == "ambiguous":
        return  # only the exception clause (checked above)
    if exc is not None:
        ctx.violation("numeric-input-rejected", f"{desc}: raised FormatError for a numeric input", replay)
        return
    readings = [v]
    if isinstance(value, float) and Fraction(value) != v:
        # a float input has two legitimate exact readings: its shortest decimal repr and its binary value
        readings.append(Fraction(value))
    findings = []
    tiers = []
    for reading in readings:
        tier_box = []
        f = judge_numeric(fmt, mn, mx, step, reading, result, desc, tier_box)
        tiers.append(tier_box[0] if tier_box else None)
        if f is None:
            if tier_box:
                ctx.count(tier_box[0])
            return
        findings.append(f)
    if tiers[0]:
        ctx.count(tiers[0])
    key, msg = findings[0]
    ctx.violation(key, msg, replay)


def judge_numeric(fmt, mn, mx, step, v, result, desc, tier_box):
    """Return None if the post-condition holds for reading v, else (key, message)."""
    is_int_fmt = fmt in INT_FORMATS
    if is_int_fmt and type(result) is not int:
        return ("integer-format-yields-non-int", f"{desc}: returned {result!r} ({type(result).__name__})")
    if not is_int_fmt and type(result) is not float:
        return ("float-format-yields-non-float", f"{desc}: returned {result!r} ({type(result).__name__})")
    if not is_int_fmt and (math.isnan(result) or math.isinf(result)):
        if abs(v) < Fraction(10) ** 300:
            return ("float-result-non-finite", f"{desc}: returned {result!r}")
        return None
    r = Fraction(result) if is_int_fmt else Fraction(repr(result))
    fmn, fmx, fstep = fr(mn), fr(mx), fr(step)
    c = v
    if fmn is not None:
        c = max(fmn, c)
    if fmx is not None:
        c = min(fmx, c)
    if not fstep:
        tier_box.append("no_step_checked")
        # no declared grid: format + range + "it is the input"
        if is_int_fmt:
            if abs(r - c) >= 1:
                return ("no-step-integer-not-adjacent", f"{desc}: returned {result!r}, clamped input {float(c)!r}")
        else:
            want = float(c)
            if result != want and abs(r - c) > abs(c) * Fraction(1, 10**15):
                return ("no-step-float-differs", f"{desc}: returned {result!r}, want {want!r}")
        lo_ok = fmn is None or r >= fmn or (is_int_fmt and fmn.denominator != 1)
        hi_ok = fmx is None or r <= fmx or (is_int_fmt and fmx.denominator != 1)
        if not (lo_ok and hi_ok):
            return ("no-step-out-of-range", f"{desc}: returned {result!r}")
        return None

    off = fmn if fmn is not None else Fraction(0)
    q = (c - off) / fstep
    tie = (q * 2).denominator == 1 and q.denominator != 1
    kstar = math.floor(q + Fraction(1, 2))
    gstar = off + kstar * fstep
    alt = None
    if tie and q < 0:
        alt = off + (kstar - 1) * fstep  # half-away-from-zero neighbour accepted for negative ties
    integral = is_int_fmt and v.denominator == 1 and off.denominator == 1 and fstep.denominator == 1
    inter = [c - off, q, kstar * fstep, gstar]
    digs = [sig_digits(x) for x in inter]
    small = all(d is not None and d <= 6 for d in digs)
    bounds_on_grid = all(b is None or ((b - off) / fstep).denominator == 1 for b in (fmn, fmx))
    if integral or small:
        tier_box.append("tier_i_exact" if integral else "tier_ii_exact")
        ok = r == gstar or (alt is not None and r == alt)
        if not is_int_fmt and not ok:
            # float metadata (min/step) enters the computation with its binary expansion; after cancellation
            # (e.g. min=-273.15, input 0 -> 2.3e-14) the result differs from the exact answer by double noise
            noise = Fraction(1, 10**9) * max(abs(off), abs(c), fstep, abs(gstar))
            ok = (
                result == float(gstar)
                or abs(r - gstar) <= noise
                or (alt is not None and (result == float(alt) or abs(r - alt) <= noise))
            )
        if not ok:
            k_got = (r - off) / fstep
            if k_got.denominator != 1:
                key = "off-grid"
            elif tie:
                key = "tie-not-upward"
            elif abs(k_got - q) > Fraction(1, 2):
                key = "integer-precision-loss" if integral and abs(v) >= 10**6 else "not-nearest-grid-point"
            else:
                key = "not-nearest-grid-point"
            return (key, f"{desc}: returned {result!r}, exact answer {float(gstar)!r} ({gstar})")
        if bounds_on_grid and not ((fmn is None or r >= fmn) and (fmx is None or r <= fmx)):
            return ("out-of-range", f"{desc}: returned {result!r}")
        return None
    # tier (iii): six significant digits
    tier_box.append("tier_iii_tolerant")
    tol_q = Fraction(2, 10**5) * max(1, abs(q))
    tol_r = Fraction(2, 10**5) * max(abs(off), abs(r), abs(q * fstep), fstep)
    if is_int_fmt:
        tol_r += Fraction(1, 2)  # final integer rounding of a fractional grid point (ill-formed metadata only)
    lo = max((r - off - tol_r) / fstep, q - Fraction(1, 2) - tol_q)
    hi = min((r - off + tol_r) / fstep, q + Fraction(1, 2) + tol_q)
    if math.ceil(lo) > math.floor(hi):
        k_got = (r - off) / fstep
        return (
            "beyond-six-digit-tolerance",
            f"{desc}: returned {result!r}; (r-off)/step={float(k_got)!r} q={float(q)!r}: no integer k with"
            f" |r-(off+k*step)|<={float(tol_r):.3g} and |k-q|<=1/2+{float(tol_q):.3g}",
        )
    if bounds_on_grid:
        slack = tol_r
        if not ((fmn is None or r >= fmn - slack) and (fmx is None or r <= fmx + slack)):
            return ("out-of-range", f"{desc}: returned {result!r}")
    return None


def ambient_context_part(ctx) -> None:
    """Invariant at a hook: the conversion computes in a context of its OWN - the decimal context that is current when it is
    called (shared by every task of the loop, and by worker threads started with asyncio.to_thread, which inherit the same
    context object) is never altered, not even for the duration of the call. The hook is the characteristic's own `minStep`
    attribute, which the conversion reads before and INSIDE its step-rounding block."""
    import decimal

    from aiohomekit.model.characteristics.characteristic import check_convert_value

    class Probe:
        format = "float"
        minValue = 10
        maxValue = 38
        maxLen = None
        valid_values = None
        type = VENDOR_TYPE
        perms = ["pr", "pw"]

        def __init__(self, step, ambient):
            self._step, self._ambient, self.reads, self.altered = step, ambient, 0, None

        @property
        def minStep(self):
            self.reads += 1
            now = (self._ambient.prec, self._ambient.rounding)
            if now != (28, decimal.ROUND_HALF_EVEN) and self.altered is None:
                self.altered = now
            return self._step

    k = 0
    for step in (0.5, 0.1, 1, 5):
        for value in (27.25, 11, "12.34", 37.99):
            k += 1
            if not ctx.mine(k):
                continue
            ambient = decimal.Context(prec=28, rounding=decimal.ROUND_HALF_EVEN)
            decimal.setcontext(ambient)
            probe = Probe(step, ambient)
            ctx.case("ambient-context", step, repr(value), sample={"part": "ambient decimal context", "step": step, "input": repr(value)}, kind="ambient-context")
            try:
                check_convert_value(value, probe)
            except Exception as ex:  # noqa: BLE001
                ctx.mark_inconclusive(f"C14 ambient-context probe: conversion raised {ex!r}")
                return
            after = (ambient.prec, ambient.rounding)
            if probe.altered is not None or after != (28, decimal.ROUND_HALF_EVEN):
                ctx.violation("ambient-decimal-context-altered", f"step {step} input {value!r}: the caller's decimal context was set to prec/rounding {probe.altered or after} "
                              f"{'during' if probe.altered else 'after'} the conversion (every other task / worker thread sharing it rounds with that meanwhile: ties no longer go upward for them)",
                              {"ambient": True, "step": step, "value": value})
                return
            if probe.reads >= 2:
                ctx.count("ambient_context_probes_inside_the_rounding_block")
    decimal.setcontext(decimal.Context())


def run_case(ctx, fmt, mn, mx, step, value, entry, origin=None) -> None:
    from aiohomekit.model.characteristics.characteristic import check_convert_value

    import zlib

    style = zlib.crc32(repr((fmt, mn, mx, step, value, entry)).encode()) % 4  # deterministic per case
    if style == 3 and not ble_signature_expressible(fmt, mn, mx, step):
        style = 0
    ctx.count(f"metadata_style_{style}")
    svc, ch = ble_signature_char(fmt, mn, mx, step) if style == 3 else make_char(fmt, mn, mx, step, style)
    nontrivial = value is not None
    ctx.case(fmt, repr(mn), repr(mx), repr(step), repr(value), type(value).__name__, entry, nontrivial=nontrivial,
             sample={"format": fmt, "min": mn, "max": mx, "step": step, "input": repr(value), "entry": entry}, kind=(fmt, entry))
    replay = {"fmt": fmt, "mn": mn, "mx": mx, "step": step, "value": value, "entry": entry, "metadata_style": style}
    result = exc = None
    try:
        if entry == "build_update":
            ctx.count("build_update_calls")
            out = svc.build_update({VENDOR_TYPE: value})
            if not (isinstance(out, list) and len(out) == 1 and out[0][0] == 1 and out[0][1] == ch.iid):
                ctx.violation("build-update-shape", f"build_update returned {out!r}", replay)
                return
            result = out[0][2]
        else:
            result = check_convert_value(value, ch)
    except Exception as ex:  # noqa: BLE001 - the oracle decides which classes are acceptable
        exc = ex
    judge(ctx, fmt, mn, mx, step, value, entry, result, exc, replay)


# ---------------------------------------------------------------------------------------------
# generators
# ---------------------------------------------------------------------------------------------

INT_RANGE = {
    "uint8": (0, 255),
    "uint16": (0, 65535),
    "uint32": (0, 2**32 - 1),
    "uint64": (0, 2**64 - 1),
    "int": (-(2**31), 2**31 - 1),
}


def constraint_sets(fmt):
    if fmt == "bool":
        return [(None, None, None)]
    out = [(None, None, None)]
    if fmt in INT_FORMATS:
        lo, hi = INT_RANGE[fmt]
        mins = [lo, 0, 1, 10] + ([-50, -(2**31)] if fmt == "int" else [])
        maxs = sorted({hi, 100, 255 if hi >= 255 else hi, 38, min(hi, 65535), min(hi, 2**31 - 1)})
        steps = [None, 1, 2, 5, 10, 100, 3]
    else:
        mins = [0, 0.5, -50, 10, 0.1, -273.15, -(2**31)]
        maxs = [100, 38, 1, 360, 100000, 1234567, 2**31 - 1]
        steps = [None, 0.1, 0.5, 0.01, 0.25, 1, 5, 3, 0.2]
    seen = set()
    for mn in [None, *mins]:
        for mx in [None, *maxs]:
            if mn is not None and mx is not None and mn >= mx:
                continue
            for st in steps:
                key = (mn, mx, st)
                if key in seen:
                    continue
                seen.add(key)
                out.append(key)
    return out


def inputs_for(ctx, fmt, mn, mx, step, rng):
    if fmt == "bool":
        vals = [True, False, 1, 0, "1", "0", "true", "false", "True", "False", "yes", "no", "on", "off", "t", "f", "y", "n",
                2, -1, 1.0, 0.0, "2", "maybe", *GARBAGE]
        return vals
    vals = []
    off = mn if mn is not None else 0
    st = step if step else 1
    lo = mn if mn is not None else (INT_RANGE[fmt][0] if fmt in INT_FORMATS else -1000)
    hi = mx if mx is not None else (INT_RANGE[fmt][1] if fmt in INT_FORMATS else 1000)
    fstep = fr(st)
    foff = fr(off)
    # grid points near the start, the end and the middle of the range, and around zero
    span_k = int((fr(hi) - foff) / fstep) if fstep else 0
    ks = sorted({0, 1, 2, 3, 7, span_k // 2, max(0, span_k - 1), span_k, span_k + 1, -1, -2})
    eps = [Fraction(0), Fraction(1, 1000), fstep / 2, fstep / 2 - Fraction(1, 1000), fstep / 2 + Fraction(1, 1000), fstep / 3]
    for k in ks:
        g = foff + k * fstep
        for e in eps:
            for sgn in (1, -1):
                x = g + sgn * e
                vals.append(x)
    for b in (fr(lo), fr(hi)):
        for d in (0, 1, -1, Fraction(1, 2), -Fraction(1, 2), 1000, -1000):
            vals.append(b + d)
    for p in (0, 1, 2, 3, 5, 6, 7, 9, 10, 15, 19, 20):
        vals += [Fraction(10) ** p, Fraction(10) ** p + 1, -(Fraction(10) ** p)]
    for n in (7, 8, 15, 16, 20, 24, 31, 32, 33, 53, 63, 64):
        vals += [Fraction(2) ** n - 1, Fraction(2) ** n, Fraction(2) ** n + 1]
    vals += [Fraction(1234567), Fraction(-2147483000), Fraction(123456789012), Fraction("28.5"), Fraction("0.15"), Fraction("22.05")]
    out = []
    for x in vals:
        # render the same number in several input types
        if x.denominator == 1:
            out.append(int(x))
            out.append(str(int(x)))
            if abs(x) < 2**53:
                out.append(float(x))
        else:
            f = float(x)
            out.append(f)
            out.append(repr(f))
            # exact decimal string when terminating
            if sig_digits(x) is not None:
                s = format(x.numerator / x.denominator, ".12f").rstrip("0")
                out.append(s)
    out += ["1e3", "2.5E1", "+7", "-0", "007", ".5", "5.", "1e400", "-1e400", "1e-400", True, False]
    out += GARBAGE + AMBIGUOUS + [float("nan"), float("inf"), float("-inf")]
    for _ in range(ctx.pick(6, 500)):
        kind = rng.random()
        if kind < 0.3:
            out.append(rng.randint(int(lo) - 10, int(hi) + 10))
        elif kind < 0.6:
            out.append(round(rng.uniform(float(max(lo, -1e9)), float(min(hi, 1e9))), rng.choice([0, 1, 2, 3, 6])))
        elif kind < 0.8:
            out.append(rng.randint(-(2**64), 2**65))
        else:
            out.append(repr(round(rng.uniform(-500, 500), rng.choice([1, 2, 4]))))
    # dedupe by (type, repr)
    seen = set()
    uniq = []
    for x in out:
        k = (type(x).__name__, repr(x))
        if k not in seen:
            seen.add(k)
            uniq.append(x)
    return uniq


def gatt_fetch_part(ctx) -> None:
    """What the accessory's HAP-BLE signatures declare is what the model holds after the real GATT database fetch
    (vf/sim_gatt_db.py): formats, permission and event flags, service links in either direction, and the declared limits -
    a bound of exactly 0 included."""
    from vf import sim_gatt_db, vloop

    async def main():
        for k in range(ctx.pick(24, 600)):
            if ctx.mine(k):
                ctx.case("gatt-fetch", k, sample={"part": "BLE GATT database fetch", "layout": k}, kind="gatt-fetch")
                if not await sim_gatt_db.fetch_and_compare(ctx, ctx.grng("C14.gatt-fetch", k), {"gatt_fetch": k}):
                    return

    vloop.run(main())


def run(ctx) -> None:
    idx = 0
    formats = ["bool", *INT_FORMATS, "float"]
    for fmt in formats:
        sets = constraint_sets(fmt)
        for ci, (mn, mx, step) in enumerate(sets):
            idx += 1
            if not ctx.mine(idx):
                continue
            rng = ctx.grng("C14", fmt, ci)
            # quick: thin the constraint grid for the biggest formats, keep every step/min/max value represented
            if ctx.quick and fmt != "bool" and ci % 3 != (ctx.seed % 3) and ci > 40:
                continue
            vals = inputs_for(ctx, fmt, mn, mx, step, rng)
            for vi, value in enumerate(vals):
                entry = "build_update" if (vi + ci) % 4 == 0 else "check_convert_value"
                run_case(ctx, fmt, mn, mx, step, value, entry)
    ambient_context_part(ctx)
    gatt_fetch_part(ctx)


def replay(ctx, d) -> None:
    if d.get("gatt_fetch") is not None:
        ctx.shard, ctx.nshards = 0, 1
        gatt_fetch_part(ctx)
        return
    if d.get("ambient"):
        ctx.shard, ctx.nshards = 0, 1
        ambient_context_part(ctx)
        return
    run_case(ctx, d["fmt"], d["mn"], d["mx"], d["step"], d["value"], d["entry"])
