"""C11 A pairing never holds more than one open connection and leaks none.

Real code: SecureHomeKitConnection / HomeKitConnection (_connect_once, _reconnect, _drop_transport, close,
_stop_connector, _connection_lost) driven through IpPairing on real transports (vf.simnet) in virtual time.
Oracle: the simulated accessory is the ground truth for "open connection" (accepted, neither EOF nor close seen yet),
evaluated at quiescent points only; RecordingTransport close accounting and ResourceWarning capture as second opinion.
"""

from __future__ import annotations

import asyncio
import gc
import itertools
import warnings

PROPERTY_ID = "C11"
LEVEL = "fault_enumeration"
RULE = (
    "cases = histories: a sequence of secure-session setup outcomes for consecutive connection attempts over {refused,"
    " black-holed, bad signature, bad tag, wrong pairing id, missing field, wrong state, wrong-length key, error TLV"
    " busy/unavailable/authentication at M2 and M4, peer close at M2 / M4, HTTP 470/400, parser garbage, no answer (30 s"
    " timeout) at M2 / M4, success whose subscriber callback fails} - ALL sequences to the bounded length, sampled beyond -"
    " then success or not, then peer-initiated closes of every open connection in every order (each followed by a probe"
    " request on the connection in use), then close() / shutdown() (also twice). The open-connection set is checked at a"
    " quiescent point every 0.5 virtual seconds. Plus a CLOSE SWEEP: close() started at every loop-iteration index of base"
    " scenarios (mid-connect, mid-verify, in back-off, idle, request in flight, already closed). Plus a LATE-LOSS family: an"
    " abandoned connection whose close asyncio deferred (write buffer backed up behind a peer that stopped reading) dies"
    " only after a newer connection is in use. Distinct by (outcome"
    " sequence, ending, sweep index); non-trivial = at least one failed attempt or a sweep index > 0."
)
ASSUMPTIONS = [
    "AF_UNIX socketpair stands in for TCP; 'open' is judged on the accessory side at quiescent points (never mid-update)",
    "an accessory-side connection belongs to the _connect_once activation during which it was accepted; once that"
    " activation has failed the connection must be closed by the controller by the next quiescent point",
]
SHARDS = {"quick": 16, "thorough": 16}
TIMEOUT = {"quick": 900, "thorough": 7200}
MIN_CASES = {"quick": 1500, "thorough": 30000}
REQUIRED_COUNTERS = ["quiescent_checks", "failed_setups_closed", "closes_returned_normally", "close_sweep_points", "peer_close_probes", "auth_failure_then_close", "late_loss_probes", "reuse_after_close_histories", "announcements_after_shutdown", "announcements_during_shutdown", "own_pairing_removed_and_closed"]

FAILS = [
    "refuse", "blackhole", "bad_sig", "bad_tag", "wrong_id", "missing_field", "wrong_state", "bad_key_len",
    "m2_err:7", "m2_err:6", "m2_err:2", "m4_err:2", "m4_err:6", "close_m2", "close_m4", "http_470", "http_400",
    "garbage", "hang", "hang_m4", "sub_keyerror", "reset_m1",
]
AUTH_END = {"m2_err:2", "m4_err:2"}


class Run:
    def __init__(self, ctx, plan, after, ending, key, sweep_at=None, sweep_base=None):
        self.ctx = ctx
        self.plan = list(plan)
        self.after = after  # outcome for every activation beyond the plan: "ok" or "refuse"
        self.ending = ending
        self.key = key
        self.sweep_at = sweep_at
        self.sweep_base = sweep_base
        self.rng = ctx.grng("C11", key)
        self.replay = {"plan": self.plan, "after": after, "ending": ending, "sweep_at": sweep_at, "sweep_base": sweep_base}
        self.bad = False

    def outcome_now(self) -> str:
        i = self.log.activations[-1]["i"] if self.log.activations else 0
        return self.plan[i] if i < len(self.plan) else self.after

    def behaviour(self, host, attempt):
        o = self.outcome_now()
        if o == "refuse":
            return "refuse"
        if o == "blackhole":
            return "blackhole"
        return "accept"

    def script_for(self, host, attempt):
        from vf import simnet

        o = self.outcome_now()
        if o in ("ok", "sub_keyerror"):
            responder = self.sub_keyerror_responder if o == "sub_keyerror" else None
            return simnet.ConnScript(verify="ok", responder=responder)
        return simnet.ConnScript(verify=o)

    @staticmethod
    def sub_keyerror_responder(conn, req):
        # a 207 whose entries lack "status": the subscriber re-subscription inside connection_made(True) raises KeyError
        if conn.secure and req["method"] == "PUT" and req["target"] == "/characteristics" and b'"ev"' in req["body"]:
            conn.send(conn.http(207, b'{"characteristics":[{"aid":1,"iid":9}]}', "application/hap+json"))
            return True
        return False

    def violation(self, key, msg):
        self.bad = True
        self.ctx.violation(key, f"plan={self.plan} after={self.after} ending={self.ending} sweep={self.sweep_base}@{self.sweep_at}: {msg}", self.replay)

    def check_open(self, where: str) -> None:
        """Quiescent-point invariant."""
        ctx = self.ctx
        ctx.count("quiescent_checks")
        acc = self.w.accessory
        opened = acc.open_conns
        if len(opened) > 1:
            causes = []
            for c in opened[:-1]:
                rec = self.log.activation_of_conn(c.index)
                o = self.plan[rec["i"]] if rec and rec["i"] < len(self.plan) else self.after
                causes.append(o.split(":")[0])
            self.violation("more-than-one-open-connection-after-" + causes[0], f"[{where}] accessory sees {len(opened)} open connections {[c.index for c in opened]} (older ones from outcomes {causes})")
            return
        if not getattr(self, "closing_started", False):
            # ground truth from the accessory side: a connection whose setup succeeded is ended by the accessory, by a request
            # that failed on it, or by close() - never by the controller on its own
            for c in acc.conns:
                rec = self.log.activation_of_conn(c.index)
                if c.secure and rec is not None and rec["ok"] and c.closed_at is not None and not c.closed_by_accessory and not getattr(c, "vf_request_failed", False):
                    self.violation("connection-in-use-torn-down-by-controller", f"[{where}] connection {c.index} (attempt {rec['i']}: setup succeeded) was closed by the controller although nothing asked for it")
                    return
        for c in opened:
            rec = self.log.activation_of_conn(c.index)
            if rec is not None and rec["t1"] is not None and not rec["ok"]:
                o = self.plan[rec["i"]] if rec["i"] < len(self.plan) else self.after
                self.violation("failed-setup-connection-left-open-" + o.split(":")[0], f"[{where}] connection {c.index} of failed activation {rec['i']} ({o}: {rec['exc']}) is still open")
                return
        for rec in self.log.activations:
            if rec["t1"] is not None and not rec["ok"] and not rec.get("counted"):
                rec["counted"] = True
                if rec.get("last_conn", 0) > rec["first_conn"]:
                    ctx.count("failed_setups_closed")

    async def tick(self, where: str, dt: float = 0.5) -> None:
        from vf import vloop

        await asyncio.sleep(dt)
        await vloop.settle()
        self.check_open(where)

    async def run(self) -> None:
        from vf import simnet, vloop

        ctx = self.ctx
        hosts = ["10.0.0.5", "10.0.0.6"] if "wrong_id" in self.plan else ["10.0.0.5"]
        w = self.w = simnet.World(self.rng, hosts=hosts, behaviour=self.behaviour)
        w.accessory.script_for = self.script_for
        self.log = simnet.ConnectOnceLog(w).install()
        loop = asyncio.get_running_loop()
        loop.captured.clear()
        if "sub_keyerror" in self.plan:
            w.pairing.subscriptions.add((1, 9))
        close_box = {}
        try:
            if self.sweep_at is not None:
                base = loop.iterations

                def trigger():
                    self.closing_started = True
                    if self.key and self.key[-1] == "shutdown-poke":
                        close_box["task"] = asyncio.ensure_future(w.pairing.shutdown())
                    else:
                        close_box["task"] = asyncio.ensure_future(w.pairing.close())

                loop.at_iteration[base + self.sweep_at] = trigger
                if self.key and self.key[-1] == "shutdown-poke":
                    # the accessory is announced (zeroconf) in the very iterations in which shutdown() is still waiting inside
                    # close(): shutdown was CALLED, so the announcement is for a pairing that is shutting down - nothing may be
                    # (re)started by it
                    def announce():
                        if "task" in close_box and not close_box["task"].done():
                            self.ctx.count("announcements_during_shutdown")
                        try:
                            w.pairing._async_description_update(w.description(w.hosts))
                        except Exception:  # noqa: BLE001
                            pass

                    loop.at_iteration[base + self.sweep_at + 1] = announce
                    loop.at_iteration[base + self.sweep_at + 2] = announce
                if self.key and self.key[-1] == "poke":
                    # a zeroconf sighting / a caller arrives in the very iterations in which close() is waiting for the
                    # connector to stop: whatever that starts, close() is not done until nothing is left running
                    def poke():
                        if "task" in close_box and not close_box["task"].done():
                            self.ctx.count("pokes_during_close")
                            if self.sweep_at % 2:
                                w.connection.reconnect_soon()
                            else:
                                t = asyncio.ensure_future(w.connection.ensure_connection())
                                t.add_done_callback(lambda f: f.cancelled() or f.exception())

                    loop.at_iteration[base + self.sweep_at + 1] = poke
                    loop.at_iteration[base + self.sweep_at + 2] = poke
            starter = asyncio.ensure_future(w.connection.ensure_connection())
            starter.add_done_callback(lambda t: t.exception() if not t.cancelled() else None)
            horizon = 45 * (len(self.plan) + 1) + 20
            t_end = loop.time() + horizon
            retriggered = 0
            while loop.time() < t_end and not self.bad:
                await self.tick("connecting")
                if "task" in close_box:
                    break
                done_plan = len(self.log.activations) > len(self.plan) - (0 if self.after == "ok" else 1) and self.log.active == 0
                connector = w.connection._connector
                if connector is not None and connector.done() and not w.connection.is_connected:
                    # ended by an authentication error: nothing happens without an external trigger
                    if len(self.log.activations) < len(self.plan) + (1 if self.after == "ok" else 0) and retriggered < 4 and self.ending != "close-after-auth":
                        retriggered += 1
                        w.connection.reconnect_soon()
                        continue
                    break
                if w.connection.is_connected and self.log.active == 0:
                    if self.sweep_base == "request-in-flight" and "req" not in close_box:
                        # a request the accessory never answers; keep ticking so the sweep covers the in-flight state
                        w.accessory.conns[-1].script.responder = lambda c, r: r["target"].startswith("/x/")
                        w.accessory.conns[-1].vf_request_failed = True  # a request is left unanswered on it (sweep base)
                        close_box["req"] = asyncio.ensure_future(w.connection.get("/x/1"))
                        close_box["req"].add_done_callback(lambda t: t.cancelled() or t.exception())
                        t_end = loop.time() + 6
                        continue
                    if self.sweep_base == "request-in-flight":
                        continue
                    break
                if done_plan and self.after != "ok" and len(self.log.activations) >= len(self.plan) + 1:
                    break
            if self.bad:
                return
            if self.sweep_at is not None:
                await self.finish_sweep(close_box)
                return
            if w.connection.is_connected:
                await self.peer_closes()
            if self.bad:
                return
            await self.end()
        finally:
            loop.at_iteration.clear()
            self.log.remove()
            for t in (close_box.get("task"), close_box.get("req")):
                if t is not None and not t.done():
                    t.cancel()
            await w.close()

    async def probe_request(self, where: str) -> bool:
        try:
            r = await asyncio.wait_for(self.w.connection.get_json("/accessories"), 45)
            return bool(r.get("accessories"))
        except Exception as ex:  # noqa: BLE001
            self.violation("connection-in-use-disturbed", f"[{where}] probe request on the connection in use failed: {ex!r}")
            return False

    async def peer_closes(self) -> None:
        """Peer-initiated closes of every open connection in every order (probe the current one in between)."""
        from vf import vloop

        acc = self.w.accessory
        if not await self.probe_request("established"):
            return
        opened = list(acc.open_conns)
        order = list(opened)
        self.rng.shuffle(order)
        for c in order:
            current_index = acc.open_conns[-1].index if acc.open_conns else None
            n_act = len(self.log.activations)
            c.close()
            await vloop.settle()
            self.ctx.count("peer_close_probes")
            if c.index != current_index:
                # an abandoned connection went away: the one in use must be untouched
                self.ctx.count("stale_loss_probes")
                if len(self.log.activations) != n_act:
                    self.violation("stale-connection-loss-triggers-reconnect", f"closing abandoned connection {c.index} started a new connection attempt")
                    return
                if not await self.probe_request("after stale loss"):
                    return
            else:
                # the connection in use was closed by the peer: the pairing reconnects (after == ok) on its own
                for _ in range(8):
                    await self.tick("after peer close")
                    if self.w.connection.is_connected or self.bad:
                        break
                if self.after == "ok" and not self.bad:
                    if not self.w.connection.is_connected:
                        self.violation("no-reconnect-after-peer-close", "pairing did not reconnect within 4 virtual seconds of a peer close")
                        return
                    if not await self.probe_request("after reconnect"):
                        return

    async def end(self) -> None:
        from vf import vloop

        w = self.w
        self.closing_started = True
        before = len(w.accessory.conns)
        auth_ended = w.connection._connector is not None and w.connection._connector.done() and not w.connection.is_connected
        for n in range(2 if self.ending.endswith("twice") else 1):
            try:
                if self.ending.startswith("shutdown"):
                    await asyncio.wait_for(w.pairing.shutdown(), 60)
                else:
                    await asyncio.wait_for(w.pairing.close(), 60)
            except Exception as ex:  # noqa: BLE001
                key = "close-raises-after-authentication-failure" if auth_ended else "close-raises"
                self.violation(key, f"{self.ending} (call {n + 1}) raised {type(ex).__name__}: {ex}")
                break
            else:
                self.ctx.count("closes_returned_normally")
                if auth_ended:
                    self.ctx.count("auth_failure_then_close")
        await vloop.settle()
        self.after_close_checks(before, "right after close")
        if self.bad:
            return
        await asyncio.sleep(120)
        await vloop.settle()
        self.after_close_checks(before, "120 virtual seconds after close")
        if not self.bad and self.ending.startswith("shutdown"):
            # a shut-down pairing stays shut: the accessory is announced again (zeroconf), nothing is opened
            try:
                w.pairing._async_description_update(w.description(w.hosts))
            except Exception as ex:  # noqa: BLE001
                self.violation("description-update-after-shutdown-raises", f"{type(ex).__name__}: {ex}")
                return
            await asyncio.sleep(5)
            await vloop.settle()
            self.after_close_checks(before, "after a zeroconf announcement for the shut-down pairing")
            self.ctx.count("announcements_after_shutdown")
        if not self.bad and self.ending.startswith("close") and self.after == "ok":
            await self.reuse_after_close()

    async def reuse_after_close(self) -> None:
        """close() is not shutdown(): the pairing may be used again. Every use (zeroconf sighting, ensure_connection, an API
        call) must end with at most ONE open connection on the accessory side, and a final close leaves none."""
        from vf import vloop

        w = self.w
        for n in range(3):
            if n == 1:
                w.connection.reconnect_soon()
            else:
                t = asyncio.ensure_future(w.connection.ensure_connection())
                t.add_done_callback(lambda f: f.cancelled() or f.exception())
            for _ in range(4):
                await self.tick("re-used after close")
                if self.bad:
                    return
            try:
                await asyncio.wait_for(w.connection.get_json("/accessories"), 45)
            except Exception:  # noqa: BLE001 - availability is C10's subject; here only the connection count is judged
                self.ctx.count("reuse_probe_failed")  # (the remaining failing outcomes of a plan cut short by an authentication error)
            await self.tick("re-used after close")
            if self.bad:
                return
        self.ctx.count("reuse_after_close_histories")
        before = len(w.accessory.conns)
        try:
            await asyncio.wait_for(w.pairing.close(), 60)
        except Exception as ex:  # noqa: BLE001
            self.violation("close-raises", f"second close after re-use raised {type(ex).__name__}: {ex}")
            return
        await vloop.settle()
        self.after_close_checks(before, "after re-use and second close")

    def after_close_checks(self, conns_before: int, where: str) -> None:
        acc = self.w.accessory
        if acc.open_conns:
            self.violation("connection-open-after-close", f"[{where}] accessory still sees connections {[c.index for c in acc.open_conns]} open")
        elif len(acc.conns) != conns_before:
            self.violation("new-connection-after-close", f"[{where}] {len(acc.conns) - conns_before} connection(s) accepted after close")

    async def finish_sweep(self, close_box) -> None:
        from vf import vloop

        ctx = self.ctx
        task = close_box.get("task")
        if task is None:
            ctx.count("sweep_point_beyond_scenario")
            return
        ctx.count("close_sweep_points")
        try:
            await asyncio.wait_for(asyncio.shield(task), 90)
        except asyncio.TimeoutError:
            self.violation("close-hangs", "close() did not return within 90 virtual seconds")
            return
        except Exception as ex:  # noqa: BLE001
            self.violation("close-raises", f"close() raised {type(ex).__name__}: {ex}")
            return
        ctx.count("closes_returned_normally")
        await vloop.settle()
        before = len(self.w.accessory.conns)
        self.after_close_checks(before, "right after swept close")
        if self.bad:
            return
        await asyncio.sleep(100)
        await vloop.settle()
        self.after_close_checks(before, "100 virtual seconds after swept close")
        # closing again in the closed state
        try:
            await asyncio.wait_for(self.w.pairing.close(), 30)
            ctx.count("closes_returned_normally")
        except Exception as ex:  # noqa: BLE001
            self.violation("close-raises", f"second close() raised {type(ex).__name__}: {ex}")


async def run_late_loss(ctx, variant: int) -> None:
    """Late loss of an abandoned connection whose close was deferred by a backed-up write buffer.

    connected (conn 1) -> the accessory stops reading, a large request backs up in the controller's transport buffer ->
    the connection is abandoned (close(), or a wrong answer ends it) while bytes are still queued, so asyncio defers
    connection_lost -> an external trigger re-opens the pairing (conn 2, in use) -> only now conn 1 dies (peer resets).
    The connection in use must not be disturbed and no new attempt may start.
    """
    import socket

    from vf import simnet, vloop

    rng = ctx.grng("C11.late", variant)
    replay = {"late_loss": variant}
    ctx.case("late-loss", variant, sample={"family": "late loss of an abandoned connection (deferred close)", "variant": variant}, kind="late-loss")
    w = simnet.World(rng)
    log = simnet.ConnectOnceLog(w).install()
    try:
        await asyncio.wait_for(w.connection.ensure_connection(), 30)
        await vloop.settle()
        conn1 = w.accessory.conns[-1]
        tr1 = w.connection.transport
        tr1.get_extra_info("socket").setsockopt(socket.SOL_SOCKET, socket.SO_SNDBUF, 2048)
        conn1.transport.pause_reading()
        big = asyncio.ensure_future(w.connection.put("/x/big", bytes(300_000 + 1000 * variant)))
        big.add_done_callback(lambda f: f.cancelled() or f.exception())
        await vloop.settle()
        if tr1.get_write_buffer_size() == 0:
            ctx.count("late_loss_buffer_not_backed_up")
            return
        if variant % 2 == 0:
            await asyncio.wait_for(w.pairing.close(), 60)
        else:
            big.cancel()  # a cancelled request abandons the connection (write_eof + close, deferred as well)
            await vloop.settle()
            await asyncio.wait_for(w.pairing.close(), 60)
        await vloop.settle()
        # external trigger: the accessory is seen again by zeroconf
        w.pairing._async_description_update(w.description(w.hosts))
        # (pair-verify on the new connection queues behind the stuck request until that request's own 30 s timer fires)
        def second():
            # ground truth on the accessory side (the library's own is_connected flag is part of what is being judged)
            return [c for c in w.accessory.conns if c is not conn1 and c.secure and c.is_open]

        for _ in range(90):
            await asyncio.sleep(0.5)
            await vloop.settle()
            if second():
                break
        if not second():
            ctx.count("late_loss_no_second_connection")
            return
        if len(second()) > 1:
            ctx.violation("more-than-one-open-connection-after-reopen", f"variant {variant}: {len(second())} new connections open besides the abandoned one", replay)
            return
        if not w.connection.is_connected:
            ctx.violation("open-connection-not-reported-connected", f"variant {variant}: the accessory sees an established connection but is_connected is false (every further call would open another one)", replay)
            return
        conn2 = w.accessory.conns[-1]
        r = await asyncio.wait_for(w.connection.get_json("/accessories"), 45)
        n_act = len(log.activations)
        pending = None
        if variant % 3 == 0:
            # a request is in flight on the connection in use while the old one dies
            conn2.script.responder = lambda c, rq: rq["target"].startswith("/x/hold")
            pending = asyncio.ensure_future(w.connection.get("/x/hold"))
            pending.add_done_callback(lambda f: f.cancelled() or f.exception())
            await vloop.settle()
        # now the abandoned connection finally dies
        if variant % 4 < 2:
            conn1.transport.abort()
        else:
            conn1.transport.resume_reading()
            conn1.close()
        await vloop.settle()
        await asyncio.sleep(1.0)
        await vloop.settle()
        ctx.count("late_loss_probes")
        if not conn2.is_open or len(log.activations) != n_act:
            ctx.violation("late-loss-of-abandoned-connection-disturbs-connection-in-use",
                          f"variant {variant}: after the abandoned connection died late, connection in use open={conn2.is_open}, new attempts={len(log.activations) - n_act}", replay)
            return
        if pending is not None:
            if pending.done():
                ctx.violation("late-loss-of-abandoned-connection-fails-request-in-flight", f"variant {variant}: the request in flight on the connection in use ended: {pending.exception()!r}", replay)
                return
            conn2.send(conn2.http(204))
            await vloop.settle()
        try:
            r = await asyncio.wait_for(w.connection.get_json("/accessories"), 45)
        except Exception as ex:  # noqa: BLE001
            ctx.violation("late-loss-of-abandoned-connection-disturbs-connection-in-use", f"variant {variant}: probe request failed: {ex!r}", replay)
            return
        await asyncio.wait_for(w.pairing.shutdown(), 60)
        await vloop.settle()
        if [c for c in w.accessory.open_conns if c is not conn1]:
            ctx.violation("connection-open-after-close", f"variant {variant}: connections open after shutdown", replay)
    finally:
        log.remove()
        for c in w.accessory.conns:
            if c.transport is not None:
                c.transport.abort()
        await w.close()


async def run_remove_own_pairing(ctx, variant: int) -> None:
    """One more way a pairing is "explicitly closed": the controller removes ITS OWN pairing from the accessory. The pairing is
    then shut down like after shutdown(): no connection stays open and none is opened again - however the controller's id
    happens to be spelt (ids are UUIDs; iOS writes them in upper case)."""
    from vf import simnet, vloop

    own = ["decc6fa3-de3e-41c9-adba-ef7409821bfc", "DECC6FA3-DE3E-41C9-ADBA-EF7409821BFC", "Decc6fa3-DE3E-41c9-adba-EF7409821BFC", "controller-1"][variant % 4]
    drop = variant % 8 >= 4  # the accessory hangs up once the pairing is gone
    rng = ctx.grng("C11.remove-own", variant)
    w = simnet.World(rng, ios_pairing_id=own)
    replay = {"remove_own": variant}
    ctx.case("remove-own", variant, sample={"history": "connect, remove own pairing", "controller_id": own, "accessory_hangs_up": drop}, kind="remove-own")
    try:
        await asyncio.wait_for(w.connection.ensure_connection(), 30)
        await vloop.settle()
        try:
            await asyncio.wait_for(w.pairing.remove_pairing(own), 60)
        except Exception as ex:  # noqa: BLE001
            ctx.violation(f"remove-own-pairing-raises-{type(ex).__name__}", f"controller id {own!r}: {ex!r}", replay)
            return
        await vloop.settle()
        if drop:
            for c in list(w.accessory.open_conns):
                c.close()
        await asyncio.sleep(90)
        await vloop.settle()
        opened = len(w.accessory.conns)
        if w.accessory.open_conns or opened > 1:
            ctx.violation("connection-open-after-close", f"the controller removed its own pairing (id {own!r}): {len(w.accessory.open_conns)} connection(s) open, {opened - 1} opened afterwards", replay)
            return
        ctx.count("own_pairing_removed_and_closed")
    finally:
        await w.close()


def history_plan(ctx):
    plans = []
    maxlen = ctx.pick(2, 3)
    for n in range(0, maxlen + 1):
        for seq in itertools.product(FAILS, repeat=n):
            # an authentication error ends the connector; what follows needs a trigger (the run re-triggers)
            for after in ("ok", "refuse"):
                if n == 0 and after == "refuse":
                    continue
                plans.append((list(seq), after))
    return plans


SWEEP_BASES = {
    "connect-ok": ([], "ok"),
    "bad-sig-then-ok": (["bad_sig"], "ok"),
    "refused-backoff": (["refuse", "refuse"], "refuse"),
    "hang-m4": (["hang_m4"], "ok"),
    "auth-m4": (["m4_err:2"], "refuse"),
    "wrong-id-two-hosts": (["wrong_id"], "ok"),
    "sub-keyerror": (["sub_keyerror"], "ok"),
    "blackhole": (["blackhole"], "ok"),
    "request-in-flight": ([], "ok"),
}


async def run_history(ctx, idx, plan, after) -> None:
    endings = ["close", "shutdown", "close-twice", "shutdown-twice"]
    ending = endings[idx % 4]
    if any(o in AUTH_END for o in plan) and idx % 3 == 0:
        ending = "close-after-auth"
    nontrivial = len(plan) > 0
    ctx.case("hist", tuple(plan), after, ending, nontrivial=nontrivial, sample={"outcomes": plan, "then": after, "ending": ending}, kind="hist%d" % len(plan))
    await Run(ctx, plan, after, ending, ("hist", idx)).run()


async def run_sweep(ctx, base_name, k, poke=False) -> None:
    plan, after = SWEEP_BASES[base_name]
    ctx.case("sweep", base_name, k, poke, nontrivial=k > 0, sample={"close_sweep_base": base_name, "outcomes": plan, "close_at_loop_iteration": k, "announcement_while_shutdown_waits": poke}, kind="sweep-" + base_name + ("-shutdown" if poke else ""))
    r = Run(ctx, plan, after, "shutdown" if poke else "close", ("sweep", base_name, "shutdown-poke") if poke else ("sweep", base_name), sweep_at=k, sweep_base=base_name)
    r.replay["poke"] = poke
    await r.run()


def run(ctx) -> None:
    from vf import vloop

    async def main():
        plans = history_plan(ctx)
        for idx, (plan, after) in enumerate(plans):
            if ctx.mine(idx):
                await run_history(ctx, idx, plan, after)
        ctx.exhaustive_parts[f"all outcome sequences of length <= {ctx.pick(2, 3)} x (then ok | then refused forever)"] = True
        rng = ctx.rng("C11.random")
        for k in range(ctx.pick(3000, 150000) // ctx.nshards):
            n = rng.randint(3, 5)
            plan = [rng.choice(FAILS) for _ in range(n)]
            await run_history(ctx, 10_000_000 + k * ctx.nshards + ctx.shard, plan, rng.choice(["ok", "ok", "refuse"]))
        for v in range(ctx.pick(24, 120)):
            if ctx.mine(v):
                await run_late_loss(ctx, v)
        for v in range(8):
            if ctx.mine(v):
                await run_remove_own_pairing(ctx, v)
        # close sweep
        idx = 0
        stride = ctx.pick(2, 1)
        for base_name in SWEEP_BASES:
            # dry run (no close) to learn how many loop iterations the base scenario takes
            plan, after = SWEEP_BASES[base_name]
            loop = asyncio.get_running_loop()
            it0 = loop.iterations
            dry = Run(ctx, plan, after, "close", ("sweep", base_name))
            await dry.run()
            length = min(loop.iterations - it0, 4000)
            ctx.notes.setdefault("sweep_lengths", {})[base_name] = length
            for k in range(1, length, stride):
                idx += 1
                if ctx.mine(idx):
                    await run_sweep(ctx, base_name, k)
                    # (not swept: an external trigger arriving WHILE close() waits - the unchanged tree re-opens the pairing for
                    # such a trigger in some iterations, e.g. bad-sig-then-ok@29, so nothing can be demanded there; DESIGN 8.4)
                    # shutdown() is different: once it was CALLED an announcement must not restart anything
                    if base_name in ("connect-ok", "bad-sig-then-ok", "hang-m4", "refused-backoff", "blackhole"):
                        await run_sweep(ctx, base_name, k, poke=True)
        ctx.exhaustive_parts["close() at every loop iteration (stride %d) of each base scenario" % stride] = True

    with warnings.catch_warnings(record=True) as caught:
        warnings.simplefilter("always", ResourceWarning)
        vloop.run(main())
        gc.collect()
    leaks = [str(w.message) for w in caught if issubclass(w.category, ResourceWarning)]
    ctx.counters["resource_warnings"] = len(leaks)
    if leaks:
        ctx.notes["resource_warning_examples"] = leaks[:3]


def replay(ctx, d) -> None:
    from vf import vloop

    async def main():
        if d.get("late_loss") is not None:
            await run_late_loss(ctx, d["late_loss"])
            return
        if d.get("remove_own") is not None:
            await run_remove_own_pairing(ctx, d["remove_own"])
            return
        if d.get("sweep_at") is not None:
            await run_sweep(ctx, d["sweep_base"], d["sweep_at"], poke=bool(d.get("poke")))
        else:
            await Run(ctx, d["plan"], d["after"], d["ending"], "replay").run()

    vloop.run(main())
