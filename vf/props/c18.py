"""C18 BLE broadcast notifications are accepted only if authentic and fresh.

Real code: BleController._device_detected -> HomeKitEncryptedNotification.from_manufacturer_data ->
BlePairing._async_notification -> BroadcastDecryptionKey / ChaCha20Poly1305PartialTag.open -> values.from_bytes ->
listeners. Oracle: reference acceptance model (vf.ref.broadcast: OpenSSL AEAD with truncated tag; state = last
accepted state number).
"""

from __future__ import annotations

import asyncio
import itertools
import struct

from vf.ref import broadcast as refb

PROPERTY_ID = "C18"
LEVEL = "exploration"
RULE = (
    "cases = advertisement histories fed to the real scanner callback of a BleController with a loaded BlePairing (cached"
    " accessories of every characteristic format + broadcast key). Alphabet: genuine with state number last+1 / last+k"
    " (k<100) / last (replay) / last-k / last+100 / last+1000; wrong key; advertising id of another loaded pairing; unknown"
    " id; inner counter != nonce counter; truncated payload; 4 tag bytes taken from a shifted offset of the full tag; EVERY single-bit flip of the 12-byte payload and 4-byte tag."
    " ALL histories of the bounded length over the class alphabet, seeded random ones beyond, from start state numbers"
    " {0,1,255,256,65000,65534}; values at the boundaries of every format. After each advertisement the listener log and"
    " description.state_num are compared with the reference model. Distinct by (start, history, values); non-trivial = all."
)
ASSUMPTIONS = [
    "the 4-byte tag can collide: an advertisement the implementation accepts is first re-evaluated by the reference over the"
    " same candidate window; a true collision is counted separately and not judged",
    "string/data formats have no fixed-size encoding in the 8-byte value field: recorded only",
    "a genuine last+1 notification that is NOT accepted makes the run inconclusive (accepts == 0), not violated: the"
    " statement is an only-if",
]
SHARDS = {"quick": 16, "thorough": 16}
TIMEOUT = {"quick": 900, "thorough": 7200}
MIN_CASES = {"quick": 2000, "thorough": 10000}
REQUIRED_COUNTERS = ["advertisements_fed", "accepted_and_delivered", "replays_ignored", "forgeries_ignored", "bitflips_ignored", "state_advances_checked", "rekey_replays_ignored", "pairing_reloads", "cold_start_histories"]

DEVICE_ID = bytes.fromhex("aabbcc001122")
OTHER_ID = bytes.fromhex("998877665544")
UNKNOWN_ID = bytes.fromhex("010203040506")
FORMATS = {10: "bool", 11: "uint8", 12: "uint16", 13: "uint32", 14: "uint64", 15: "int", 16: "float", 17: "string", 18: "data",
           # instance ids are 16 bits wide: ids beyond one byte, and one whose low byte equals another characteristic's id
           266: "float", 300: "uint16", 0x0B0A: "int", 65535: "uint8"}
CLASSES = ["G1", "Gk", "Gk99", "Gcur", "Gold", "Gsm", "G100", "G1000", "WK", "WA", "UA", "IG", "TR", "ST", "RL"]


def entity_map(formats=None):
    chars = [{"iid": iid, "type": f"00{iid:06X}-0000-1000-8000-0026BB765291", "perms": ["pr", "ev"], "format": fmt, "value": None, "broadcast_events": True}
             for iid, fmt in (formats or FORMATS).items()]
    info = {"iid": 1, "type": "0000003E-0000-1000-8000-0026BB765291", "characteristics": [
        {"iid": 2, "type": "00000023-0000-1000-8000-0026BB765291", "perms": ["pr"], "format": "string", "value": "sim"}]}
    return [{"aid": 1, "services": [info, {"iid": 9, "type": "0000FE00-0000-1000-8000-0026BB765291", "characteristics": chars}]}]


def fmt_id(b: bytes) -> str:
    return ":".join(f"{x:02x}" for x in b)


def encode_value(rng, fmt):
    """-> (8-byte value field, expected decoded value or None when not judged)."""
    if fmt == "bool":
        v = rng.choice([True, False])
        return bytes([1 if v else 0]), v
    if fmt in ("uint8", "uint16", "uint32", "uint64"):
        bits = int(fmt[4:])
        v = rng.choice([0, 1, (1 << bits) - 1, 1 << (bits - 1), rng.getrandbits(bits)])
        return v.to_bytes(8, "little"), v
    if fmt == "int":
        v = rng.choice([0, 1, -1, 2**31 - 1, -(2**31), rng.randint(-(2**31), 2**31 - 1)])
        return struct.pack("<i", v), v
    if fmt == "float":
        v = rng.choice([0.0, 1.5, -273.15, 21.37, 1e-3, 65504.0])
        raw = struct.pack("<f", v)
        return raw, struct.unpack("<f", raw)[0]
    if fmt == "string":
        return b"abc", None
    return rng.randbytes(8), None


class World:
    def __init__(self, rng, start_l, cold=False):
        from aiohomekit.characteristic_cache import CharacteristicCacheMemory
        from aiohomekit.controller.ble.controller import BleController
        from aiohomekit.utils import serialize_broadcast_key

        self.rng = rng
        self.key = rng.randbytes(32)
        self.other_key = rng.randbytes(32)
        cache = CharacteristicCacheMemory()
        # (cold start: the configuration number differs from every state number used, so that mixing the two up shows)
        cache.async_create_or_update_map(fmt_id(DEVICE_ID), 2 if cold else 1, entity_map(), serialize_broadcast_key(self.key), start_l or None)
        cache.async_create_or_update_map(fmt_id(OTHER_ID), 1, entity_map(), serialize_broadcast_key(self.other_key), 7)
        self.controller = BleController(char_cache=cache)
        self.pairing = self.controller.load_pairing("main", self.pdata(DEVICE_ID))
        self.other = self.controller.load_pairing("other", self.pdata(OTHER_ID))
        self.log = []
        self.other_log = []
        self.pairing.dispatcher_connect(lambda ev: self.log.append(ev))
        self.other.dispatcher_connect(lambda ev: self.other_log.append(ev))
        # establish the advertised state (regular advertisement with GSN = start) - unless this is a COLD start: the process was
        # restarted, the pairing is rebuilt from the cache (persisted key and state number) and the first thing heard is an
        # encrypted notification
        if not cold:
            self.feed(DEVICE_ID, refb.regular_advertisement(DEVICE_ID, start_l))
        self.feed(OTHER_ID, refb.regular_advertisement(OTHER_ID, 7))
        self.log.clear()
        self.other_log.clear()
        self.L = start_l

    @staticmethod
    def pdata(dev_id):
        return {"AccessoryPairingID": fmt_id(dev_id), "AccessoryLTPK": "00" * 32, "iOSPairingId": "x", "iOSDeviceLTSK": "11" * 32, "iOSDeviceLTPK": "22" * 32,
                "AccessoryAddress": "AA:BB:CC:DD:EE:FF", "Connection": "BLE"}

    def feed(self, dev_id, mfr: bytes):
        from bleak.backends.device import BLEDevice
        from bleak.backends.scanner import AdvertisementData

        dev = BLEDevice("AA:BB:CC:DD:EE:FF", "Sim BLE", {})
        adv = AdvertisementData(local_name="Sim BLE", manufacturer_data={refb.APPLE: mfr}, service_data={}, service_uuids=[], tx_power=None, rssi=-60, platform_data=())
        self.controller._device_detected(dev, adv)


def build_ad(w: World, klass: str, rng, arg=None):
    """-> (adv_id, payload bytes, expectation dict). Expectation decided by construction + reference model."""
    L = w.L
    fmts = getattr(w, "formats", FORMATS)
    iid = rng.choice(list(fmts))
    value, expected = encode_value(rng, fmts[iid])
    key, adv, n, inner = w.key, DEVICE_ID, L + 1, None
    if klass == "G1":
        n = L + 1
    elif klass == "Gk":
        n = L + rng.randint(2, 98)
    elif klass == "Gk99":
        n = L + 99
    elif klass == "Gcur":
        n = L
    elif klass == "Gold":
        n = L - rng.randint(1, min(50, L)) if L > 0 else None
    elif klass == "Gsm":
        # a genuine notification with a SMALL state number recorded long ago (the counter has run up since): just another
        # older number - also when the last accepted number sits near the top of the 16-bit range
        n = rng.randint(1, 98)
        if n >= L:
            n = None
    elif klass == "G100":
        n = L + 100
    elif klass == "G1000":
        n = L + rng.choice([101, 1000, 40000])
    elif klass == "WK":
        key = w.other_key if rng.random() < 0.5 else rng.randbytes(32)
    elif klass == "WA":
        adv = OTHER_ID
    elif klass == "UA":
        adv = UNKNOWN_ID
    elif klass == "IG":
        inner = (L + 1 + rng.choice([1, 2, 255, 256, -1])) & 0xFFFF
    if n is None:
        n = L  # no older number exists: degenerate to a replay of the current one
        klass = "Gcur"
    inner = n & 0xFFFF if inner is None else inner
    pt = refb.plaintext_for(inner, iid, value)
    payload = refb.seal(key, adv, n, pt)
    if klass == "ST":
        # genuine ciphertext, but the 4 tag bytes are taken from a later offset of the full 16-byte tag
        from cryptography.hazmat.primitives.ciphers.aead import ChaCha20Poly1305

        full = ChaCha20Poly1305(key).encrypt(refb.nonce(n), pt, adv)
        k = rng.randrange(1, 13)
        if full[12 + k : 16 + k] != full[12:16]:
            payload = full[:12] + full[12 + k : 16 + k]
    if klass == "TR":
        payload = payload[: rng.randrange(0, 12)]
    if klass == "BF":
        b = bytearray(payload)
        b[arg // 8] ^= 1 << (arg % 8)
        payload = bytes(b)
    return adv, payload, {"klass": klass, "n": n, "inner": inner, "iid": iid, "value": expected, "fmt": fmts[iid]}


def reference_verdict(w: World, adv: bytes, payload: bytes):
    """Reference model: ACCEPT (n, iid, value8) iff authentic under the pairing key for ITS advertising id, fresh, inner==nonce."""
    if adv != DEVICE_ID:
        return None
    L = w.L
    for n in [L + 1, L] + list(range(L + 2, L + 100)):
        pt = refb.open_truncated(w.key, adv, n, payload)
        if pt is None:
            continue
        if n == L:
            return None
        if len(pt) < 12:
            return None
        inner, iid = struct.unpack("<HH", pt[:4])
        if inner != n:
            return None
        return (n, iid, pt[4:12])
    return None


def step(ctx, w: World, klass, rng, replay, arg=None) -> bool:
    from aiohomekit.controller.ble import values as blevalues

    if klass == "RL":
        # the pairing is loaded AGAIN on the same controller (a reload of the integration) before any regular advertisement
        # arrives: what was accepted stays accepted - the new object starts from the last accepted state number
        try:
            w.pairing = w.controller.load_pairing("main", w.pdata(DEVICE_ID))
            w.pairing.dispatcher_connect(lambda ev: w.log.append(ev))
        except Exception as ex:  # noqa: BLE001
            ctx.violation(f"reload-raises-{type(ex).__name__}", f"load_pairing again from state {w.L}: {ex!r}", replay)
            return False
        ctx.count("pairing_reloads")
        return True

    if klass == "DB":
        # the accessory's database is REPLACED (new configuration: characteristics added, removed, formats changed) - the way a
        # re-fetch or a restore from the cache installs it. Broadcasts that follow are decoded against the database in force.
        cur = dict(getattr(w, "formats", FORMATS))
        kinds = ["bool", "uint8", "uint16", "uint32", "uint64", "int", "float"]
        for iid in rng.sample(sorted(cur), 3):
            cur[iid] = rng.choice([k for k in kinds if k != cur[iid]])
        cur.pop(rng.choice(sorted(cur)))
        cur[rng.choice([19, 20, 400])] = rng.choice(kinds)
        try:
            w.pairing.restore_accessories_state(entity_map(cur), (w.pairing.config_num or 1) + 1, w.pairing.broadcast_key, w.pairing.description.state_num)
        except Exception as ex:  # noqa: BLE001
            ctx.violation(f"database-replacement-raises-{type(ex).__name__}", f"restore_accessories_state from state {w.L}: {ex!r}", replay)
            return False
        w.formats = cur
        ctx.count("accessory_databases_replaced")
        return True

    if klass == "GU":
        # a genuine, fresh notification for a characteristic the cached database does not have (the accessory gained one, the
        # cache is older): nothing can be delivered - but the state number it carries IS authentic, so from here on every
        # smaller number is an old one (replaying the notifications in between must not move values or state backwards).
        # And like every other advertisement it must not make the scanner callback raise (the pinned tree did: AttributeError
        # from from_bytes(None, ..) - repaired, KNOWN_FINDINGS "fixed: property=C18 20f0d68").
        n = w.L + rng.randint(2, 60)
        if n > 0xFFFF:
            # beyond the 16-bit counter the inner counter cannot equal the nonce: such a payload is an "IG" (ignored), not this class
            ctx.count("unknown_characteristic_notifications_skipped_at_16_bit_limit")
            return True
        payload = refb.seal(w.key, DEVICE_ID, n, refb.plaintext_for(n & 0xFFFF, rng.choice([77, 999, 40000]), bytes(8)))
        before_log = len(w.log)
        ctx.count("advertisements_fed")
        try:
            w.feed(DEVICE_ID, refb.encrypted_notification(DEVICE_ID, payload))
        except Exception as ex:  # noqa: BLE001
            ctx.violation(f"scanner-callback-raises-{type(ex).__name__}", f"genuine notification for a characteristic that is not in the database (nonce {n}) from last accepted {w.L}: {ex!r}", replay)
            return False
        if w.log[before_log:]:
            ctx.violation("notification-delivered-under-wrong-id", f"genuine notification for a characteristic that is not in the database (nonce {n}) from last accepted {w.L}: listeners got {w.log[before_log:]}", replay)
            return False
        ctx.count("unknown_characteristic_notifications")
        w.L = n
        return True

    adv, payload, exp = build_ad(w, klass, rng, arg)
    before_state = w.pairing.description.state_num
    before_log = len(w.log)
    before_other = (w.other.description.state_num, len(w.other_log))
    ctx.count("advertisements_fed")
    try:
        w.feed(adv, refb.encrypted_notification(adv, payload))
    except Exception as ex:  # noqa: BLE001
        ctx.violation(f"scanner-callback-raises-{type(ex).__name__}", f"{klass} from state {w.L}: {ex!r}", replay)
        return False
    after_state = w.pairing.description.state_num
    new_events = w.log[before_log:]
    verdict = reference_verdict(w, adv, payload)
    accepted = after_state != before_state or bool(new_events)
    desc = f"class {exp['klass']} nonce {exp['n']} inner {exp['inner']} iid {exp['iid']} from last accepted {w.L}"
    if verdict is None:
        if accepted:
            key = {"Gcur": "replay-of-current-state-accepted", "Gold": "older-state-accepted", "Gsm": "older-state-accepted", "G100": "beyond-window-accepted", "G1000": "beyond-window-accepted",
                   "WK": "wrong-key-accepted", "WA": "wrong-advertising-id-accepted", "UA": "unknown-id-accepted", "IG": "inner-counter-mismatch-accepted",
                   "TR": "truncated-payload-accepted", "ST": "shifted-tag-accepted", "BF": "corrupted-advertisement-accepted"}.get(exp["klass"], "unauthentic-advertisement-accepted")
            ctx.violation(key, f"{desc}: state {before_state}->{after_state}, listeners got {new_events}", replay)
            return False
        if klass in ("G1", "Gk", "Gk99"):
            ctx.count("genuine_not_accepted")  # only-if property: recorded, contributes to inconclusive via accepts == 0
        elif klass in ("Gcur", "Gold", "Gsm"):
            ctx.count("replays_ignored")
        elif klass == "BF":
            ctx.count("bitflips_ignored")
        else:
            ctx.count("forgeries_ignored")
        if klass == "WA":
            # the other pairing must not accept it either (different key)
            if (w.other.description.state_num, len(w.other_log)) != before_other:
                ctx.violation("advertisement-accepted-by-wrong-pairing", f"{desc}: pairing for the other id changed state", replay)
                return False
        return True
    n, iid, value8 = verdict
    if klass not in ("G1", "Gk", "Gk99"):
        ctx.count("tag_collisions_not_judged")
        w.L = after_state
        return True
    if not accepted:
        ctx.count("genuine_not_accepted")
        return True
    ctx.count("state_advances_checked")
    if after_state != n:
        ctx.violation("state-number-not-advanced-to-notification", f"{desc}: description.state_num {before_state}->{after_state}, expected {n}", replay)
        return False
    if len(new_events) != 1 or list(new_events[0].keys()) != [(1, iid)]:
        ctx.violation("notification-delivered-under-wrong-id", f"{desc}: listeners got {new_events}", replay)
        return False
    got = new_events[0][(1, iid)].get("value")
    if exp["value"] is not None:
        if got != exp["value"] or type(got) is not type(exp["value"]):
            ctx.violation("notification-value-wrong", f"{desc} format {exp['fmt']}: delivered {got!r}, accessory sent {exp['value']!r}", replay)
            return False
    ctx.count("accepted_and_delivered")
    w.L = n
    return True


async def burst_step(ctx, w: World, klass, rng, replay) -> bool:
    """Two advertisements reach the scanner callback within ONE loop iteration (the same broadcast relayed by two adapters /
    proxies; two broadcasts heard out of order): B2 = genuine last+1 twice, B21 = genuine last+2 then genuine last+1.
    Judged when the loop has run: one delivery, the state number at the newest - whenever the library does its bookkeeping."""
    L = w.L
    if L + 2 > 0xFFFF:
        return True
    fmts = getattr(w, "formats", FORMATS)
    iid = rng.choice(list(fmts))
    value, expected = encode_value(rng, fmts[iid])
    ns = [L + 1, L + 1] if klass == "B2" else [L + 2, L + 1]
    payloads = {n: refb.seal(w.key, DEVICE_ID, n, refb.plaintext_for(n & 0xFFFF, iid, value)) for n in set(ns)}
    before_log = len(w.log)
    ctx.count("advertisements_fed", 2)
    try:
        for n in ns:
            w.feed(DEVICE_ID, refb.encrypted_notification(DEVICE_ID, payloads[n]))
    except Exception as ex:  # noqa: BLE001
        ctx.violation(f"scanner-callback-raises-{type(ex).__name__}", f"{klass} from state {L}: {ex!r}", replay)
        return False
    for _ in range(4):
        await asyncio.sleep(0)
    events = w.log[before_log:]
    state = w.pairing.description.state_num
    if not events and state == L:
        ctx.count("genuine_not_accepted")
        return True
    if len(events) != 1 or state != ns[0]:
        ctx.violation("replay-of-current-state-accepted" if klass == "B2" else "older-state-accepted",
                      f"class {klass} from last accepted {L}: nonces {ns} reached the scanner callback in one loop iteration; listeners got {len(events)} deliveries {events}, state number is {state} (expected one delivery, state {ns[0]})", replay)
        return False
    ctx.count("same_iteration_bursts_checked")
    w.L = ns[0]
    return True


async def run_history(ctx, start, history, idx, cold=False) -> None:
    rng = ctx.grng("C18", start, history, idx)
    w = World(rng, start, cold=cold)
    if cold:
        ctx.count("cold_start_histories")
    replay = {"start": start, "history": list(history), "idx": idx, "cold": cold}
    ctx.case(start, tuple(history), idx, sample={"start_state_number": start, "history": list(history)}, kind="h%d" % min(len(history), 4))
    for klass in history:
        if klass in ("B2", "B21"):
            if not await burst_step(ctx, w, klass, rng, replay):
                return
            continue
        if not step(ctx, w, klass, rng, replay):
            return
        await asyncio.sleep(0)
    # a final genuine last+1 must still be accepted after whatever happened (the model state is right)
    step(ctx, w, "G1", rng, replay)
    for _ in range(3):
        await asyncio.sleep(0)


async def run_rekey(ctx, start, idx) -> None:
    """The accessory is paired AGAIN (same advertising id, NEW broadcast key) in the same process: advertisements that the old
    key opened - replayed bit for bit while their state numbers are inside the new pairing's window - no longer authenticate."""
    rng = ctx.grng("C18.rekey", start, idx)
    old = World(rng, start)
    replay = {"start": start, "rekey": True, "idx": idx}
    ctx.case("rekey", start, idx, sample={"start_state_number": start, "history": "accepted under the old key, replayed to the re-paired accessory's new key"}, kind="rekey")
    recorded = []
    for klass in ("G1", "Gk", "G1"):
        adv, payload, exp = build_ad(old, klass, rng)
        before = old.pairing.description.state_num
        old.feed(adv, refb.encrypted_notification(adv, payload))
        if old.pairing.description.state_num != before:
            recorded.append((adv, payload, exp))
            old.L = old.pairing.description.state_num
    if not recorded:
        ctx.count("rekey_nothing_recorded")
        return
    new = World(rng, start)  # fresh random broadcast key, same DEVICE_ID, same starting state number
    for adv, payload, exp in recorded:
        before_state, before_log = new.pairing.description.state_num, len(new.log)
        try:
            new.feed(adv, refb.encrypted_notification(adv, payload))
        except Exception as ex:  # noqa: BLE001
            ctx.violation(f"scanner-callback-raises-{type(ex).__name__}", f"re-keyed replay from state {start}: {ex!r}", replay)
            return
        await asyncio.sleep(0)
        if new.pairing.description.state_num != before_state or new.log[before_log:]:
            ctx.violation("wrong-key-accepted-after-re-pairing", f"an advertisement sealed under the PREVIOUS broadcast key (nonce {exp['n']}) was accepted by the re-paired accessory's pairing: state {before_state}->{new.pairing.description.state_num}, listeners got {new.log[before_log:]}", replay)
            return
        ctx.count("rekey_replays_ignored")
    # and the new key's own traffic still works
    step(ctx, new, "G1", rng, replay)


async def run_bitflips(ctx, start, idx) -> None:
    rng = ctx.grng("C18.bf", start, idx)
    w = World(rng, start)
    replay = {"start": start, "bitflips": True, "idx": idx}
    for bit in range(16 * 8):
        if not ctx.mine(bit + idx):
            continue
        ctx.case("bf", start, bit, idx, sample={"start_state_number": start, "flipped_bit_of_payload_or_tag": bit}, kind="bf")
        if not step(ctx, w, "BF", rng, replay, arg=bit):
            return
        await asyncio.sleep(0)


def run(ctx) -> None:
    from vf import vloop

    async def main():
        idx = 0
        depth = ctx.pick(2, 3)
        starts = [0, 1, 255, 256, 65000, 65500, 65534]
        for start in starts:
            for n in range(1, depth + 1):
                for hist in itertools.product(CLASSES, repeat=n):
                    idx += 1
                    if ctx.mine(idx):
                        await run_history(ctx, start, hist, idx)
        ctx.exhaustive_parts[f"all histories of length <= {depth} over 15 classes (13 advertisement classes, small old number, pairing reload) x 7 start state numbers"] = True
        # directed: something is accepted, the pairing is loaded again, then the replay / an older number arrives
        for start in starts:
            for hist in (("G1", "RL", "Gcur"), ("Gk", "RL", "Gold"), ("G1", "RL", "Gcur", "G1", "RL", "Gcur"), ("Gk99", "RL", "RL", "Gcur"), ("G1", "G1", "RL", "Gold")):
                idx += 1
                if ctx.mine(idx):
                    await run_history(ctx, start, hist, ("directed-reload", idx))
        # a genuine notification for an unknown characteristic, then older genuine ones / a replay / the next one
        for start in starts:
            for hist in (("GU", "Gold"), ("GU", "Gold", "Gold", "Gold"), ("G1", "GU", "Gold", "G1"), ("GU", "Gcur"), ("GU", "G1", "Gold"), ("GU", "GU", "Gold", "Gold")):
                idx += 1
                if ctx.mine(idx):
                    await run_history(ctx, start, hist, ("unknown-iid", idx))
        for start in starts:
            for hist in (("G1", "DB", "G1", "G1", "G1"), ("G1", "G1", "DB", "Gk", "G1", "DB", "G1", "G1"), ("DB", "G1", "G1")):
                for rep in range(3):
                    idx += 1
                    if ctx.mine(idx):
                        await run_history(ctx, start, hist, ("db", idx, rep))
        for start in starts:
            for hist in (("B2",), ("B21",), ("G1", "B2", "Gcur"), ("B21", "Gold"), ("B2", "B21", "B2")):
                idx += 1
                if ctx.mine(idx):
                    await run_history(ctx, start, hist, ("burst", idx))
        # cold starts (pairing rebuilt from the cache, no regular advertisement yet): old numbers stay old, fresh ones are fresh
        for start in (255, 500, 65000):
            for hist in (("Gsm",), ("Gold", "G1"), ("G1", "Gcur"), ("Gsm", "Gk", "Gold"), ("Gcur", "G1", "Gsm")):
                idx += 1
                if ctx.mine(idx):
                    await run_history(ctx, start, hist, ("cold", idx), cold=True)
        for start in starts:
            for k in range(ctx.pick(2, 20)):
                idx += 1
                if ctx.mine(idx):
                    await run_rekey(ctx, start, k)
        for start in starts:
            await run_bitflips(ctx, start, starts.index(start))
        ctx.exhaustive_parts["every single-bit flip of payload and tag (7 start state numbers)"] = True
        rng = ctx.rng("C18.random")
        for k in range(ctx.pick(640, 8000) // ctx.nshards):
            n = rng.randint(4, ctx.pick(14, 60))
            hist = tuple(rng.choice(["G1", "G1", "G1", "Gk", "Gk99", "Gcur", "Gold", "Gold", "G100", "WK", "IG", "WA", "TR", "GU", "B2", "B21", "DB"]) for _ in range(n))
            await run_history(ctx, rng.choice(starts + [rng.randrange(0, 65000)]), hist, ("r", ctx.shard, k))
        await asyncio.sleep(0)

    vloop.run(main())


def replay(ctx, d) -> None:
    from vf import vloop

    async def main():
        if d.get("bitflips"):
            ctx.shard, ctx.nshards = 0, 1
            await run_bitflips(ctx, d["start"], d["idx"])
        elif d.get("rekey"):
            await run_rekey(ctx, d["start"], d["idx"])
        else:
            idx = d["idx"]
            await run_history(ctx, d["start"], tuple(d["history"]), tuple(idx) if isinstance(idx, list) else idx, cold=bool(d.get("cold")))

    vloop.run(main())
