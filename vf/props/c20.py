"""C20 Saved pairings and accessory cache survive restart and interrupted saves.

Real code: Controller.save_data/load_data/load_pairing, CharacteristicCacheFile, AbstractPairing cache write-through
and restore, entity-map (de)serialisation. Oracles: deep equality after save -> fresh controller -> load; independent
"unparsable" decision (orjson AND commentjson both fail) for corrupted caches; exhaustive crash-point injection into
one save_data call (vf.crashfs in-process shim; real SIGKILLs through strace in the thorough tier) followed by a fresh
load that must yield the old or the new data for every previously saved alias.
"""

from __future__ import annotations

import asyncio
import copy
import json
import os
import shutil
import subprocess
import sys
import tempfile
from pathlib import Path

REPO = os.environ.get("VERIF_REPO", "/repo")
PROPERTY_ID = "C20"
LEVEL = "fault_enumeration"
RULE = (
    "cases = (A) pairing-file round trips: sets of 0-5 pairings over IP/CoAP/BLE records, unicode aliases, optional fields"
    " (AccessoryIPs, AccessoryAddress, missing Connection), saved by one Controller and loaded by a fresh one; (B) accessory"
    " database round trips through CharacteristicCacheFile + pairing restore/load for the repository's fixtures and seeded"
    " random well-formed entity maps (1-3 accessories, links incl. 0, all formats, ranges, null values), compared field by"
    " field and by serialize() idempotence; (C) cache corruption: EVERY byte prefix of small cache files, stride-sampled"
    " prefixes of fixture-sized ones, random flips/deletions/non-UTF-8 bytes, judged when independently unparsable; (D)"
    " crash points: EVERY file operation of one save_data call (before/after each op, after EVERY byte prefix of each"
    " write) over several old/new data pairs, then a fresh load; thorough adds real SIGKILLs at every file syscall of a"
    " child process via strace. Distinct by (part, content digest, crash point); non-trivial = all but the empty pairing set."
)
ASSUMPTIONS = [
    "crash model = process kill at an operation boundary or inside a write (bytes in user-space buffers are lost); power-loss"
    " reordering is out of scope",
    "a corrupted cache is judged only when BOTH orjson and commentjson refuse it (or it is not valid UTF-8); parseable but"
    " wrongly shaped documents are recorded only",
]
SHARDS = {"quick": 16, "thorough": 16}
TIMEOUT = {"quick": 900, "thorough": 7200}
MIN_CASES = {"quick": 3000, "thorough": 40000}
REQUIRED_COUNTERS = ["pairing_roundtrips", "database_roundtrips", "fixtures_roundtripped", "unparsable_caches_tolerated", "crash_points_injected", "crash_points_survived", "file_ops_enumerated", "database_update_histories", "saves_after_crash_checked", "failing_operations_injected", "empty_database_roundtrips"]


def tmpdir():
    return tempfile.mkdtemp(prefix="vf_c20_")


# ---------------------------------------------------------------------------------------------
# generators
# ---------------------------------------------------------------------------------------------


def gen_pairing(rng, i):
    kind = rng.choice(["IP", "IP", "CoAP", "BLE"])
    pid = ":".join(f"{rng.randrange(256):02X}" for _ in range(5)) + f":{i:02X}"
    d = {
        "AccessoryPairingID": pid,
        "AccessoryLTPK": rng.randbytes(32).hex(),
        "iOSPairingId": "-".join(rng.randbytes(n).hex() for n in (4, 2, 2, 2, 6)),
        "iOSDeviceLTSK": rng.randbytes(32).hex(),
        "iOSDeviceLTPK": rng.randbytes(32).hex(),
    }
    if kind == "IP":
        d["AccessoryIP"] = rng.choice(["192.168.1.20", "10.0.0.5", "fd00::1234"])
        d["AccessoryPort"] = rng.choice([80, 51826, 65535])
        if rng.random() < 0.5:
            d["AccessoryIPs"] = [d["AccessoryIP"], rng.choice(["192.168.1.21", "fe80::1%eth0", "fd00::99"])]
        if rng.random() < 0.6:
            d["Connection"] = "IP"
    elif kind == "CoAP":
        d["AccessoryIP"] = rng.choice(["fd00::5", "fd12:3456::1"])
        d["AccessoryPort"] = 5683
        d["Connection"] = "CoAP"
    else:
        d["AccessoryAddress"] = ":".join(f"{rng.randrange(256):02X}" for _ in range(6))
        d["Connection"] = "BLE"
    if rng.random() < 0.2:
        d["extra-vendor-field"] = {"nested": [1, 2.5, None, "ü"]}
    return d


def gen_alias(rng, i):
    return rng.choice(["alias", "Wohnzimmer Lämpchen", "客厅灯", "a b", "emoji💡", 'quote"inside', "tab\tx"]) + f"-{i}"


def gen_pairing_set(rng):
    n = rng.choice([0, 1, 1, 2, 3, 5])
    return {gen_alias(rng, i): gen_pairing(rng, i) for i in range(n)}


FORMATS = ["bool", "uint8", "uint16", "uint32", "uint64", "int", "float", "string", "tlv8", "data"]


def gen_entity_map(rng):
    accs = []
    for a in range(rng.randint(1, 3)):
        iid = 0
        svcs = []
        for s in range(rng.randint(1, 4)):
            iid += 1
            svc = {"iid": iid, "type": f"{rng.choice([0x3E, 0x43, 0x4A, 0xFF01 + s]):08X}-0000-1000-8000-0026BB765291", "characteristics": []}
            for c in range(rng.randint(1, 5)):
                iid += 1
                # well-formed: a standard type keeps its standard format; vendor types may use any format
                ctype, fmt = rng.choice([(0x25, "bool"), (0x08, "int"), (0x23, "string"), (0x11, "float")] + [(0xFE00 + c, f) for f in FORMATS])
                perms = rng.choice([["pr"], ["pr", "pw"], ["pw"], ["pr", "pw", "ev"], ["pr", "ev"], ["pr", "pw", "tw", "aa"]])
                ch = {"iid": iid, "type": f"{ctype:08X}-0000-1000-8000-0026BB765291", "perms": perms, "format": fmt}
                if "pr" in perms:
                    ch["value"] = {"bool": rng.choice([True, False, None]), "float": rng.choice([21.5, 0.0, -3.25, None]), "string": rng.choice(["", "näme", "x" * 40]),
                                   "tlv8": "AQEA", "data": "AAEC"}.get(fmt, rng.choice([0, 1, 100, None]))
                if fmt in ("uint8", "uint16", "uint32", "uint64", "int", "float") and rng.random() < 0.6:
                    ch["minValue"] = rng.choice([0, -50, 0.5] if fmt == "float" else [0, 1])
                    ch["maxValue"] = rng.choice([100, 360, 38.5] if fmt == "float" else [100, 255])
                    if rng.random() < 0.7:
                        ch["minStep"] = rng.choice([0.1, 0.5, 1] if fmt == "float" else [1, 5])
                if rng.random() < 0.2 and fmt in ("uint8", "uint16", "uint32", "int"):
                    ch["valid-values"] = [0, 1, 2]
                if rng.random() < 0.3:
                    ch["unit"] = rng.choice(["celsius", "percentage", "arcdegrees", "lux", "seconds"])
                if rng.random() < 0.3:
                    ch["description"] = rng.choice(["On", "Helligkeit", "温度"])
                if rng.random() < 0.3:
                    ch["handle"] = rng.randrange(1, 200)
                    ch["broadcast_events"] = rng.choice([True, False])
                    ch["disconnected_events"] = rng.choice([True, False])
                svc["characteristics"].append(ch)
            svcs.append(svc)
        ids = [s["iid"] for s in svcs]
        for s in svcs:
            if rng.random() < 0.4:
                others = [i for i in ids if i != s["iid"]]
                s["linked"] = rng.sample(others, rng.randint(0, len(others))) + ([0] if rng.random() < 0.3 else [])
        accs.append({"aid": a + 1, "services": svcs})
    return accs


# ---------------------------------------------------------------------------------------------
# controllers
# ---------------------------------------------------------------------------------------------


def make_controller(cache=None):
    from aiohomekit.characteristic_cache import CharacteristicCacheMemory
    from aiohomekit.controller import Controller
    from aiohomekit.controller.abstract import TransportType
    from aiohomekit.controller.ble.controller import BleController
    from aiohomekit.controller.coap.controller import CoAPController
    from aiohomekit.controller.ip.controller import IpController

    cache = cache if cache is not None else CharacteristicCacheMemory()
    c = Controller(char_cache=cache)
    c.transports[TransportType.IP] = IpController(char_cache=cache, zeroconf_instance=None)
    c.transports[TransportType.COAP] = CoAPController(char_cache=cache, zeroconf_instance=None)
    c.transports[TransportType.BLE] = BleController(char_cache=cache)
    return c


def loaded(controller) -> dict:
    return {alias: copy.deepcopy(dict(p.pairing_data)) for alias, p in controller.aliases.items()}


def pairing_roundtrip(ctx, rng, idx) -> None:
    pset = gen_pairing_set(rng)
    d = tmpdir()
    try:
        path = os.path.join(d, rng.choice(["pairings.json", "sub/dir/pairings.json"]))
        c1 = make_controller()
        for alias, pd in pset.items():
            c1.load_pairing(alias, copy.deepcopy(pd))
        want = loaded(c1)
        replay = {"part": "A", "idx": idx}
        ctx.case("A", json.dumps(pset, sort_keys=True), nontrivial=bool(pset), sample={"part": "pairing round trip", "aliases": list(pset), "connections": [p.get("Connection") for p in pset.values()]}, kind="A")
        try:
            c1.save_data(path)
            c2 = make_controller()
            c2.load_data(path)
        except Exception as ex:  # noqa: BLE001
            ctx.violation(f"pairing-roundtrip-raises-{type(ex).__name__}", f"{len(pset)} pairings: {ex!r}", replay)
            return
        got = loaded(c2)
        if got != want:
            diff = [a for a in want if got.get(a) != want[a]] + [a for a in got if a not in want]
            ctx.violation("pairing-data-changed-by-restart", f"aliases {diff}: saved {want.get(diff[0])} loaded {got.get(diff[0])}", replay)
            return
        for alias, pd in pset.items():
            for k, v in pd.items():
                if got[alias].get(k) != v:
                    ctx.violation("pairing-field-lost", f"alias {alias!r} field {k}: {v!r} -> {got[alias].get(k)!r}", replay)
                    return
        ctx.count("pairing_roundtrips")
    finally:
        shutil.rmtree(d, ignore_errors=True)


FIELDS = ["type", "iid", "perms", "format", "_value", "minValue", "maxValue", "minStep", "valid_values", "unit", "handle", "broadcast_events", "disconnected_events"]


def model_digest(accessories):
    out = []
    for acc in accessories:
        for svc in acc.services:
            out.append(("svc", acc.aid, svc.iid, svc.type, tuple(sorted(s.iid for s in svc.linked))))
            for ch in svc.characteristics:
                # values are compared by equality (0 == False for a bool characteristic), everything else by repr
                out.append(("chr", acc.aid, svc.iid) + tuple((f, getattr(ch, f) if f == "_value" else repr(getattr(ch, f) or None if f == "unit" else getattr(ch, f))) for f in FIELDS))
    return out


INPUT_FIELDS = {"perms": "perms", "format": "format", "minValue": "minValue", "maxValue": "maxValue", "minStep": "minStep",
                "valid-values": "valid_values", "unit": "unit", "handle": "handle", "broadcast_events": "broadcast_events",
                "disconnected_events": "disconnected_events"}


def check_against_input(entity_map, accessories):
    """Ground truth = the entity map that was stored: every field it states must be what the reloaded model holds."""
    from aiohomekit.uuid import normalize_uuid

    for acc in entity_map:
        macc = accessories.aid(acc["aid"])
        for svc in acc["services"]:
            msvc = macc.services.iid(svc["iid"])
            if msvc.type != normalize_uuid(svc["type"]):
                return f"service {svc['iid']} type {msvc.type} != {svc['type']}"
            want_links = sorted({x for x in svc.get("linked", []) if x})
            if sorted(s.iid for s in msvc.linked) != want_links:
                return f"service {svc['iid']} links {sorted(s.iid for s in msvc.linked)} != {want_links}"
            for ch in svc["characteristics"]:
                mch = macc.characteristics.iid(ch["iid"])
                if mch is None or mch.type != normalize_uuid(ch["type"]):
                    return f"characteristic {ch['iid']} missing or type differs"
                for key, attr in INPUT_FIELDS.items():
                    if key in ch:
                        want = ch[key]
                        got = getattr(mch, attr)
                        if key == "unit":
                            want, got = want or None, got or None
                        if got != want:
                            return f"characteristic {acc['aid']}.{ch['iid']} field {key}: stored {want!r}, reloaded {got!r}"
                if ch.get("value") is not None and "pr" in ch["perms"]:
                    want = bool(ch["value"]) if ch.get("format") == "bool" else ch["value"]
                    if mch._value != want:
                        return f"characteristic {acc['aid']}.{ch['iid']} value: stored {want!r}, reloaded {mch._value!r}"
    return None


def database_roundtrip(ctx, entity_map, label, rng, transport="IP") -> None:
    from aiohomekit.characteristic_cache import CharacteristicCacheFile
    from aiohomekit.model import Accessories

    d = tmpdir()
    try:
        path = Path(d) / "cache.json"
        config_num = rng.choice([0, 1, 7, 65535])
        state_num = rng.choice([None, 1, 300])
        bkey = rng.choice([None, rng.randbytes(32)])
        replay = {"part": "B", "label": label}
        ctx.case("B", label, json.dumps(entity_map, sort_keys=True)[:4000], config_num, state_num, bkey, sample={"part": "database round trip", "source": label, "accessories": len(entity_map), "config_num": config_num, "state_num": state_num, "broadcast_key": bool(bkey)}, kind="B-" + ("fixture" if "fixture" in label else "random"))
        pd = gen_pairing(rng, 1)
        pd["Connection"] = transport
        if transport == "BLE":
            pd["AccessoryAddress"] = "AA:BB:CC:DD:EE:FF"
        else:
            pd.setdefault("AccessoryIP", "10.0.0.5")
            pd.setdefault("AccessoryPort", 51826)
        try:
            c1 = make_controller(CharacteristicCacheFile(path))
            p1 = c1.load_pairing("a", copy.deepcopy(pd))
            p1.restore_accessories_state(copy.deepcopy(entity_map), config_num, bkey, state_num)
            before = model_digest(p1.accessories)
            ser1 = p1.accessories.serialize()
            # restart
            c2 = make_controller(CharacteristicCacheFile(path))
            p2 = c2.load_pairing("a", copy.deepcopy(pd))
        except Exception as ex:  # noqa: BLE001
            ctx.violation(f"database-roundtrip-raises-{type(ex).__name__}", f"{label}: {ex!r}", replay)
            return
        if p2.accessories is None:
            ctx.violation("database-lost-by-restart", f"{label}: no accessories after reload", replay)
            return
        after = model_digest(p2.accessories)
        if before != after:
            diff = next((b, a) for b, a in zip(before, after) if b != a) if len(before) == len(after) else ("length", len(before), len(after))
            ctx.violation("database-field-changed-by-restart", f"{label}: {str(diff)[:400]}", replay)
            return
        problem = check_against_input(entity_map, p2.accessories)
        if problem:
            ctx.violation("database-field-differs-from-stored-input", f"{label}: {problem}", replay)
            return
        if (p2.config_num, p2.state_num, p2.broadcast_key) != (config_num, state_num, bkey):
            ctx.violation("database-numbers-or-key-changed", f"{label}: config/state/broadcast key {(p2.config_num, p2.state_num, p2.broadcast_key)} != {(config_num, state_num, bkey)}", replay)
            return
        def strip(ser):
            # the free-text description is not among the fields the property lists (an empty one is replaced by the type's default)
            ser = copy.deepcopy(ser)
            for a in ser:
                for sv in a["services"]:
                    for c in sv["characteristics"]:
                        c.pop("description", None)
            return ser

        if strip(p2.accessories.serialize()) != strip(ser1) or strip(Accessories.from_list(ser1).serialize()) != strip(ser1):
            ctx.violation("serialize-not-idempotent", f"{label}", replay)
            return
        ctx.count("database_roundtrips")
        if "fixture" in label:
            ctx.count("fixtures_roundtripped")
        # ---- a HISTORY of later updates on the same pairing (the paths the transports use: set the field, then
        # _update_accessories_state_cache / _update_cached_state_num), a restart after each: the LAST saved values survive ----
        cur = {"config_num": config_num, "state_num": state_num, "bkey": bkey}
        for step in range(rng.randint(1, 4)):
            what = rng.choice(["state_num", "state_num", "bkey", "config_num", "value", "nothing", "state_none", "bkey_none"])
            st = p1._accessories_state
            if rng.random() < 0.35:
                # the accessory ADVERTISES a newer configuration than the one the stored database was fetched under (the re-fetch
                # has not happened yet / failed: device out of range). What is saved stays labelled with the number it was
                # fetched under - or a restart would take the old database for the new configuration and never fetch again
                import types

                p1.description = types.SimpleNamespace(config_num=(cur["config_num"] + rng.choice([1, 7])) % 65536, state_num=cur["state_num"] or 1, name="Sim", id=p1.id, address="10.0.0.5", addresses=["10.0.0.5"], port=51826)
                ctx.count("updates_with_advertised_configuration_ahead")
            try:
                if what == "state_num":
                    # the accessory's counter mostly climbs; it also rolls over (65535 -> 1) and starts again at a small
                    # number after a factory reset / reboot - whatever was saved LAST is what a restart must bring back
                    cur["state_num"] = rng.choice([(cur["state_num"] or 0) + rng.choice([1, 1, 2, 200]), (cur["state_num"] or 0) + 1, 65535, 1, max(1, (cur["state_num"] or 2) - 1)])
                    if transport == "BLE" and hasattr(p1, "_update_cached_state_num"):
                        p1._update_cached_state_num(cur["state_num"])
                    else:
                        st.state_num = cur["state_num"]
                        p1._update_accessories_state_cache()
                elif what == "state_none":
                    # BlePairing does exactly this after a configuration change: the state number becomes unknown again
                    cur["state_num"] = None
                    st.state_num = None
                    p1._update_accessories_state_cache()
                elif what == "bkey_none":
                    cur["bkey"] = None
                    st.broadcast_key = None
                    p1._update_accessories_state_cache()
                elif what == "bkey":
                    cur["bkey"] = rng.randbytes(32)
                    st.broadcast_key = cur["bkey"]
                    p1._update_accessories_state_cache()
                elif what == "config_num":
                    cur["config_num"] = (cur["config_num"] + rng.choice([1, 5])) % 65536
                    st.config_num = cur["config_num"]
                    p1._update_accessories_state_cache()
                elif what == "value":
                    chars = [c for a in p1.accessories for sv in a.services for c in sv.characteristics if isinstance(c._value, (int, str)) and not isinstance(c._value, bool)]
                    if chars:
                        c = rng.choice(chars)
                        c._value = (c._value + 1) if isinstance(c._value, int) else c._value + "x"
                    p1._update_accessories_state_cache()
                else:
                    p1._update_accessories_state_cache()
                want_digest = model_digest(p1.accessories)
                c3 = make_controller(CharacteristicCacheFile(path))
                p3 = c3.load_pairing("a", copy.deepcopy(pd))
            except Exception as ex:  # noqa: BLE001
                ctx.violation(f"database-update-history-raises-{type(ex).__name__}", f"{label}: step {step} ({what}): {ex!r}", replay)
                return
            got = (p3.config_num, p3.state_num, p3.broadcast_key)
            if got != (cur["config_num"], cur["state_num"], cur["bkey"]):
                ctx.violation("database-update-lost-by-restart", f"{label}: after update #{step} of {what}: reloaded config/state/key {str(got)[:80]} != last saved {str((cur['config_num'], cur['state_num'], cur['bkey']))[:80]}", replay)
                return
            if p3.accessories is None or model_digest(p3.accessories) != want_digest:
                ctx.violation("database-update-lost-by-restart", f"{label}: after update #{step} of {what}: reloaded database differs from the last saved one", replay)
                return
            ctx.count("database_update_histories")
    finally:
        shutil.rmtree(d, ignore_errors=True)


# ---------------------------------------------------------------------------------------------
# cache corruption
# ---------------------------------------------------------------------------------------------


def independently_unparsable(data: bytes) -> bool:
    import commentjson
    import orjson

    try:
        text = data.decode("utf-8")
    except UnicodeDecodeError:
        return True
    # the library reads the file in text mode: "\r\n" and a lone "\r" reach the parser as "\n" (which ENDS a `#` / `//` comment
    # of the tolerant grammar) - a corruption is unparsable only if it is so in that reading as well
    for reading in (text, text.replace("\r\n", "\n").replace("\r", "\n")):
        try:
            orjson.loads(reading)
            return False
        except Exception:  # noqa: BLE001
            pass
        try:
            commentjson.loads(reading)
            return False
        except Exception:  # noqa: BLE001
            pass
    return True


def corrupted_cache_case(ctx, data: bytes, origin, d) -> None:
    from aiohomekit.characteristic_cache import CharacteristicCacheFile

    path = Path(d) / "cache.json"
    path.write_bytes(data)
    ctx.case("C", data, sample={"part": "corrupted cache", "origin": origin, "len": len(data), "head": data[:60]}, kind="C-" + origin[0])
    if not independently_unparsable(data):
        ctx.count("corruptions_still_parseable_recorded")
        return
    replay = {"part": "C", "data": data}
    try:
        cache = CharacteristicCacheFile(path)
    except Exception as ex:  # noqa: BLE001
        ctx.violation(f"corrupted-cache-fails-startup-{type(ex).__name__}", f"{origin}: {len(data)} bytes: {ex!r}", replay)
        return
    if cache.storage_data != {}:
        ctx.violation("corrupted-cache-yields-garbage", f"{origin}: storage_data={str(cache.storage_data)[:100]}", replay)
        return
    if cache.get_map("aa:bb:cc:dd:ee:ff") is not None:
        ctx.violation("corrupted-cache-yields-garbage", f"{origin}: get_map returned data", replay)
        return
    ctx.count("unparsable_caches_tolerated")


def corruption_part(ctx) -> None:
    from aiohomekit import hkjson

    d = tmpdir()
    try:
        idx = 0
        rng0 = ctx.grng("C20.corrupt")
        docs = []
        for k in range(ctx.pick(3, 10)):
            em = gen_entity_map(rng0)[:1]
            em[0]["services"] = em[0]["services"][:2]
            doc = {"pairings": {"aa:bb:cc:dd:ee:%02x" % k: {"config_num": 3, "accessories": em, "broadcast_key": "ab" * 32 if k % 2 else None, "state_num": 5}}}
            docs.append(hkjson.dumps(doc).encode())
        docs.append(b'{"pairings":{}}')
        docs.append('{"pairings":{"aa":{"config_num":1,"accessories":[{"aid":1,"services":[{"iid":1,"type":"3E","characteristics":[{"iid":2,"type":"23","perms":["pr"],"format":"string","value":"näme 灯"}]}]}],"broadcast_key":null,"state_num":null}}}'.encode())
        for di, data in enumerate(docs):
            step = 1 if len(data) <= 4096 else max(1, len(data) // 800)
            for cut in range(0, len(data), step):
                idx += 1
                if ctx.mine(idx):
                    corrupted_cache_case(ctx, data[:cut], ("prefix", di, cut), d)
        ctx.exhaustive_parts["every byte prefix of every small cache document"] = True
        fixture = (Path(REPO) / "tests/fixtures/ecobee3.json").read_bytes()
        big = b'{"pairings":{"aa:bb":{"config_num":1,"accessories":' + fixture + b',"broadcast_key":null,"state_num":null}}}'
        for cut in range(0, len(big), max(1, len(big) // ctx.pick(40, 400))):
            idx += 1
            if ctx.mine(idx):
                corrupted_cache_case(ctx, big[:cut], ("prefix-large", cut), d)
        for k in range(ctx.pick(600, 40000)):
            idx += 1
            if not ctx.mine(idx):
                continue
            rng = ctx.grng("C20.corrupt.rand", k)
            data = bytearray(rng.choice(docs))
            for _ in range(rng.randint(1, 4)):
                pos = rng.randrange(len(data))
                r = rng.random()
                if r < 0.4:
                    data[pos] ^= 1 << rng.randrange(8)
                elif r < 0.7:
                    del data[pos : pos + rng.randint(1, 20)]
                elif r < 0.85:
                    data[pos:pos] = bytes([rng.choice([0xFF, 0xC3, 0x80, 0x00])])
                else:
                    data[pos:pos] = rng.randbytes(rng.randint(1, 8))
                if not data:
                    break
            corrupted_cache_case(ctx, bytes(data), ("random", k), d)
    finally:
        shutil.rmtree(d, ignore_errors=True)


# ---------------------------------------------------------------------------------------------
# crash points
# ---------------------------------------------------------------------------------------------


def crash_scenarios(ctx):
    rng = ctx.grng("C20.crash")
    out = []
    for k in range(ctx.pick(3, 10)):
        old = {}
        while not old:
            old = gen_pairing_set(rng)
        new = copy.deepcopy(old)
        r = k % 3
        if r == 0:
            new[gen_alias(rng, 9)] = gen_pairing(rng, 9)  # a pairing was added
        elif r == 1 and len(new) > 1:
            new.pop(next(iter(new)))  # one removed
        else:
            a = next(iter(new))
            new[a]["AccessoryIP"] = "10.9.9.9"
            new[a]["AccessoryPort"] = 1234
        out.append((old, new))
    return out


def write_initial(path, old) -> None:
    c = make_controller()
    for alias, pd in old.items():
        c.load_pairing(alias, copy.deepcopy(pd))
    c.save_data(path)


def crash_case(ctx, si, old, new, crash_at, d, oplog_box, fault=None) -> None:
    from aiohomekit.exceptions import ConfigLoadingError
    from vf.crashfs import Crash, CrashFS

    path = os.path.join(d, "pairings.json")
    for f in os.listdir(d):
        os.unlink(os.path.join(d, f))
    write_initial(path, old)
    c_old = make_controller()
    c_old.load_data(path)
    old_loaded = loaded(c_old)
    c = make_controller()
    for alias, pd in new.items():
        c.load_pairing(alias, copy.deepcopy(pd))
    new_loaded = loaded(c)
    import errno

    fs = CrashFS(d, crash_at, OSError(errno.ENOSPC, "No space left on device") if fault in ("enospc", "enospc-stays") else None)
    fs.persistent = fault == "enospc-stays"
    crashed = False
    with fs:
        try:
            c.save_data(path)
        except Crash:
            crashed = True
        except OSError:
            # the save FAILED (disk full at this operation) and the process lives on: whatever clean-up the code does has run
            crashed = fs.fault_raised
    if crash_at is None:
        oplog_box.append(list(fs.ops))
        return
    ctx.case("D", si, repr(crash_at), fault, sample={"part": "crash point" if fault is None else "failing file operation (ENOSPC)", "scenario": si, "crash_at_op": crash_at[0], "when": crash_at[1], "op": list(fs.ops[crash_at[0]]) if crash_at[0] < len(fs.ops) else None}, kind="D" if fault is None else "D-" + fault)
    replay = {"part": "D", "si": si, "crash_at": list(crash_at), "fault": fault}
    if not crashed:
        ctx.count("crash_point_not_reached")
        return
    ctx.count("crash_points_injected" if fault is None else "failing_operations_injected")
    where = f"{'crash' if fault is None else 'ENOSPC'} {crash_at[1]} op {crash_at[0]} {fs.ops[crash_at[0]] if crash_at[0] < len(fs.ops) else ''}"
    # a fresh process starts and loads what is on disk
    c2 = make_controller()
    try:
        c2.load_data(path)
    except ConfigLoadingError as ex:
        size = os.path.getsize(path) if os.path.exists(path) else None
        key = "interrupted-save-destroys-pairing-file" + ("-truncated-in-place" if fs.ops and fs.ops[0][0] == "open" and fs.ops[0][1] == "pairings.json" else "")
        ctx.violation(key, f"{where}: previously saved pairing file is now unreadable ({ex}); size on disk {size}", replay)
        return
    except Exception as ex:  # noqa: BLE001
        ctx.violation(f"load-after-crash-raises-{type(ex).__name__}", f"{where}: {ex!r}", replay)
        return
    got = loaded(c2)
    for alias, pd in old_loaded.items():
        if got.get(alias) != pd and got.get(alias) != new_loaded.get(alias):
            ctx.violation("interrupted-save-loses-pairing", f"{where}: alias {alias!r} is neither the old nor the new data (present: {alias in got})", replay)
            return
        if alias not in got and alias in new_loaded:
            ctx.violation("interrupted-save-loses-pairing", f"{where}: alias {alias!r} vanished", replay)
            return
    if got != old_loaded and got != new_loaded:
        ctx.violation("interrupted-save-mixes-states", f"{where}: loaded data is neither the complete old nor the complete new set", replay)
        return
    ctx.count("crash_points_survived")
    # ---- the NEXT, uninterrupted saves after the crash: whatever the interrupted save left behind (e.g. a stale temp file)
    # must not leak into them - a shorter document, an empty one, then the full new set again
    first = dict(list(new.items())[:1])
    for label, want_set in (("shorter", first), ("empty", {}), ("full", new)):
        c3 = make_controller()
        for alias, pd in want_set.items():
            c3.load_pairing(alias, copy.deepcopy(pd))
        want = loaded(c3)
        try:
            c3.save_data(path)
            c4 = make_controller()
            c4.load_data(path)
        except Exception as ex:  # noqa: BLE001
            ctx.violation("save-after-interrupted-save-unreadable", f"{where}; then an uninterrupted save of the {label} set ({len(want_set)} pairings): reload fails with {ex!r} (files: {sorted(os.listdir(d))})", replay)
            return
        if loaded(c4) != want:
            ctx.violation("save-after-interrupted-save-differs", f"{where}; then an uninterrupted save of the {label} set: reloaded data differs", replay)
            return
    ctx.count("saves_after_crash_checked")


def crash_part(ctx) -> None:
    d = tmpdir()
    try:
        idx = 0
        for si, (old, new) in enumerate(crash_scenarios(ctx)):
            box = []
            crash_case(ctx, si, old, new, None, d, box)
            ops = box[0]
            if ctx.shard == 0:
                ctx.count("file_ops_enumerated", len(ops))
                ctx.notes.setdefault("save_file_operations", [list(o) for o in ops])
            points = []
            for k, (kind, name, n) in enumerate(ops):
                points.append((k, "before"))
                points.append((k, "after"))
                if kind == "write":
                    step = 1 if n <= 6000 else max(1, n // 3000)
                    points += [(k, b) for b in range(0, n + 1, ctx.pick(max(step, 3), step))]
            for pt in points:
                idx += 1
                if ctx.mine(idx):
                    crash_case(ctx, si, old, new, pt, d, box)
                    if pt[1] != "after":
                        # the same operation FAILS instead (an error "after" an operation is not a failure of it)
                        crash_case(ctx, si, old, new, pt, d, box, fault="enospc")
                        # ... and the disk STAYS full: whatever the error path tries to write fails as well
                        crash_case(ctx, si, old, new, pt, d, box, fault="enospc-stays")
        ctx.exhaustive_parts["crash before/after every file operation and after byte prefixes of every write of save_data"] = True
    finally:
        shutil.rmtree(d, ignore_errors=True)


# ---------------------------------------------------------------------------------------------
# real kills (thorough): strace SIGKILL injection at every file syscall of a child process doing one save
# ---------------------------------------------------------------------------------------------

CHILD = r"""
import sys, json, copy
import os
sys.path[:0] = ['/verif', os.environ.get('VERIF_REPO', '/repo')]
import asyncio
from vf.props import c20
async def main():
    new = json.load(open(sys.argv[2]))
    c = c20.make_controller()
    for alias, pd in new.items():
        c.load_pairing(alias, pd)
    c.save_data(sys.argv[1])
asyncio.run(main())
"""


def strace_part(ctx) -> None:
    if ctx.quick or ctx.shard != 0:
        return
    if shutil.which("strace") is None:
        ctx.notes["strace"] = "strace not available: real-kill slice skipped"
        return
    d = tmpdir()
    try:
        old, new = crash_scenarios(ctx)[0]
        path = os.path.join(d, "pairings.json")
        newfile = os.path.join(d, "new.in")
        child = os.path.join(d, "child.py")
        Path(child).write_text(CHILD)
        Path(newfile).write_text(json.dumps(new))

        async def prep():
            write_initial(path, old)
            c = make_controller()
            c.load_data(path)
            o = loaded(c)
            c = make_controller()
            for alias, pd in new.items():
                c.load_pairing(alias, copy.deepcopy(pd))
            return o, loaded(c)

        old_loaded, new_loaded = asyncio.run(prep())
        env = dict(os.environ, PYTHONPATH=f"{REPO}:/verif", PYTHONDONTWRITEBYTECODE="1")
        calls = "openat,write,fsync,fdatasync,close,rename,renameat,renameat2,unlink,unlinkat,ftruncate"
        tr = subprocess.run(["strace", "-f", "-P", path, "-P", path + ".tmp", "-e", f"trace={calls}", "-o", os.path.join(d, "trace.txt"), sys.executable, child, path, newfile],
                            env=env, capture_output=True, text=True, timeout=120)
        if tr.returncode != 0:
            ctx.notes["strace"] = f"tracing run failed rc={tr.returncode}: {tr.stderr[-300:]}"
            return
        counts = {}
        for line in Path(os.path.join(d, "trace.txt")).read_text().splitlines():
            parts = line.split(None, 1)
            body = parts[1] if parts and parts[0].isdigit() and len(parts) > 1 else line
            name = body.split("(")[0].strip()
            if name in calls.split(","):
                counts[name] = counts.get(name, 0) + 1
        ctx.notes["strace_syscalls_on_pairing_file"] = counts
        for name, n in counts.items():
            for when in range(1, n + 1):
                asyncio.run(prep())
                r = subprocess.run(["strace", "-f", "-P", path, "-P", path + ".tmp", "-e", f"trace={calls}", "-e", f"inject={name}:signal=SIGKILL:when={when}", "-o", "/dev/null", sys.executable, child, path, newfile],
                                   env=env, capture_output=True, text=True, timeout=120)
                ctx.case("D-strace", name, when, sample={"part": "real SIGKILL", "syscall": name, "nth": when, "child_rc": r.returncode}, kind="D-strace")
                ctx.count("real_kills")

                async def reload():
                    c = make_controller()
                    c.load_data(path)
                    return loaded(c)

                try:
                    got = asyncio.run(reload())
                except Exception as ex:  # noqa: BLE001
                    ctx.violation("interrupted-save-destroys-pairing-file-real-kill", f"SIGKILL on entry to {name} #{when}: load fails: {ex!r}", {"part": "D-strace", "syscall": name, "when": when})
                    continue
                if got != old_loaded and got != new_loaded:
                    ctx.violation("interrupted-save-loses-pairing-real-kill", f"SIGKILL on entry to {name} #{when}: neither old nor new data", {"part": "D-strace", "syscall": name, "when": when})
                else:
                    ctx.count("real_kills_survived")
    finally:
        shutil.rmtree(d, ignore_errors=True)


# ---------------------------------------------------------------------------------------------


async def _async_parts(ctx) -> None:
    for idx in range(ctx.pick(1500, 60000)):
        if ctx.mine(idx):
            pairing_roundtrip(ctx, ctx.grng("C20.A", idx), idx)
    fixtures = sorted((Path(REPO) / "tests/fixtures").glob("*.json"))
    fi = 0
    for f in fixtures:
        try:
            em = json.loads(f.read_text())
        except Exception:  # noqa: BLE001
            continue
        if not (isinstance(em, list) and em and isinstance(em[0], dict) and "aid" in em[0]):
            continue
        for transport in ("IP", "BLE", "CoAP"):
            fi += 1
            if ctx.mine(fi):
                database_roundtrip(ctx, em, f"fixture:{f.name}:{transport}", ctx.grng("C20.B.fix", f.name, transport), transport)
    for idx in range(ctx.pick(1500, 60000)):
        if ctx.mine(idx):
            rng = ctx.grng("C20.B", idx)
            database_roundtrip(ctx, gen_entity_map(rng), f"random:{idx}", rng, rng.choice(["IP", "BLE", "CoAP"]))
    # a cache entry whose accessory list is EMPTY still carries configuration / state numbers and the broadcast key (the BLE
    # placeholder state written before the database has been fetched)
    for k in range(12):
        if ctx.mine(k):
            rng = ctx.grng("C20.B.empty", k)
            database_roundtrip(ctx, [], f"empty-database:{k}", rng, ["BLE", "IP", "CoAP"][k % 3])
            ctx.count("empty_database_roundtrips")
    corruption_part(ctx)
    crash_part(ctx)


def run(ctx) -> None:
    asyncio.run(_async_parts(ctx))
    strace_part(ctx)


def replay(ctx, d) -> None:
    async def go():
        part = d["part"]
        if part == "A":
            pairing_roundtrip(ctx, ctx.grng("C20.A", d["idx"]), d["idx"])
        elif part == "B":
            label = d["label"]
            if label.startswith("fixture:"):
                _, name, transport = label.split(":")
                em = json.loads((Path(REPO) / "tests/fixtures" / name).read_text())
                database_roundtrip(ctx, em, label, ctx.grng("C20.B.fix", name, transport), transport)
            else:
                idx = int(label.split(":")[1])
                rng = ctx.grng("C20.B", idx)
                database_roundtrip(ctx, gen_entity_map(rng), label, rng, rng.choice(["IP", "BLE", "CoAP"]))
        elif part == "C":
            t = tmpdir()
            try:
                corrupted_cache_case(ctx, d["data"], ("replay",), t)
            finally:
                shutil.rmtree(t, ignore_errors=True)
        elif part == "D":
            t = tmpdir()
            try:
                old, new = crash_scenarios(ctx)[d["si"]]
                ca = d["crash_at"]
                crash_case(ctx, d["si"], old, new, (ca[0], ca[1]), t, [], fault=d.get("fault"))
            finally:
                shutil.rmtree(t, ignore_errors=True)

    asyncio.run(go())
    if d["part"] == "D-strace":
        strace_part(ctx)
