"""C07 HTTP/EVENT message parsing is independent of stream segmentation.

Real code: InsecureHomeKitProtocol.data_received feed loop + HttpResponse.parse.
Oracle: the generator knows what it serialised (vf.ref.http.serialize_message).
"""

from __future__ import annotations

import asyncio
import itertools

from vf.ref import http as refhttp

PROPERTY_ID = "C07"
LEVEL = "exploration"
RULE = (
    "cases = (message sequence, segmentation). Sequences of 1-4 well-formed messages mixing HTTP responses and EVENT"
    " messages; codes {200,204,207,400,404,422,470,500}; header sets with random casing/padding/extra headers; bodies"
    " fixed-length (0..N, including CR, LF, CRLF and hex-looking text), chunked (1-byte chunks .. whole, upper/lower hex)"
    " and body-less. Segmentations: EVERY single and double cut position for streams < 160 bytes, every single cut +"
    " random 3-12 cuts otherwise, plus 1-byte dribble. Distinct by (stream bytes, cut tuple); non-trivial = at least one"
    " cut (the uncut delivery is counted as trivial)."
)
ASSUMPTIONS = [
    "only well-formed inputs: status line with reason phrase, no chunk extensions/trailers, Content-Length or chunked or body-less",
    "header names are compared case-insensitively and values stripped (the parser title-cases and strips by design)",
]
SHARDS = {"quick": 8, "thorough": 16}
TIMEOUT = {"quick": 600, "thorough": 3600}
MIN_CASES = {"quick": 100_000, "thorough": 1_000_000}
REQUIRED_COUNTERS = ["messages_compared", "events_seen", "responses_seen", "chunked_messages", "exhaustive_streams", "encrypted_streams"]

CODES = [200, 204, 207, 400, 404, 422, 470, 500]
TRICKY = [b"\r", b"\n", b"\r\n", b"\r\n\r\n", b"0\r\n\r\n", b"5\r\nab", b"HTTP/1.1 200 OK\r\n", b"ff", b"1a\r\n", b"EVENT/1.0 200 OK\r\n\r\n"]


class StubFuture:
    def __init__(self, log, idx):
        self.log = log
        self.idx = idx
        self._done = False

    def done(self):
        return self._done

    def set_result(self, resp):
        self._done = True
        self.log.append(("HTTP", self.idx, resp))

    def set_exception(self, exc):
        self._done = True
        self.log.append(("EXC", self.idx, exc))


class StubOwner:
    def __init__(self):
        self.events = []

    def event_received(self, parsed):
        self.events.append(parsed)


class StubConnection:
    def __init__(self, log):
        self.log = log

    def event_received(self, resp):
        self.log.append(("EVENT", None, resp))
        # what the real connection does with a parsed EVENT (JSON-decode the body, hand it to the pairing); an undecodable
        # body is dropped there - an exception escaping from it would abort the read that carried the event, and with it
        # every message behind it in the same read (bodies that are not UTF-8 are not passed on: out of scope here)
        try:
            resp.body.decode("utf-8")
        except UnicodeDecodeError:
            return
        from aiohomekit.controller.ip.connection import HomeKitConnection

        if not hasattr(self, "owner"):
            self.owner = StubOwner()
        HomeKitConnection.event_received(self, resp)

    def _connection_lost(self, exc):
        self.log.append(("LOST", None, exc))


def gen_message(rng, small: bool):
    kind = "EVENT" if rng.random() < 0.35 else "HTTP"
    code = 200 if kind == "EVENT" else rng.choice(CODES)
    mode = rng.choice(["cl", "cl", "chunked", "none"])
    if small:
        blen = rng.choice([0, 0, 1, 2, 3, 5, 8, 12])
    else:
        blen = rng.choice([0, 1, 2, 17, 64, 255, 256, 700, 1024, 1500, 4000])
    if mode == "none":
        body = b""
    else:
        r = rng.random()
        if r < 0.3 and blen:
            body = (rng.choice(TRICKY) * (blen // 2 + 1))[:blen]
        elif r < 0.6:
            body = (b'{"characteristics":[{"aid":1,"iid":10,"value":%d}]}' % rng.randrange(100))[:blen] if blen < 20 else (
                b'{"characteristics":[' + b",".join(b'{"aid":1,"iid":%d,"value":%d}' % (i, rng.randrange(999)) for i in range(blen // 30 + 1)) + b"]}"
            )
        else:
            body = rng.randbytes(blen)
    headers = []
    def casing(name):
        c = rng.random()
        if c < 0.4:
            return name
        if c < 0.6:
            return name.lower()
        if c < 0.8:
            return name.upper()
        return "".join(ch.upper() if rng.random() < 0.5 else ch.lower() for ch in name)

    def pad(value):
        return rng.choice(["", " ", "  ", "\t"]) + value + rng.choice(["", "", " "])

    extra = []
    if rng.random() < 0.5:
        extra.append((casing("Content-Type"), pad("application/hap+json")))
    if rng.random() < 0.25:
        extra.append((casing("X-Vendor-Thing"), pad("a:b: c")))
    if rng.random() < 0.2:
        extra.append((casing("Date"), pad("Tue, 01 Jan 2030 00:00:00 GMT")))
    chunks = None
    hexcase = "lower"
    if mode == "cl":
        framing = (casing("Content-Length"), pad(str(len(body))))
    elif mode == "chunked":
        framing = (casing("Transfer-Encoding"), pad("chunked"))
        chunks = rng.choice([[1], [2], [3, 1], [len(body) or 1], [7, 300], [16], [255, 1, 10], [4096]])
        hexcase = rng.choice(["lower", "upper"])
    else:
        framing = None
    headers = list(extra)
    if framing:
        headers.insert(rng.randint(0, len(headers)), framing)
    raw = refhttp.serialize_message(kind, code, headers, body, mode, chunks=chunks, hexcase=hexcase)
    want = {
        "kind": kind,
        "version": "HTTP/1.1" if kind == "HTTP" else "EVENT/1.0",
        "code": code,
        "reason": refhttp.REASONS.get(code, "Status"),
        "headers": [(n.lower(), v.strip()) for n, v in headers],
        "body": bytes(body),
        "mode": mode,
    }
    return raw, want


def feed_and_compare(ctx, proto_cls, stream: bytes, wants, cuts, replay_seq) -> bool:
    log = []
    proto = proto_cls(StubConnection(log))
    n_http = sum(1 for w in wants if w["kind"] == "HTTP")
    proto.result_cbs = [StubFuture(log, i) for i in range(n_http)]
    bounds = [0, *cuts, len(stream)]
    replay = {"seq": replay_seq, "cuts": list(cuts)}
    try:
        for a, b in zip(bounds, bounds[1:]):
            if a == b:
                continue
            proto.data_received(stream[a:b])
    except Exception as ex:
        ctx.violation(f"parser-raises-{type(ex).__name__}", f"cuts={list(cuts)[:12]} len={len(stream)}: {type(ex).__name__}: {ex}", replay)
        return False
    got = [e for e in log if e[0] in ("HTTP", "EVENT")]
    if len(got) != len(wants):
        ctx.violation(
            "message-count-differs",
            f"cuts={list(cuts)[:12]} len={len(stream)}: {len(got)} messages completed, {len(wants)} sent"
            f" (kinds got {[g[0] for g in got]} want {[w['kind'] for w in wants]})",
            replay,
        )
        return False
    http_idx = 0
    for g, w in zip(got, wants):
        ctx.count("messages_compared")
        resp = g[2]
        problems = []
        if g[0] != w["kind"]:
            problems.append(f"kind {g[0]} != {w['kind']}")
        if g[0] == "HTTP":
            if g[1] != http_idx:
                problems.append(f"response delivered to future {g[1]}, expected {http_idx}")
            http_idx += 1
        if resp.version != w["version"]:
            problems.append(f"version {resp.version!r}")
        if resp.code != w["code"]:
            problems.append(f"code {resp.code!r} != {w['code']}")
        if resp.reason != w["reason"]:
            problems.append(f"reason {resp.reason!r}")
        if [(n.lower(), v.strip()) for n, v in resp.headers] != w["headers"]:
            problems.append(f"headers {resp.headers!r} != {w['headers']!r}")
        if bytes(resp.body) != w["body"]:
            problems.append(f"body differs (len {len(resp.body)} vs {len(w['body'])})")
        if problems:
            key = "body-differs" if any(p.startswith("body") for p in problems) else "message-fields-differ"
            ctx.violation(key, f"cuts={list(cuts)[:12]} len={len(stream)} mode={w['mode']}: " + "; ".join(problems)[:500], replay)
            return False
    # nothing may be left half-parsed in the parser after a complete sequence
    cur = proto.current_response
    if cur._raw_response or cur._state != 0:
        ctx.violation("leftover-after-complete-sequence", f"cuts={list(cuts)[:12]}: {bytes(cur._raw_response)[:40]!r} state={cur._state}", replay)
        return False
    return True


def build_sequence(rng, small: bool):
    n = rng.choice([1, 2, 2, 3, 4]) if small else rng.choice([1, 2, 3])
    raws, wants = [], []
    for _ in range(n):
        raw, want = gen_message(rng, small)
        raws.append(raw)
        wants.append(want)
    return b"".join(raws), wants


def explore(ctx, proto_cls, seq_id, rng, small: bool) -> None:
    stream, wants = build_sequence(rng, small)
    for w in wants:
        ctx.count("events_seen" if w["kind"] == "EVENT" else "responses_seen")
        if w["mode"] == "chunked":
            ctx.count("chunked_messages")
    n = len(stream)
    sample = {"stream": stream if n <= 200 else stream[:200], "len": n, "messages": [(w["kind"], w["code"], w["mode"], len(w["body"])) for w in wants]}
    # uncut
    ctx.case(stream, (), nontrivial=False)
    feed_and_compare(ctx, proto_cls, stream, wants, (), seq_id)
    if small and n < 160:
        ctx.count("exhaustive_streams")
        for c1 in range(1, n):
            ctx.case(stream, (c1,), sample={**sample, "cuts": [c1]}, kind="1cut")
            if not feed_and_compare(ctx, proto_cls, stream, wants, (c1,), seq_id):
                return
        for c1, c2 in itertools.combinations(range(1, n), 2):
            ctx.case(stream, (c1, c2), sample={**sample, "cuts": [c1, c2]}, kind="2cut")
            if not feed_and_compare(ctx, proto_cls, stream, wants, (c1, c2), seq_id):
                return
    else:
        step = 1 if n < 1500 else max(1, n // 1500)
        for c1 in range(1, n, step):
            ctx.case(stream, (c1,))
            if not feed_and_compare(ctx, proto_cls, stream, wants, (c1,), seq_id):
                return
        for _ in range(ctx.pick(40, 200)):
            k = rng.randint(3, 12)
            cuts = tuple(sorted(rng.sample(range(1, n), min(k, n - 1))))
            ctx.case(stream, cuts, sample={**sample, "cuts": list(cuts)}, kind="multicut")
            if not feed_and_compare(ctx, proto_cls, stream, wants, cuts, seq_id):
                return
    # 1-byte dribble
    cuts = tuple(range(1, n))
    ctx.case(stream, "dribble", sample={**sample, "cuts": "every byte"}, kind="dribble")
    feed_and_compare(ctx, proto_cls, stream, wants, cuts, seq_id)


def secure_stream(rng, small: bool):
    """The same message sequences inside an encrypted session: (protocol factory, ciphertext stream, wants, frame ends)."""
    from aiohomekit.controller.ip.connection import SecureHomeKitProtocol
    from vf.ref import session as refsession

    stream, wants = build_sequence(rng, small)
    a2c, c2a = rng.randbytes(32), rng.randbytes(32)
    sizes = rng.choice([[1024], [16], [1, 40], [rng.randint(1, 200) for _ in range(5)], [len(stream) // 2 + 1]])
    frames = refsession.Encoder(a2c).frames(stream, sizes)
    ends, pos = [], 0
    for f in frames:
        pos += len(f)
        ends.append(pos)
    return (lambda conn: SecureHomeKitProtocol(conn, a2c, c2a)), b"".join(frames), wants, ends


def explore_secure(ctx, seq_id, rng, small: bool) -> None:
    """Segmentation of the ENCRYPTED stream: reads that end inside a frame, right after one, or carry several frames plus
    the beginning of the next must yield the same messages."""
    factory, enc, wants, ends = secure_stream(rng, small)
    n = len(enc)
    ctx.count("encrypted_streams")
    sample = {"encrypted_len": n, "frames": len(ends), "messages": [(w["kind"], w["code"], w["mode"], len(w["body"])) for w in wants]}
    ctx.case(enc, (), nontrivial=False)
    if not feed_and_compare(ctx, factory, enc, wants, (), seq_id):
        return
    step = 1 if n < 700 else max(1, n // 700)
    for c1 in range(1, n, step):
        ctx.case(enc, (c1,), sample={**sample, "cuts": [c1]}, kind="enc-1cut")
        if not feed_and_compare(ctx, factory, enc, wants, (c1,), seq_id):
            return
    for _ in range(ctx.pick(30, 150)):
        k = rng.randint(2, 8)
        cuts = set(rng.sample(range(1, n), min(k, n - 1)))
        if len(ends) > 1:
            e = rng.choice(ends[:-1])
            cuts.add(min(n - 1, e + rng.choice([0, 1, 2, 3, 17])))  # at / just past a frame boundary
        cuts = tuple(sorted(c for c in cuts if 0 < c < n))
        ctx.case(enc, cuts, sample={**sample, "cuts": list(cuts)}, kind="enc-multicut")
        if not feed_and_compare(ctx, factory, enc, wants, cuts, seq_id):
            return


async def _main(ctx, only=None):
    from aiohomekit.controller.ip.connection import InsecureHomeKitProtocol

    n_small = ctx.pick(640, 8000)
    n_large = ctx.pick(64, 1500)
    if only is not None:
        kind, k = only["seq"]
        rng = ctx.grng("C07", kind, k)
        if kind.startswith("secure"):
            factory, enc, wants, _ = secure_stream(rng, kind == "secure-small")
            ctx.case(enc, tuple(only["cuts"]))
            feed_and_compare(ctx, factory, enc, wants, tuple(only["cuts"]), only["seq"])
            return
        stream, wants = build_sequence(rng, kind == "small")
        ctx.case(stream, tuple(only["cuts"]))
        feed_and_compare(ctx, InsecureHomeKitProtocol, stream, wants, tuple(only["cuts"]), only["seq"])
        return
    for k in range(n_small):
        if ctx.mine(k):
            explore(ctx, InsecureHomeKitProtocol, ("small", k), ctx.grng("C07", "small", k), True)
    for k in range(n_large):
        if ctx.mine(k):
            explore(ctx, InsecureHomeKitProtocol, ("large", k), ctx.grng("C07", "large", k), False)
    for k in range(ctx.pick(160, 3000)):
        if ctx.mine(k):
            kind = "secure-small" if k % 2 else "secure-large"
            explore_secure(ctx, (kind, k), ctx.grng("C07", kind, k), kind == "secure-small")
    ctx.exhaustive_parts["all single and double cuts of every stream < 130 bytes"] = True


# the parser as the real connection drives it: the caller of a request is resumed BETWEEN reads, so bytes of the next message
# that arrived with the end of its response must survive that (the scenario machinery and its oracles are C08's)
REQUEST_LEVEL_SCHEDULES = ["RG", "RGRG", "RRGGE", "RGFRG", "RGGG", "RRAGG"]


async def run_request_level(ctx) -> None:
    from vf.props import c08

    n = 0
    for k in range(ctx.pick(6, 40)):
        for schedule in REQUEST_LEVEL_SCHEDULES:
            n += 1
            if not ctx.mine(n):
                continue
            api = ("connection", "pairing", "pipelined")[n % 3]
            ctx.case("request-level", schedule, api, k, sample={"part": "request-level", "schedule": schedule, "api": api}, kind="request-level")
            await c08.Scenario(ctx, schedule, api, ("C07", k, schedule)).run()
            ctx.count("request_level_schedules")


def run(ctx) -> None:
    asyncio.run(_main(ctx))
    from vf import vloop

    vloop.run(run_request_level(ctx))


def replay(ctx, d) -> None:
    d = dict(d)
    d["seq"] = tuple(d["seq"])
    asyncio.run(_main(ctx, only=d))
