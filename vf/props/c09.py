"""C09 Requests are written byte-for-byte in the canonical iOS form.

Real code: HomeKitConnection.request/get/put/post/put_json/post_json/post_tlv and the IpPairing API on a real transport
(vf.simnet). Observation: RecordingTransport (every write/writelines call) + the simulated accessory's reassembly of
each request (decrypted with the reference session codec). Oracle: vf.ref.http.canonical_request + JSON scanner.
"""

from __future__ import annotations

import asyncio
import json
import re

from vf.ref import http as refhttp
from vf.ref import tlv8 as reftlv

PROPERTY_ID = "C09"
LEVEL = "exploration"
RULE = (
    "cases = one HTTP request each, issued through every public sender (get, put, post, put_json, post_json, post_tlv,"
    " pair-verify POSTs during connect) and the pairing API (get_characteristics over id sets of 1..40 ids x 1..3 aids,"
    " put_characteristics with nested/unicode/float/bool values, subscribe/unsubscribe, list_accessories, add/remove"
    " pairing, identify, image) on IPv4, IPv6 and scoped-IPv6 peers, bodies 1 byte .. 5 kB (multi-frame when encrypted),"
    " and again after the connection was lost and re-established to a DIFFERENT advertised address (other family)."
    " Each request's reassembled plaintext is compared byte-for-byte with the canonical serialisation of its own"
    " (method, target, body) and with the API-level expectation; transport calls are counted per request."
    " Distinct by the request plaintext; non-trivial = all (zero-length-body PUT/POST are recorded, not judged)."
)
ASSUMPTIONS = [
    "canonical form: request line, 'Host: <peer>' (IPv6 bracketed, no port; zone id kept or stripped), then iff a body:"
    " 'Content-Length: n', 'Content-Type: t' in that order; CRLF; blank line; body",
    "id order inside a read URL is unspecified (ids are a set); each id must be rendered aid.iid in decimal, comma-joined",
    "byte-level form of the characteristic payloads the pairing API builds itself (write, subscribe, identify): a single"
    " 'characteristics' member whose items start with the members aid, iid in that order (the form of the HAP"
    " specification's examples); member order of caller-supplied JSON documents and of /resource is not judged",
]
SHARDS = {"quick": 8, "thorough": 16}
TIMEOUT = {"quick": 600, "thorough": 3600}
MIN_CASES = {"quick": 1500, "thorough": 30000}
REQUIRED_COUNTERS = ["requests_compared", "transport_calls_counted", "encrypted_requests", "plaintext_phase_requests", "multi_frame_requests", "json_bodies_scanned", "reconnects_to_other_address", "hard_json_refused", "concurrent_bursts", "poll_set_mutations", "requests_under_backpressure"]

HOSTS = ["10.0.0.5", "192.168.100.200", "fd00::5", "2001:db8::1:2", "fe80::1234%eth0", "fe80::1%3"]
JSON_CT = "application/hap+json"
TLV_CT = "application/pairing+tlv8"


def generic_canonical(ctx, req, host, replay) -> bool:
    """The raw bytes alone must be in canonical form."""
    raw = req["raw"]
    head, _, body = raw.partition(b"\r\n\r\n")
    problems = []
    names = [n for n, _ in req["headers"]]
    if names not in (["Host"], ["Host", "Content-Length", "Content-Type"]):
        problems.append(f"header names/order/casing {names}")
    hosts = refhttp.host_header_values(host)
    host_vals = [v for n, v in req["headers"] if n == "Host"]
    if host_vals and host_vals[0] not in hosts:
        problems.append(f"Host value {host_vals[0]!r} not in {hosts}")
    has_cl = "Content-Length" in names
    ct = dict(req["headers"]).get("Content-Type")
    if not problems:
        for hv in hosts:
            want = refhttp.canonical_request(req["method"], req["target"], hv, req["body"] if has_cl else None, ct)
            if want == raw:
                break
        else:
            problems.append("bytes differ from the canonical serialisation (whitespace / line endings / extra bytes)")
    if not has_cl and req["body"]:
        problems.append("body without Content-Length")
    if problems:
        ctx.violation("not-canonical-" + ("headers" if "header" in problems[0] or "Host" in problems[0] else "bytes"), f"{raw[:160]!r}: " + "; ".join(problems), replay)
        return False
    if has_cl and len(req["body"]) == 0:
        ctx.count("zero_length_body_recorded")
    return True


class Session:
    """One connected world + helpers that run an API call and collect the requests/transport calls it caused."""

    def __init__(self, ctx, w, host, label):
        self.ctx = ctx
        self.w = w
        self.host = host
        self.label = label

    @property
    def conn(self):
        return self.w.accessory.conns[-1]

    def transport_calls(self):
        tr = self.w.connection.transport
        return [e for e in tr.vf_log if e[1] in ("write", "writelines")]

    async def call(self, name, coro, expect):
        """expect(list_of_requests) -> list of problems. Runs coro, collects requests seen by the accessory."""
        ctx = self.ctx
        n0 = len(self.conn.requests)
        c0 = len(self.transport_calls())
        replay = {"label": self.label, "call": name}
        try:
            result = await asyncio.wait_for(coro, 60)
        except Exception as ex:  # noqa: BLE001
            result = ex
        reqs = self.conn.requests[n0:]
        calls = self.transport_calls()[c0:]
        ctx.count("transport_calls_counted", len(calls))
        if len(calls) != len(reqs):
            ctx.violation("request-not-single-transport-call", f"{name}: {len(reqs)} request(s) reached the accessory through {len(calls)} transport write call(s)", replay)
        for call, req in zip(calls, reqs):
            if call[1] == "writelines" and len(call[2]) > 2:
                ctx.count("multi_frame_requests")
        for req in reqs:
            ctx.case(req["raw"], sample={"api": name, "host": self.host, "request": req["raw"][:300], "encrypted": req["secure"]}, kind=name.split("(")[0])
            ctx.count("encrypted_requests" if req["secure"] else "plaintext_phase_requests")
            if generic_canonical(ctx, req, self.host, replay):
                ctx.count("requests_compared")
            ct = dict(req["headers"]).get("Content-Type")
            is_json = False
            # raw put()/post() bodies are caller-chosen bytes (they may even happen to parse as JSON, e.g. b"9\t"):
            # only bodies serialised by the library itself are scanned for insignificant whitespace
            if ct == JSON_CT and req["body"] and not name.startswith(("put(", "post(", "post-json-ct(")):
                try:
                    json.loads(req["body"].decode("utf-8"))
                    is_json = True
                except Exception:  # noqa: BLE001 - raw put()/post() bodies are arbitrary bytes chosen by the caller
                    pass
            if is_json:
                ctx.count("json_bodies_scanned")
                if refhttp.json_has_insignificant_whitespace(req["body"]):
                    ctx.violation("json-insignificant-whitespace", f"{name}: body {req['body'][:120]!r}", replay)
        problems = expect(reqs, result)
        if problems:
            ctx.violation("api-request-shape", f"{name}: " + "; ".join(problems)[:500], replay)
        return result


def strict_eq(a, b) -> bool:
    """JSON equality that keeps true / 1 / 1.0 apart (Python's == does not): the spelling on the wire is the caller's."""
    if type(a) is not type(b):
        return False
    if isinstance(a, dict):
        return list(a) == list(b) and all(strict_eq(a[k], b[k]) for k in a)
    if isinstance(a, list):
        return len(a) == len(b) and all(strict_eq(x, y) for x, y in zip(a, b))
    if isinstance(a, float):
        return a == b and str(a) == str(b)  # keeps 0.0 and -0.0 apart
    return a == b


def char_payload_order(body: bytes):
    """Library-built characteristic payloads, byte-level: {"characteristics":[{"aid":..,"iid":..,<value|ev|...>}]} - the id
    pair leads every item in the order aid, iid (the form of the HAP specification's examples, which iOS sends)."""
    try:
        doc = json.loads(body.decode("utf-8"), object_pairs_hook=list)
    except Exception:  # noqa: BLE001
        return []
    if not (isinstance(doc, list) and len(doc) == 1 and doc[0][0] == "characteristics" and isinstance(doc[0][1], list)):
        return [f"top level is not a single 'characteristics' member: {body[:80]!r}"]
    for item in doc[0][1]:
        keys = [k for k, _ in item] if isinstance(item, list) else None
        if not keys or keys[:2] != ["aid", "iid"]:
            return [f"characteristic item members in order {keys}, canonical form starts with aid, iid"]
    return []


def expect_one(method, target=None, body=None, ct=None, json_obj=None, target_re=None, char_payload=False):
    def check(reqs, result):
        if len(reqs) != 1:
            return [f"{len(reqs)} requests sent, expected 1 (result {result!r})"]
        r = reqs[0]
        p = []
        if r["method"] != method:
            p.append(f"method {r['method']}")
        if target is not None and r["target"] != target:
            p.append(f"target {r['target']!r} != {target!r}")
        if target_re is not None and not re.fullmatch(target_re, r["target"]):
            p.append(f"target {r['target']!r} !~ {target_re}")
        if body is not None and r["body"] != body:
            p.append(f"body differs ({len(r['body'])} vs {len(body)} bytes)")
        if ct is not None and dict(r["headers"]).get("Content-Type") != ct:
            p.append(f"content type {dict(r['headers']).get('Content-Type')!r}")
        if json_obj is not None:
            try:
                if not strict_eq(json.loads(r["body"].decode("utf-8")), json.loads(json.dumps(json_obj))):
                    p.append(f"JSON body {r['body'][:200]!r} != {json_obj!r} (types included)")
            except Exception as ex:  # noqa: BLE001
                p.append(f"body is not JSON: {ex}")
        if char_payload:
            p += char_payload_order(r["body"])
        return p

    return check


def expect_read(ids):
    def check(reqs, result):
        if len(reqs) != 1:
            return [f"{len(reqs)} requests"]
        t = reqs[0]["target"]
        m = re.fullmatch(r"/characteristics\?id=((\d+\.\d+)(,\d+\.\d+)*)", t)
        if reqs[0]["method"] != "GET" or not m:
            return [f"request line {reqs[0]['method']} {t!r}"]
        got = [tuple(int(x) for x in part.split(".")) for part in m.group(1).split(",")]
        if sorted(got) != sorted(set(ids)):
            return [f"ids {got} != requested {sorted(set(ids))}"]
        if any(part != f"{a}.{i}" for part, (a, i) in zip(m.group(1).split(","), got)):
            return ["id not rendered as decimal aid.iid"]
        return []

    return check


def expect_subscriptions(ids, ev):
    def check(reqs, result):
        p = []
        seen = []
        for r in reqs:
            if r["method"] != "PUT" or r["target"] != "/characteristics":
                p.append(f"request line {r['method']} {r['target']}")
                continue
            doc = json.loads(r["body"].decode())
            p += char_payload_order(r["body"])
            items = doc.get("characteristics", [])
            if set(doc) != {"characteristics"} or any(set(it) != {"aid", "iid", "ev"} or it["ev"] is not ev for it in items):
                p.append(f"payload shape {doc!r}")
            if len({it["aid"] for it in items}) != 1:
                p.append("more than one aid in a subscription request")
            seen += [(it["aid"], it["iid"]) for it in items]
        if sorted(seen) != sorted(ids):
            p.append(f"subscribed ids {sorted(seen)} != {sorted(ids)}")
        return p

    return check


async def vloop_settle():
    from vf import vloop

    await vloop.settle()


async def run_session(ctx, idx) -> None:
    from aiohomekit.http import HttpContentTypes
    from vf import simnet

    rng = ctx.grng("C09", idx)
    host = HOSTS[idx % len(HOSTS)]
    host2 = HOSTS[(idx + 1 + (idx // len(HOSTS)) % (len(HOSTS) - 1)) % len(HOSTS)]  # a different address, often another family
    state = {"refuse": set()}
    # the first address answers first (the second is unreachable until the first connection has been made)
    w = simnet.World(rng, hosts=[host, host2], behaviour=lambda h, a: "refuse" if (h in state["refuse"] or (h == host2 and not state.get("first_done"))) else "accept")
    try:
        try:
            await asyncio.wait_for(w.connection.ensure_connection(), 30)
        except Exception as ex:  # noqa: BLE001
            # an honest accessory with a strict parser could not make sense of what was written
            conns = w.accessory.conns
            raw = conns[0].raw_in if conns else b""
            ctx.case("connect-failed", idx)
            if raw and not conns[0].requests:
                ctx.violation("request-unparseable-by-conformant-accessory", f"accessory received {raw[:120]!r} and could not find a CRLF-delimited request ({ex!r})", {"label": idx, "call": "connect"})
            else:
                ctx.mark_inconclusive(f"honest connection could not be established: {ex!r}")
            return
        state["first_done"] = True
        s = Session(ctx, w, host, idx)
        conn = s.conn
        # the plaintext phase: two pair-verify POSTs, each one transport call, canonical
        tr = w.connection.transport
        plain_calls = [e for e in tr.vf_log if e[1] in ("write", "writelines")]
        plain_reqs = [r for r in conn.requests if not r["secure"]]
        ctx.count("transport_calls_counted", len(plain_calls))
        if len(plain_calls) != len(plain_reqs) or len(plain_reqs) != 2:
            ctx.violation("pair-verify-not-single-transport-call", f"{len(plain_reqs)} pair-verify requests via {len(plain_calls)} transport calls", {"label": idx, "call": "connect"})
        for r in plain_reqs:
            ctx.case(r["raw"], sample={"api": "pair-verify", "host": host, "request": r["raw"][:200]}, kind="pair-verify")
            ctx.count("plaintext_phase_requests")
            if generic_canonical(ctx, r, host, {"label": idx, "call": "connect"}):
                ctx.count("requests_compared")
            if r["method"] != "POST" or r["target"] != "/pair-verify" or dict(r["headers"]).get("Content-Type") != TLV_CT:
                ctx.violation("api-request-shape", f"pair-verify request {r['raw'][:100]!r}", {"label": idx, "call": "connect"})

        # generic responder: 204 for everything that is not handled by the default accessory
        def responder(c, req):
            path = req["target"].split("?")[0]
            if path.startswith("/x") or path in ("/identify",):
                c.send(c.http(204))
                return True
            if path == "/echo-json":
                c.send(c.http(200, b"{}", JSON_CT))
                return True
            return False

        conn.script.responder = responder
        c = w.connection
        n_rounds = ctx.pick(6, 30)
        for k in range(n_rounds):
            target = "/x/" + "".join(rng.choice("abcdefghijklmnopqrstuvwxyz0123456789-_.~%") for _ in range(rng.randint(1, 30)))
            await s.call(f"get({k})", c.get(target), expect_one("GET", target))
            blen = rng.choice([1, 2, 17, 500, 1000, 1023, 1024, 1025, 2048, 5000])
            body = rng.randbytes(blen)
            await s.call(f"put({blen})", c.put(target, body), expect_one("PUT", target, body, JSON_CT))
            await s.call(f"post({blen})", c.post(target, body), expect_one("POST", target, body, TLV_CT))
            await s.call(f"post-json-ct({blen})", c.post(target, body, HttpContentTypes.JSON), expect_one("POST", target, body, JSON_CT))
            obj = gen_json(rng, 0)
            await s.call("put_json", c.put_json("/echo-json", obj), expect_one("PUT", "/echo-json", None, JSON_CT, json_obj=obj))
            await s.call("post_json", c.post_json("/echo-json", obj), expect_one("POST", "/echo-json", None, JSON_CT, json_obj=obj))
            items = [(rng.choice([0, 1, 3, 5, 6, 10]), rng.randbytes(rng.choice([1, 32, 255, 256, 400])))]
            items = [(6, b"\x01")] + [it for it in items if it[0] != 6]
            await s.call("post_tlv", c.post_tlv("/x/tlv", items), expect_one("POST", "/x/tlv", reftlv.encode(items), TLV_CT))
            # zero-length bodies: recorded only
            await s.call("put(0)", c.put(target, b""), lambda reqs, res: [])
            # values at the edge of what the serialiser takes (beyond 64-bit integers, nesting deeper than 254, lone
            # surrogates, non-string keys, non-finite floats): either the call fails and NOTHING is sent, or what is sent is
            # compact JSON like every other body (scanned in call())
            hard = hard_json(rng, k)

            def either(reqs, res):
                if isinstance(res, Exception) and not reqs:
                    ctx.count("hard_json_refused")
                    return []
                if len(reqs) == 1 and not isinstance(res, Exception):
                    ctx.count("hard_json_sent")
                    return []
                return [f"{len(reqs)} request(s) sent, result {res!r}"]

            await s.call("put_json-hard", c.put_json("/echo-json", hard), either)
        # ---- several callers at once on one connection (one request in flight, the others queued behind it): each request
        # reaches the accessory exactly once, complete and canonical, whatever was assembled while it waited ----
        for k in range(ctx.pick(3, 12)):
            n = rng.choice([3, 4, 6])
            specs = []
            for j in range(n):
                target = f"/x/burst-{k}-{j}-" + "".join(rng.choice("abcdef0123456789") for _ in range(rng.randint(1, 40)))
                body = rng.randbytes(rng.choice([1, 30, 700, 1500])) if j % 2 else None
                specs.append((target, body))
            n0 = len(s.conn.requests)
            c0 = len(s.transport_calls())
            await asyncio.gather(*[(c.put(t, b) if b is not None else c.get(t)) for t, b in specs], return_exceptions=True)
            got = sorted(r["raw"] for r in s.conn.requests[n0:])
            hv = refhttp.host_header_values(host)
            want_sets = [sorted(refhttp.canonical_request("PUT" if b is not None else "GET", t, h, b, JSON_CT if b is not None else None) for t, b in specs) for h in hv]
            ctx.case("burst", idx, k, sample={"api": "concurrent burst", "requests": n}, kind="burst")
            ctx.count("concurrent_bursts")
            if got not in want_sets:
                ctx.violation("concurrent-requests-differ", f"{n} concurrent requests: the accessory received {len(got)} requests; first differing: {next((g[:90] for g in got if all(g not in w_ for w_ in want_sets)), None)!r}", {"label": idx, "call": "burst"})
            elif len(s.transport_calls()) - c0 != n:
                ctx.violation("request-not-single-transport-call", f"burst of {n} requests took {len(s.transport_calls()) - c0} transport calls", {"label": idx, "call": "burst"})
        # ---- back-pressure: the transport's write buffer is full (the accessory is not reading) when further requests are
        # issued on a connection that allows several outstanding requests; each still goes to the transport in ONE call ----
        if idx % 2 == 0:
            import socket as _socket

            tr = w.connection.transport
            saved_limit = c._concurrency_limit
            c._concurrency_limit = asyncio.Semaphore(3)
            try:
                tr.get_extra_info("socket").setsockopt(_socket.SOL_SOCKET, _socket.SO_SNDBUF, 2048)
                s.conn.transport.pause_reading()
                n0, c0 = len(s.conn.requests), len(s.transport_calls())
                big = asyncio.ensure_future(c.put("/x/backpressure-big", bytes(rng.randrange(256) for _ in range(1000)) * 300))
                await vloop_settle()
                over_high_water = tr.get_write_buffer_size() > tr.get_write_buffer_limits()[1]
                if over_high_water:
                    # what a transport does at this point (asyncio's flow-control contract; CPython 3.12.1's writelines() happens
                    # not to, its write() does): tell the protocol to pause
                    c.protocol.pause_writing()
                small = [asyncio.ensure_future(c.put(f"/x/backpressure-{j}", rng.randbytes(rng.choice([10, 1500, 3000])))) for j in range(2)]
                await vloop_settle()
                paused = tr.get_write_buffer_size() > 0
                s.conn.transport.resume_reading()
                if over_high_water:
                    for _ in range(200):
                        await asyncio.sleep(0)
                        if tr.get_write_buffer_size() <= tr.get_write_buffer_limits()[0]:
                            break
                    if c.protocol is not None:
                        c.protocol.resume_writing()
                await asyncio.gather(big, *small, return_exceptions=True)
                await vloop_settle()
                reqs, calls = s.conn.requests[n0:], s.transport_calls()[c0:]
                ctx.case("backpressure", idx, sample={"api": "requests issued while the write buffer is backed up", "buffer_backed_up": paused}, kind="backpressure")
                if paused:
                    ctx.count("requests_under_backpressure", len(reqs))
                if len(reqs) != 3 or len(calls) != 3:
                    ctx.violation("request-not-single-transport-call", f"3 requests issued under back-pressure (write buffer backed up: {paused}) reached the accessory as {len(reqs)} requests through {len(calls)} transport write calls", {"label": idx, "call": "backpressure"})
                for r in reqs:
                    generic_canonical(ctx, r, host, {"label": idx, "call": "backpressure"})
            finally:
                c._concurrency_limit = saved_limit
        # ---- pairing API ----
        p = w.pairing
        await s.call("list_accessories", p.list_accessories_and_characteristics(), expect_one("GET", "/accessories"))
        all_ids = [(a, i) for a in (1, 2, 3) for i in (3, 4, 5, 6, 7, 9, 10, 12, 13)]
        for k in range(ctx.pick(12, 80)):
            n = rng.choice([1, 1, 2, 3, 5, 10, 27, 40])
            ids = [rng.choice(all_ids) if rng.random() < 0.8 else (rng.randint(1, 3), rng.randint(14, 4000)) for _ in range(n)]
            # the parameter is an Iterable: lists, sets, tuples - and one-shot iterables (a generator, zip, iter(list))
            arg = rng.choice([lambda: ids, lambda: set(ids), lambda: tuple(ids), lambda: iter(list(ids)), lambda: (x for x in list(ids)), lambda: zip([a for a, _ in ids], [i for _, i in ids])])()
            await s.call(f"get_characteristics({n})", p.get_characteristics(arg), expect_read(ids))
        # the way a poller uses the API: ONE set object, mutated in place between reads - each request lists what the set
        # holds at the time of the call
        poll = {(1, 9), (1, 10)}
        for k in range(ctx.pick(8, 40)):
            await s.call(f"get_characteristics-poll({len(poll)})", p.get_characteristics(poll), expect_read(sorted(poll)))
            if rng.random() < 0.6 or len(poll) < 2:
                poll.add(rng.choice(all_ids))
            else:
                poll.discard(rng.choice(sorted(poll)))
            ctx.count("poll_set_mutations")
        for k in range(ctx.pick(12, 80)):
            n = rng.choice([1, 1, 2, 3, 4])
            writes = []
            for _ in range(n):
                a = rng.randint(1, 3)
                i = rng.choice([9, 10, 11, 12])
                writes.append((a, i, gen_value(rng)))
            want = {"characteristics": [{"aid": a, "iid": i, "value": v} for a, i, v in writes]}
            warg = rng.choice([lambda: writes, lambda: tuple(writes), lambda: iter(list(writes)), lambda: (w_ for w_ in list(writes))])()
            await s.call(f"put_characteristics({n})", p.put_characteristics(warg), expect_one("PUT", "/characteristics", None, JSON_CT, json_obj=want, char_payload=True))
        # a write that names an accessory the local database does not have (a bridge gained one, the copy is older): what goes
        # out is the request the caller asked for - every entry, in order - or nothing at all (the call fails); never a
        # request with entries silently left out
        def all_or_nothing(want):
            def expect(reqs, result):
                if not reqs:
                    return [] if isinstance(result, Exception) else ["no request was sent, yet the call returned normally"]
                if len(reqs) != 1:
                    return [f"{len(reqs)} requests"]
                try:
                    got = json.loads(reqs[0]["body"].decode())
                except Exception as ex:  # noqa: BLE001
                    return [f"body is not JSON: {ex!r}"]
                return [] if got == want else [f"request body {str(got)[:200]} differs from what the caller asked to write {str(want)[:200]}"]

            return expect

        for k in range(ctx.pick(6, 30)):
            writes = [(rng.choice([1, 2, 3]), rng.choice([9, 10, 12]), gen_value(rng)) for _ in range(rng.choice([0, 1, 2]))]
            writes.insert(rng.randint(0, len(writes)), (rng.choice([7, 40, 99]), rng.choice([9, 10]), gen_value(rng)))
            want = {"characteristics": [{"aid": a, "iid": i, "value": v} for a, i, v in writes]}
            await s.call(f"put_characteristics-unknown-accessory({len(writes)})", p.put_characteristics(writes), all_or_nothing(want))
            ctx.count("writes_naming_unknown_accessories")
        for k in range(ctx.pick(6, 40)):
            n = rng.choice([1, 2, 3, 6])
            ids = sorted({(rng.randint(1, 3), rng.choice([9, 10, 13])) for _ in range(n)})
            await s.call(f"subscribe({len(ids)})", p.subscribe(ids), expect_subscriptions(ids, True))
            await s.call(f"unsubscribe({len(ids)})", p.unsubscribe(ids), expect_subscriptions(ids, False))
        want = [(6, b"\x01"), (0, b"\x03"), (1, b"ctl-2"), (3, bytes.fromhex("ab" * 32)), (11, b"\x01")]
        await s.call("add_pairing", p.add_pairing("ctl-2", "ab" * 32, "Admin"), expect_one("POST", "/pairings", reftlv.encode(want), TLV_CT))
        want = [(6, b"\x01"), (0, b"\x04"), (1, "ctl-ü".encode())]
        await s.call("remove_pairing", p.remove_pairing("ctl-ü"), expect_one("POST", "/pairings", reftlv.encode(want), TLV_CT))
        want = [(6, b"\x01"), (0, b"\x05")]
        await s.call("list_pairings", p.list_pairings(), expect_one("POST", "/pairings", reftlv.encode(want), TLV_CT))
        await s.call("identify", p.identify(), expect_one("PUT", "/characteristics", None, JSON_CT, json_obj={"characteristics": [{"aid": 1, "iid": 2, "value": True}]}, char_payload=True))
        wimg = {"aid": 2, "resource-type": "image", "image-width": 640, "image-height": 480}
        await s.call("image", p.image(2, 640, 480), expect_one("POST", "/resource", None, JSON_CT, json_obj=wimg))
        # ---- reconnect to ANOTHER advertised address: the Host header must follow the connected peer ----
        from vf import vloop

        state["refuse"].add(host)
        s.conn.close()
        for _ in range(40):
            await asyncio.sleep(0.5)
            await vloop.settle()
            if w.connection.is_connected:
                break
        if not w.connection.is_connected or w.accessory.conns[-1].host != host2:
            ctx.count("reconnect_to_other_address_not_reached")
        else:
            s2 = Session(ctx, w, host2, idx)
            conn2 = s2.conn
            conn2.script.responder = responder
            ctx.count("reconnects_to_other_address")
            for r in [r for r in conn2.requests if not r["secure"]]:
                ctx.case(r["raw"])
                ctx.count("plaintext_phase_requests")
                if generic_canonical(ctx, r, host2, {"label": idx, "call": "reconnect"}):
                    ctx.count("requests_compared")
            for k in range(3):
                target = f"/x/after-reconnect-{k}"
                await s2.call(f"get-after-reconnect({k})", c.get(target), expect_one("GET", target))
            obj = {"k": "Küche 灯 💡", "n": [1, 2.5, None]}
            await s2.call("put_json-after-reconnect", c.put_json("/echo-json", obj), expect_one("PUT", "/echo-json", None, JSON_CT, json_obj=obj))
            await s2.call("get_characteristics-after-reconnect", p.get_characteristics([(1, 9), (2, 10)]), expect_read([(1, 9), (2, 10)]))
    finally:
        await w.close()


def gen_value(rng):
    r = rng.random()
    if r < 0.25:
        # values that are equal in Python but are different JSON: whatever was written before, THIS spelling goes on the wire
        return rng.choice([True, 1, 1.0, False, 0, 0.0, -0.0, 2, 2.0, "1", "true"])
    r = rng.random()
    if r < 0.2:
        return rng.choice([True, False])
    if r < 0.4:
        return rng.randint(-1000, 100000)
    if r < 0.55:
        return round(rng.uniform(-100, 100), rng.choice([1, 2, 5]))
    if r < 0.8:
        return rng.choice(["on", "a b  c", "tab\there", "näme ünïcode ☃", 'quote " and \\ backslash', "line\nbreak", "AAECAwQ=", ""])
    return gen_json(rng, 1)


def hard_json(rng, k):
    deep = cur = []
    for _ in range(rng.choice([200, 254, 255, 300])):
        nxt = [] if rng.random() < 0.5 else {}
        if isinstance(cur, list):
            cur.append(nxt)
        else:
            cur["d"] = nxt
        cur = nxt
    pool = [
        {"big": 2**64}, {"big": 2**64 - 1}, {"neg": -(2**63) - 1}, {"huge": 10**40, "l": [1, 2]}, [2**63, -(2**63)],
        {"deep": deep, "x": 1}, deep,
        {"s": "lone \ud800 surrogate", "t": 1}, {1: "int key", 2.5: "float key", "n": [1, 2]}, {"f": [float("nan"), float("inf"), 1.5]},
        {"bytes": b"raw"}, {"t": (1, 2)}, {"set": {1}},
    ]
    return pool[(k + rng.randrange(len(pool))) % len(pool)]


def gen_json(rng, depth):
    r = rng.random()
    if depth > 2 or r < 0.3:
        return rng.choice([None, True, False, 0, -1, 3.25, 1e-7, 12345678901234, "s p a c e", "ü", "", "{\"not\": json}"])
    if r < 0.65:
        return {rng.choice(["a", "key with space", "ñ", "nested", "k" + str(i)]): gen_json(rng, depth + 1) for i in range(rng.randint(0, 4))}
    return [gen_json(rng, depth + 1) for _ in range(rng.randint(0, 4))]


def run(ctx) -> None:
    from vf import vloop

    async def main():
        for idx in range(ctx.pick(96, 6000)):
            if ctx.mine(idx):
                await run_session(ctx, idx)

    vloop.run(main())


def replay(ctx, d) -> None:
    from vf import vloop

    vloop.run(run_session(ctx, d["label"]))
