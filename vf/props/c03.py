"""C03 Pair-setup returns pairing data only after a fully authenticated exchange.

Real code: perform_pair_setup_part1 / part2 generators (fed as IP/CoAP and as BLE feed them).
Oracle: vf.ref.pairsetup.SetupAccessory (independent accessory: SRP server, M5 verification, M6 production).
"""

from __future__ import annotations

from cryptography.hazmat.primitives.asymmetric import ed25519

from vf import pairing_driver as drv
from vf.ref import pairsetup as refps
from vf.ref import pairverify as refpv
from vf.ref import tlv8 as reftlv

PROPERTY_ID = "C03"
LEVEL = "exploration"
RULE = (
    "cases = one full pair-setup exchange each (fresh SRP run) against the reference accessory. HONEST: random setup"
    " codes, controller ids (1..36 chars), accessory identities, both feed modes, with/without MFi method, plus a DIRECTED"
    " search for exchanges whose A / S / K / M2 starts with 0x00 (client secret injected) -> must return"
    " a self-consistent record and the accessory must accept M3 and M5. ADVERSARIAL (expected class REJECT by"
    " construction): M2 without salt/key or with a bit of salt/B altered in flight; M4 with EVERY single-bit flip of the"
    " 64-byte proof, proof of a wrong-code accessory, proof absent; M6 with single-bit flips of EncryptedData (every byte,"
    " stride through bits; exhaustive in thorough), encrypted under another key / nonce label, signed by another key or"
    " over another id/key/permuted transcript, each inner field removed, plaintext truncated at each TLV boundary, outer"
    " stream truncated; identifier presented in another letter case than the signed one; a second Identifier / PublicKey item before or after the signed ones; State item of M2/M4/M6 altered to every other value, EMPTY or over-long; EVERY step answered with an error code (0x00..0x08, 0x80, 0xFF, empty) next to otherwise valid fields, with and without State, or alone. Accessory identifiers include lower/mixed-case and non-ASCII ones. TRANSPORT LEVEL: BleDiscovery / IpDiscovery / CoAP do_pair_setup end to end against the reference accessory (a new SRP session per M1): clean, wrong code, wrong code then the right one, and (BLE) a link drop at the first write, at M3, at M5 or later, which makes the driver restart pair-setup. Distinct by (exchange parameters, mutation); non-trivial = all."
)
ASSUMPTIONS = [
    "conformant accessory as in C02 (padding convention) and HAP spec 5.6 labels",
    "any exception counts as 'fails with an error'; the exception-class histogram is evidence only",
]
SHARDS = {"quick": 16, "thorough": 16}
TIMEOUT = {"quick": 900, "thorough": 7200}
MIN_CASES = {"quick": 1200, "thorough": 15000}
REQUIRED_COUNTERS = ["honest_accepted", "accessory_accepted_m3", "accessory_accepted_m5", "adversarial_rejected", "m4_proof_flips", "m6_cipher_flips", "directed_leading_zero_K", "directed_leading_zero_S", "directed_leading_zero_A", "directed_leading_zero_M2",
                     "srp_public_values_observed", "same_salt_histories", "ble_setups_completed", "ble_setups_restarted", "ip_setups_completed", "coap_setups_completed", "transport_setups_wrong_code_refused"]


def make_acc(rng, code=None, pairing_id=None):
    code = code or f"{rng.randrange(1000):03d}-{rng.randrange(100):02d}-{rng.randrange(1000):03d}"
    r = rng.random()
    if pairing_id:
        pid = pairing_id
    elif r < 0.5:
        pid = ":".join(f"{rng.randrange(256):02X}" for _ in range(6)).encode()
    elif r < 0.75:
        # identifiers are opaque bytes to the protocol: lower / mixed case hex, free-form ASCII
        pid = ":".join(rng.choice(["%02x", "%02X"]) % rng.randrange(256) for _ in range(6)).encode()
    elif r < 0.9:
        pid = "".join(rng.choice("abcdefXYZ0189-_: ") for _ in range(rng.choice([1, 5, 17, 36]))).encode()
    else:
        pid = "".join(rng.choice("äßéλ7a:Z") for _ in range(rng.choice([1, 6, 17]))).encode()
    salt = rng.choice([rng.randbytes(16), bytes(16), bytes(3) + rng.randbytes(13)]) if rng.random() < 0.2 else rng.randbytes(16)
    acc = refps.SetupAccessory(code, pid, rng.randbytes(32), salt, rng.getrandbits(256) | 1)
    return code, acc


def random_ios_id(rng):
    n = rng.choice([1, 2, 8, 17, 36, 36, 36])
    alphabet = "0123456789abcdef-ABCDEF" if rng.random() < 0.8 else "äöü-σ0a"
    return "".join(rng.choice(alphabet) for _ in range(n))


def directed_acc(rng, klass):
    """Search (with the reference only) an exchange whose A / S / K / M2 starts with 0x00; returns (code, acc, a)."""
    from vf.ref import srp as refsrp

    grp = refsrp.HOMEKIT
    code = f"{rng.randrange(1000):03d}-{rng.randrange(100):02d}-{rng.randrange(1000):03d}"
    a = rng.getrandbits(128) | 1
    if klass == "A":
        while grp.pad(pow(grp.g, a, grp.N))[0] != 0:
            a = rng.getrandbits(128) | 1
    A_b = grp.pad(pow(grp.g, a, grp.N))
    salt = rng.randbytes(16)
    pid = b"AA:BB:CC:DD:EE:0F"
    seed = rng.randbytes(32)
    b = rng.getrandbits(96) | 1
    if klass == "A":
        return code, refps.SetupAccessory(code, pid, seed, salt, b), a
    srv = refsrp.Server(grp, b"Pair-Setup", code.encode(), salt, b)  # verifier computed once; only b varies below
    kv = grp.k * srv.v
    while True:
        b = rng.getrandbits(96) | 1
        srv.b = b
        srv.B = (kv + pow(grp.g, b, grp.N)) % grp.N
        srv.set_A(A_b)
        val = {"S": grp.pad(srv.S), "K": srv.K, "M2": srv.M2() if klass == "M2" else b"\x01"}[klass]
        if val[0] == 0:
            return code, refps.SetupAccessory(code, pid, seed, salt, b), a


def check_honest(ctx, rng, idx, directed=None) -> None:
    if directed is not None:
        from aiohomekit.crypto import srp as repo_srp

        code, acc, a = directed_acc(rng, directed)
        orig = repo_srp.Srp.__dict__["generate_private_key"]
        repo_srp.Srp.generate_private_key = staticmethod(lambda: a)  # same injection point the repository's own tests use
        try:
            _check_honest(ctx, rng, idx, code, acc, directed)
        finally:
            repo_srp.Srp.generate_private_key = orig
        return
    code, acc = make_acc(rng)
    _check_honest(ctx, rng, idx, code, acc, None)


SEEN_SRP_A: dict = {}


def fresh_srp_key(ctx, acc, replay) -> None:
    """Monitor: the controller's SRP public value A (M3) is new in every exchange of the process - otherwise the session key
    repeats and a recorded M2/M4/M6 can be played back by someone who never knew the setup code."""
    A = getattr(acc.srv, "A", None)
    if not A:
        return
    ctx.count("srp_public_values_observed")
    if A in SEEN_SRP_A:
        ctx.violation("controller-srp-key-reused", f"the controller's SRP public value of this exchange was already used by exchange #{SEEN_SRP_A[A]}", replay)
    else:
        SEEN_SRP_A[A] = len(SEEN_SRP_A)


def same_salt_history(ctx, rng, idx) -> None:
    """Two accessories / two attempts that share ONE salt (a fixed-verifier accessory, the all-zero salt some devices use) with
    DIFFERENT setup codes, in one process: each exchange stands on its own code."""
    salt = rng.choice([bytes(16), rng.randbytes(16)])
    pid = b"5A:17:00:00:00:01"
    c1 = f"{rng.randrange(1000):03d}-{rng.randrange(100):02d}-{rng.randrange(1000):03d}"
    c2 = f"{(int(c1[:3]) + 1) % 1000:03d}{c1[3:]}"
    mode = rng.choice(["ip", "ble"])
    replay = {"kind": "same-salt", "idx": idx}
    steps = [("code 1, honest", c1, c1, True), ("same salt, code 2, honest", c2, c2, True), ("same salt: accessory knows code 1, controller is given code 2", c1, c2, False),
             ("same salt, code 1 again, honest", c1, c1, True)]
    for label, acc_code, ctl_code, want_ok in steps:
        acc = refps.SetupAccessory(acc_code, pid, rng.randbytes(32), salt, rng.getrandbits(256) | 1)
        ctx.case("same-salt", idx, label, sample={"kind": "same salt, different codes", "step": label, "salt_all_zero": salt == bytes(16)}, kind="same-salt")
        out = drv.run_pair_setup(acc, ctl_code, "ctl-" + str(idx), mode, False)
        ok = out.exc is None and isinstance(out.value, dict)
        if want_ok and not (ok and acc.m5_verdict == "ok"):
            ctx.violation("honest-exchange-fails-after-another-code-on-the-same-salt", f"{label}: {out.summary()} {out.exc!r} (accessory: m3_ok={acc.m3_ok})", replay)
            return
        if not want_ok and ok:
            ctx.violation("returns-data-for-accessory-that-knows-another-code", f"{label}: pairing data returned", replay)
            return
        if not want_ok and acc.m3_ok:
            ctx.violation("wrong-code-proof-accepted-by-accessory", f"{label}: the accessory accepted the controller's M3", replay)
            return
    ctx.count("same_salt_histories")


def _check_honest(ctx, rng, idx, code, acc, directed) -> None:
    ios_id = random_ios_id(rng)
    mode = rng.choice(["ip", "ble"])
    with_auth = rng.random() < 0.3
    replay = {"kind": "honest", "idx": idx, "directed": directed}
    if directed:
        ctx.count(f"directed_leading_zero_{directed}")
    ctx.case("honest", idx, directed, sample={"kind": "honest", "code": code, "ios_id": ios_id, "mode": mode, "with_auth": with_auth, "acc_id": acc.pairing_id}, kind="honest")
    out = drv.run_pair_setup(acc, code, ios_id, mode, with_auth)
    if directed is None:
        fresh_srp_key(ctx, acc, replay)
    if out.exc is not None:
        ctx.violation(f"honest-exchange-fails-{type(out.exc).__name__}", f"{out.summary()}: {out.exc!r} (m3_ok={acc.m3_ok} m5={acc.m5_verdict})", replay)
        return
    if acc.m3_ok:
        ctx.count("accessory_accepted_m3")
    else:
        ctx.violation("accessory-rejects-m3", "reference accessory rejected the controller's SRP proof", replay)
        return
    if acc.m5_verdict == "ok":
        ctx.count("accessory_accepted_m5")
    else:
        ctx.violation("accessory-rejects-m5", f"reference accessory: {acc.m5_verdict}", replay)
        return
    rec = out.value
    problems = []
    if not isinstance(rec, dict):
        problems.append(f"returned {type(rec).__name__}")
    else:
        if rec.get("AccessoryPairingID") != acc.pairing_id.decode():
            problems.append("AccessoryPairingID is not the authenticated one")
        if rec.get("AccessoryLTPK") != acc.ltpk.hex():
            problems.append("AccessoryLTPK is not the authenticated one")
        if rec.get("iOSPairingId") != ios_id:
            problems.append("iOSPairingId differs from the one passed in")
        try:
            sk = ed25519.Ed25519PrivateKey.from_private_bytes(bytes.fromhex(rec["iOSDeviceLTSK"]))
            if refpv.raw_pub(sk).hex() != rec.get("iOSDeviceLTPK"):
                problems.append("iOSDeviceLTPK is not the public key of iOSDeviceLTSK")
        except Exception as ex:  # noqa: BLE001
            problems.append(f"iOSDeviceLTSK unusable: {ex!r}")
        if acc.stored_controller != (ios_id.encode(), bytes.fromhex(rec.get("iOSDeviceLTPK", ""))):
            problems.append("accessory stored a different controller id/key than the record holds")
    if problems:
        ctx.violation("record-inconsistent", "; ".join(problems), replay)
        return
    ctx.count("honest_accepted")


# ---------------------------------------------------------------------------------------------
# adversarial mutations: name -> (stage, function(items, acc, arg) -> items|bytes)
# ---------------------------------------------------------------------------------------------


def _flip(data: bytes, bit: int) -> bytes:
    b = bytearray(data)
    b[bit // 8] ^= 1 << (bit % 8)
    return bytes(b)


def _replace(items, t, fn):
    return [(k, fn(v) if k == t else v) for k, v in items]


def _drop(items, t):
    return [(k, v) for k, v in items if k != t]


def mutation(name, arg, rng):
    other_key = ed25519.Ed25519PrivateKey.from_private_bytes(rng.randbytes(32))

    def m(stage, items, acc):
        st = name.split(":")[0]
        if stage != st:
            return items
        kind = name.split(":")[1]
        if kind == "drop_salt":
            return _drop(items, 2)
        if kind == "drop_key":
            return _drop(items, 3)
        if kind == "flip_salt":
            return _replace(items, 2, lambda v: _flip(v, arg % (len(v) * 8)))
        if kind == "flip_B":
            return _replace(items, 3, lambda v: _flip(v, arg % (len(v) * 8)))
        if kind == "flip_proof":
            return _replace(items, 4, lambda v: _flip(v, arg))
        if kind == "drop_proof":
            return _drop(items, 4)
        if kind == "drop_proof_keep_junk":
            return _drop(items, 4) + [(5, rng.randbytes(40))]
        if kind == "wrong_code_proof":
            # proof an accessory configured with another setup code would send
            other = refps.SetupAccessory("999-99-999", acc.pairing_id, rng.randbytes(32), acc.srv.salt, acc.srv.b)
            other.srv.set_A(acc.srv.grp.pad(acc.srv.A))
            return [(6, b"\x04"), (4, other.srv.M2())]
        if kind == "zero_proof":
            return _replace(items, 4, lambda v: bytes(len(v)))
        if kind == "truncated_proof":
            return _replace(items, 4, lambda v: v[:-1])
        if kind == "proof_tail":
            # the proof shortened from the FRONT: only its last `arg` bytes (0 = empty Proof item)
            return _replace(items, 4, lambda v: v[len(v) - arg :] if arg else b"")
        if kind == "proof_head":
            return _replace(items, 4, lambda v: v[:arg])
        if kind == "flip_cipher":
            return _replace(items, 5, lambda v: _flip(v, arg % (len(v) * 8)))
        if kind == "drop_cipher":
            return _drop(items, 5)
        if kind == "other_key":
            return acc.m6(key=rng.randbytes(32))
        if kind == "verify_key":
            return acc.m6(key=refpv.hkdf(acc.K, b"Pair-Verify-Encrypt-Salt", b"Pair-Verify-Encrypt-Info"))
        if kind == "plaintext_unencrypted":
            # a valid, correctly signed sub-TLV sent in the clear with a junk tag: does not decrypt under the exchange key
            return [(6, b"\x06"), (5, reftlv.encode(acc.m6_subtlv()) + rng.randbytes(16))]
        if kind == "label_msg05":
            return acc.m6(label=b"PS-Msg05")
        if kind == "label_msg04":
            return acc.m6(label=b"PS-Msg04")
        if kind == "signed_by_other":
            sig = other_key.sign(acc.accessory_x() + acc.pairing_id + acc.ltpk)
            return acc.m6(acc.m6_subtlv(signature=sig))
        if kind == "other_key_presented_sig_by_real":
            # presents another LTPK, signature made by the real key over the real transcript
            opk = refpv.raw_pub(other_key)
            return acc.m6(acc.m6_subtlv(ltpk=opk, signature=acc.ltsk.sign(acc.accessory_x() + acc.pairing_id + acc.ltpk)))
        if kind == "sig_over_other_id":
            sig = acc.ltsk.sign(acc.accessory_x() + b"11:22:33:44:55:66" + acc.ltpk)
            return acc.m6(acc.m6_subtlv(signature=sig))
        if kind == "id_swapped_after_signing":
            return acc.m6(acc.m6_subtlv(pairing_id=b"11:22:33:44:55:66", signature=acc.ltsk.sign(acc.accessory_x() + acc.pairing_id + acc.ltpk)))
        if kind == "id_case_variant":
            # presented identifier differs from the signed one only in letter case (arg 0: swapcase, 1: upper, 2: lower, 3: one 0x20 bit)
            real = acc.pairing_id if any(65 <= (c & 0xDF) <= 90 for c in acc.pairing_id) else b"aB:" + acc.pairing_id
            sig = acc.ltsk.sign(acc.accessory_x() + real + acc.ltpk)
            variants = [real.swapcase(), real.upper(), real.lower()]
            pos = [i for i, c in enumerate(real) if 65 <= (c & 0xDF) <= 90]
            variants.append(real[: pos[0]] + bytes([real[pos[0]] ^ 0x20]) + real[pos[0] + 1 :])
            shown = variants[arg % 4]
            if shown == real:
                shown = real.swapcase()
            return acc.m6(acc.m6_subtlv(pairing_id=shown, signature=sig))
        if kind == "error_with_fields":
            # the accessory reports an error for this step (it did NOT accept) but the reply also carries the regular fields
            return list(items) + [(7, bytes([arg]) if arg >= 0 else b"")]
        if kind == "error_with_fields_first":
            return [items[0], (7, bytes([arg]) if arg >= 0 else b"")] + list(items[1:])
        if kind == "error_with_fields_no_state":
            return _drop(items, 6) + [(7, bytes([arg]) if arg >= 0 else b"")]
        if kind == "error_only":
            return [items[0], (7, bytes([arg]) if arg >= 0 else b"")]
        if kind == "wrong_state":
            # the State item altered in flight: another step number (arg 0..7, 255), EMPTY (arg -1) or over-long (arg -2)
            exp = {"M2": 2, "M4": 4, "M6": 6}[st]
            val = b"" if arg == -1 else bytes([exp, 0]) if arg == -2 else bytes([arg])
            return _replace(items, 6, lambda v: val)
        if kind == "dup_inner":
            # a second, non-adjacent Identifier / PublicKey item inside the M6 sub-TLV (before or after the signed ones): which
            # ever copy the controller reads, the record must never hold a value the signature does not cover
            sub = acc.m6_subtlv()
            extra = [(1, b"11:22:33:44:55:66"), (3, refpv.raw_pub(other_key)), (1, acc.pairing_id.swapcase() if acc.pairing_id.swapcase() != acc.pairing_id else acc.pairing_id + b"x")][arg % 3]
            # arg 0..2: the extra item AFTER the signature; 3..5: BEFORE everything (signature moved up between them)
            return acc.m6(sub + [extra] if arg < 3 else [extra, sub[2]] + sub[:2])
        if kind == "sig_permuted":
            sig = acc.ltsk.sign(acc.pairing_id + acc.accessory_x() + acc.ltpk)
            return acc.m6(acc.m6_subtlv(signature=sig))
        if kind == "sig_controller_salt":
            x = refpv.hkdf(acc.K, b"Pair-Setup-Controller-Sign-Salt", b"Pair-Setup-Controller-Sign-Info")
            return acc.m6(acc.m6_subtlv(signature=acc.ltsk.sign(x + acc.pairing_id + acc.ltpk)))
        if kind == "sig_truncated":
            sub = acc.m6_subtlv()
            return acc.m6(_replace(sub, 10, lambda v: v[:-1]))
        if kind == "sig_flipped":
            sub = acc.m6_subtlv()
            return acc.m6(_replace(sub, 10, lambda v: _flip(v, arg % 512)))
        if kind == "drop_inner":
            return acc.m6(_drop(acc.m6_subtlv(), arg))
        if kind == "inner_truncated":
            sub = reftlv.encode(acc.m6_subtlv())
            cut = [0, 2, 19, 21, 53, 55, len(sub) - 1][arg % 7]
            return [(6, b"\x06"), (5, refpv.seal(acc.enc_key, b"PS-Msg06", sub[:cut]))]
        if kind == "outer_truncated":
            raw = reftlv.encode(items)
            return raw[: max(0, len(raw) - 1 - arg)]
        if kind == "replay_m5_as_m6":
            return items[:1] + [(5, acc._last_m5)] if hasattr(acc, "_last_m5") else _drop(items, 5)
        raise KeyError(kind)

    return m


def adversarial_plan(ctx):
    """(name, arg) list; ~ one fresh SRP exchange each."""
    plan = []
    for k in range(ctx.pick(2, 10)):
        plan += [(f"M4:flip_proof", bit, k) for bit in range(512)]
    n_m6 = ctx.pick(4, 40)
    for k in range(n_m6):
        if ctx.quick:
            bits = [8 * i + ((i + k) % 8) for i in range(140)] + list(range(0, 1120, 29))
        else:
            bits = list(range(1120))
        plan += [("M6:flip_cipher", bit, k) for bit in bits]
    structural = (
        [("M2:drop_salt", 0), ("M2:drop_key", 0), ("M4:drop_proof", 0), ("M4:drop_proof_keep_junk", 0), ("M4:wrong_code_proof", 0),
         ("M4:zero_proof", 0), ("M4:truncated_proof", 0), ("M4:proof_tail", 0), ("M4:proof_tail", 1), ("M4:proof_tail", 32), ("M4:proof_tail", 63),
         ("M4:proof_head", 1), ("M4:proof_head", 32), ("M6:drop_cipher", 0), ("M6:other_key", 0), ("M6:verify_key", 0),
         ("M6:plaintext_unencrypted", 0), ("M6:label_msg05", 0), ("M6:label_msg04", 0), ("M6:signed_by_other", 0), ("M6:other_key_presented_sig_by_real", 0),
         ("M6:sig_over_other_id", 0), ("M6:id_swapped_after_signing", 0), ("M6:sig_permuted", 0), ("M6:sig_controller_salt", 0),
         ("M6:sig_truncated", 0), ("M6:drop_inner", 1), ("M6:drop_inner", 3), ("M6:drop_inner", 10)]
        + [("M6:inner_truncated", i) for i in range(7)]
        + [("M6:outer_truncated", i) for i in (0, 1, 15, 16, 17, 60)]
        + [("M4:outer_truncated", i) for i in (0, 1, 30)]
        + [("M2:outer_truncated", i) for i in (0, 1, 17, 18, 200)]
        + [("M6:id_case_variant", i) for i in range(4)]
        + [("M6:dup_inner", i) for i in range(6)]
        + [(f"{st}:wrong_state", v) for st, exp in (("M2", 2), ("M4", 4), ("M6", 6)) for v in (-1, -2, 0, 1, 2, 3, 4, 5, 6, 7, 255) if v != exp]
    )
    err_codes = (0, 1, 2, 3, 4, 5, 6, 7, 8, 0x80, 255, -1)
    errors = [(f"{st}:{kind}", c) for st in ("M2", "M4", "M6") for kind in ("error_with_fields", "error_with_fields_first", "error_with_fields_no_state", "error_only") for c in err_codes]
    for k in range(ctx.pick(1, 6)):
        plan += [(n, a, k) for n, a in errors]
    for k in range(ctx.pick(10, 60)):
        plan += [(n, a, k) for n, a in structural]
        plan += [("M2:flip_salt", 3 * k + 1, k), ("M2:flip_B", 977 * k + 5, k), ("M2:flip_B", 0, k), ("M6:sig_flipped", 37 * k, k)]
    return plan


def check_adversarial(ctx, name, arg, k, j) -> None:
    rng = ctx.grng("C03.adv", name, arg, k)
    code, acc = make_acc(rng)
    ios_id = random_ios_id(rng)
    mode = "ip" if (j % 2) else "ble"
    ctx.case("adv", name, arg, k, mode, sample={"kind": "adversarial", "mutation": name, "arg": arg, "mode": mode}, kind=name)
    replay = {"kind": "adv", "name": name, "arg": arg, "k": k, "j": j}
    out = drv.run_pair_setup(acc, code, ios_id, mode, False, mutation(name, arg, rng))
    if name.startswith("M4:flip_proof"):
        ctx.count("m4_proof_flips")
    if name.startswith("M6:flip_cipher"):
        ctx.count("m6_cipher_flips")
    if name == "M6:dup_inner" and out.returned and out.exc is None and isinstance(out.value, dict):
        # the signed items are all present; whichever copy the controller read, the record must hold what the signature covers
        rec = out.value
        if rec.get("AccessoryPairingID") != acc.pairing_id.decode() or rec.get("AccessoryLTPK") != acc.ltpk.hex():
            ctx.violation("record-holds-value-the-signature-does-not-cover", f"M6 sub-TLV with a second Identifier/PublicKey item ({arg}): record id={rec.get('AccessoryPairingID')!r}", replay)
        else:
            ctx.count("duplicate_inner_item_tolerated_with_authentic_record")
        return
    if out.returned and out.exc is None and out.value is not None and out.stage in ("M6", "M4", "M2", "M3"):
        # part1 legitimately "returns" (salt, key) after an unmutated M2: only a returned record is a violation,
        # or part1 returning although salt/key was removed
        if isinstance(out.value, dict):
            ctx.violation(f"returns-data-after-{name.replace(':', '-')}", f"pairing returned {sorted(out.value)} although reply {name}({arg}) was not authentic", replay)
            return
        ctx.violation(f"step-completes-after-{name.replace(':', '-')}", f"{out.summary()} value={type(out.value).__name__}", replay)
        return
    if out.exc is None:
        ctx.violation(f"no-error-after-{name.replace(':', '-')}", f"{out.summary()}", replay)
        return
    ctx.count("adversarial_rejected")
    ctx.count(f"exc_{type(out.exc).__name__}")


def run(ctx) -> None:
    for i in range(ctx.pick(60, 1500)):
        if ctx.mine(i):
            check_honest(ctx, ctx.grng("C03.honest", i), i)
    # directed search for the 1-in-256 classes inside a full pair-setup exchange (client secret injected)
    j = 0
    for klass in ("K", "S", "A", "M2"):
        for k in range(ctx.pick(4, 40)):
            j += 1
            if ctx.mine(j):
                check_honest(ctx, ctx.grng("C03.directed", klass, k), 10_000 + j, directed=klass)
    for j, (name, arg, k) in enumerate(adversarial_plan(ctx)):
        if ctx.mine(j):
            check_adversarial(ctx, name, arg, k, j)
    for k in range(ctx.pick(4, 60)):
        if ctx.mine(k):
            same_salt_history(ctx, ctx.grng("C03.same-salt", k), k)
    # the transports' own pair-setup drivers, end to end (BLE with link drops / a wrong code first, IP, CoAP)
    from vf import setup_transports, vloop

    vloop.run(setup_transports.run_all(ctx))


def replay(ctx, d) -> None:
    if d["kind"] == "same-salt":
        same_salt_history(ctx, ctx.grng("C03.same-salt", d["idx"]), d["idx"])
        return
    if d["kind"].endswith("-setup"):
        from vf import setup_transports, vloop

        vloop.run(setup_transports.replay(ctx, d))
        return
    if d["kind"] == "honest" and d.get("directed"):
        ctx.mark_inconclusive("directed cases are re-run by the whole check (their RNG key is part of the plan)")
    elif d["kind"] == "honest":
        check_honest(ctx, ctx.grng("C03.honest", d["idx"]), d["idx"])
    else:
        check_adversarial(ctx, d["name"], d["arg"], d["k"], d["j"])
