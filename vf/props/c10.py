"""C10 Reconnection keeps trying with bounded back-off and a single connector.

Real code: HomeKitConnection._reconnect / _start_connector / reconnect_soon / ensure_connection / _get_connect_hosts,
SecureHomeKitConnection._connect_once, IpPairing._ensure_connected / _async_description_update / close / shutdown,
on the simulated network in virtual time. Oracle: a trace specification (S1-S8, DESIGN.md C10) evaluated offline
over the attempt log (every _connect_once activation and every start_connection call with virtual timestamps).
"""

from __future__ import annotations

import asyncio
import itertools

from vf.ref import tlv8 as reftlv

PROPERTY_ID = "C10"
LEVEL = "fault_enumeration"
RULE = (
    "cases = scenarios: (A) single host, ALL sequences of per-attempt outcomes to the bounded depth over {refused,"
    " connect timeout, peer closes during verify, HTTP 470, wrong pairing id, bad signature, authentication error TLV,"
    " parser exception, wrong-length key, success-then-drop after d} then {refused forever | success}; (B) 2-3 hosts with"
    " every assignment of persistent per-host behaviour {wrong id, refused, ok, black hole, bad signature}; (C) base"
    " scenarios x trigger {description update same/changed addresses/changed port, reconnect_soon, waiting caller plain /"
    " own 3 s timeout / cancelled at 2 s, close, shutdown(+later update)} at each gap of the attempt timeline and at seeded"
    " random times. Every scenario runs past last-failure+61 s of virtual time (2 h for the long ones). The attempt log is"
    " checked against S1-S8. Distinct by the scenario descriptor; non-trivial = at least one failed attempt."
)
ASSUMPTIONS = [
    "liveness clauses are bounded restatements: S1 'another attempt within 60 s of a failure', S7 'each host re-attempted"
    " within |hosts|+1 attempts in the all-wrong-id scenario' (a host that once answered as another accessory stays"
    " excluded until the advertisement changes while some other host remains - documented design, reported not judged)",
    "the first attempt of a new connector episode (after an established connection is lost, or after an external trigger)"
    " is immediate and unconstrained; delays are measured from the END of a failed attempt",
    "S4: after an authentication error TLV no attempt happens without an external trigger",
]
SHARDS = {"quick": 16, "thorough": 16}
TIMEOUT = {"quick": 900, "thorough": 7200}
MIN_CASES = {"quick": 2000, "thorough": 30000}
REQUIRED_COUNTERS = ["attempts_logged", "backoff_gaps_checked", "immediate_wrong_id_moves", "auth_failures_ended_retries", "waiters_checked", "no_attempt_after_close_checks", "cap_60s_reached", "host_change_checks"]

EPS = 0.011
OUTCOMES = ["refuse", "blackhole", "close_m2", "reset_m1", "http_470", "wrong_id", "bad_sig", "m4_err:2", "garbage", "bad_key_len", "ok_drop:0.5", "ok_drop:7"]


class Scenario:
    def __init__(self, ctx, desc: dict):
        self.ctx = ctx
        self.desc = desc
        self.hosts = list(desc.get("hosts", ["10.0.0.5"]))
        self.plan = list(desc.get("plan", []))  # outcome per activation (single-host scenarios)
        self.tail = desc.get("tail", "refuse")
        self.per_host = desc.get("per_host")  # host -> persistent behaviour (multi-host scenarios)
        self.triggers = sorted(desc.get("triggers", []), key=lambda t: t[0])  # (time, kind, arg)
        self.horizon = desc.get("horizon", 400)
        self.rng = ctx.grng("C10", repr(desc))
        self.wakeups: list[float] = []
        self.host_changes: list[tuple[float, list]] = []
        self.closed_at = None
        self.shutdown_at = None
        self.waiters: list[dict] = []
        self.ops: list = []
        self.bad = False

    # ---- scripting -------------------------------------------------------------------------
    def outcome_for(self, host) -> str:
        if self.per_host is not None:
            return self.per_host.get(host, "refuse")
        i = self.log.activations[-1]["i"] if self.log.activations else 0
        return self.plan[i] if i < len(self.plan) else self.tail

    def behaviour(self, host, attempt):
        o = self.outcome_for(host)
        if o in ("refuse", "blackhole"):
            return o
        return "accept"

    def script_for(self, host, attempt):
        from vf import simnet

        o = self.outcome_for(host)
        if o == "ok_subdrop":
            # pair-verify succeeds; the accessory hangs up when the first request of the session arrives (for a pairing with
            # subscriptions that is the re-subscription the connector itself sends before it finishes)
            def drop_on_request(c, req):
                if c.secure:
                    c.close()
                    return True
                return False

            return simnet.ConnScript(verify="ok", responder=drop_on_request)
        if o == "ok_m4drop":
            return simnet.ConnScript(verify="ok_close_after_m4")
        if o == "ok_subreset":
            return simnet.ConnScript(verify="ok_reset_after_m4")
        if o == "ok" or o.startswith("ok_drop"):
            script = simnet.ConnScript(verify="ok")
            if o.startswith("ok_drop"):
                script.drop_after = float(o.split(":")[1])
            return script
        return simnet.ConnScript(verify=o)

    def violation(self, key, msg):
        self.bad = True
        self.ctx.violation(key, f"{self.short()}: {msg}", {"desc": self.desc})

    def short(self):
        d = self.desc
        return f"hosts={len(self.hosts)} plan={self.plan} tail={self.tail} per_host={self.per_host} triggers={[(round(t, 2), k) for t, k, _ in self.triggers]}"

    # ---- run ------------------------------------------------------------------------------------
    async def run(self) -> None:
        from vf import simnet, vloop

        w = self.w = simnet.World(self.rng, hosts=self.hosts, behaviour=self.behaviour)
        orig_accept = w.accessory.accept

        def accept(host, attempt):
            conn = orig_accept(host, attempt)
            d = getattr(conn.script, "drop_after", None)
            if d is not None:
                asyncio.get_running_loop().call_later(d, conn.close)
            inner = conn.script.responder

            def responder(c, req, inner=inner):
                # this accessory refuses pairing management: HTTP 470 with an error TLV (the controller hangs up on such a
                # reply - a loss like any other, to be followed by further attempts)
                if c.secure and req["target"].split("?")[0] == "/pairings":
                    c.refused_pairings_at = asyncio.get_running_loop().time()
                    c.send(c.http(470, reftlv.encode([(6, b"\x02"), (7, b"\x02")]), "application/pairing+tlv8"))
                    return True
                return inner(c, req) if inner is not None else False

            conn.script.responder = responder
            return conn

        w.net.accept = accept
        w.accessory.script_for = self.script_for
        self.log = simnet.ConnectOnceLog(w).install()
        loop = asyncio.get_running_loop()
        loop.captured.clear()
        self.t0 = loop.time()
        # every activation remembers the connector task (episode) it ran in
        try:
            if self.desc.get("subscribed"):
                # the caller subscribes first (the API call records the ids, then waits up to 10 s for the connection)
                starter = asyncio.ensure_future(w.pairing.subscribe([(1, 9), (1, 10), (2, 9)]))
            else:
                starter = asyncio.ensure_future(w.connection.ensure_connection())
            starter.add_done_callback(lambda t: t.cancelled() or t.exception())
            self.wakeups.append(loop.time())
            await asyncio.sleep(0)  # let the initial caller run before any trigger at t=0
            now = 0.0
            for t, kind, arg in self.triggers:
                if t > now:
                    await asyncio.sleep(t - now)
                    now = t
                await self.fire(kind, arg)
            remaining = self.horizon - now
            # run in slices so that a runaway busy loop is cut short
            t_stop = loop.time() + remaining
            while loop.time() < t_stop:
                await asyncio.sleep(min(50.0, t_stop - loop.time()))
                if len(self.log.activations) > 3000:
                    self.violation("busy-loop", f"{len(self.log.activations)} connection attempts in {loop.time() - self.t0:.1f} virtual seconds")
                    return
            await vloop.settle()
            self.t_end = loop.time()
            for wt in self.waiters:
                if not wt["task"].done():
                    wt["task"].cancel()
            self.analyze()
        except vloop.HangError as ex:
            self.violation("busy-loop-or-hang", str(ex))
        finally:
            self.log.remove()
            for wt in self.waiters:
                wt["task"].cancel()
            for t in self.ops:
                t.cancel()
            await w.close()

    async def fire(self, kind, arg) -> None:
        w = self.w
        loop = asyncio.get_running_loop()
        now = loop.time()
        if self.closed_at is not None and abs(now - self.closed_at) <= 1e-9 and kind not in ("close", "shutdown"):
            # fired at the SAME virtual instant as close() but after it in program order (a random timeline may put two
            # triggers on one millisecond): it is a trigger after the close
            now = self.closed_at + 2e-9
        if kind == "reconnect_soon":
            # connection.reconnect_soon() is the internal hook the pairing calls for a zeroconf sighting; the pairing guards
            # it with its shutdown flag, so after shutdown() the public trigger is the (guarded) description update
            if self.shutdown_at is not None:
                kind = "update_same"
                self.wakeups.append(now)
                w.pairing._async_description_update(w.description(self.current_hosts()))
                return
            self.wakeups.append(now)
            w.connection.reconnect_soon()
        elif kind == "update_same":
            self.wakeups.append(now)
            w.pairing._async_description_update(w.description(self.current_hosts()))
        elif kind == "update_hosts":
            self.wakeups.append(now)
            new_hosts = list(arg)
            if set(new_hosts) != set(self.current_hosts()):
                # only a CHANGED advertised set obliges the next attempt to reconsider every address
                self.host_changes.append((now, new_hosts))
            self._advertised = new_hosts
            w.pairing._async_description_update(w.description(new_hosts))
        elif kind == "update_port":
            self.wakeups.append(now)
            w.pairing._async_description_update(w.description(self.current_hosts(), port=int(arg)))
        elif kind in ("wait", "wait_own_timeout", "wait_cancel"):
            self.wakeups.append(now)
            rec = {"kind": kind, "t0": now, "t1": None, "exc": None, "connected_at_start": bool(w.connection.is_connected)}

            async def waiter():
                try:
                    if kind == "wait_own_timeout":
                        await asyncio.wait_for(w.pairing._ensure_connected(), 3)
                    else:
                        await w.pairing._ensure_connected()
                except BaseException as ex:  # noqa: BLE001
                    rec["exc"] = ex
                finally:
                    rec["t1"] = loop.time()
                    rec["connected_at_end"] = bool(w.connection.is_connected)

            rec["task"] = asyncio.ensure_future(waiter())
            if kind == "wait_cancel":
                loop.call_later(2.0, rec["task"].cancel)
            self.waiters.append(rec)
        elif kind == "list_pairings":
            # a caller operation the accessory answers with HTTP 470 (see accept above); how the call itself ends is not
            # judged here. It is a caller operation like "wait": it may wake a sleeping connector
            self.wakeups.append(now)

            async def op():
                try:
                    await asyncio.wait_for(w.pairing.list_pairings(), 25)
                except BaseException:  # noqa: BLE001
                    pass

            self.ops.append(asyncio.ensure_future(op()))
            self.ctx.count("pairings_refused_operations")
        elif kind == "close":
            if self.closed_at is None:
                self.closed_at = now
            await w.pairing.close()
        elif kind == "shutdown":
            if self.shutdown_at is None:
                self.shutdown_at = now
            if self.closed_at is None:
                self.closed_at = now
            await w.pairing.shutdown()

    def current_hosts(self):
        return list(getattr(self, "_advertised", self.hosts))

    # ---- trace specification ------------------------------------------------------------------------
    def analyze(self) -> None:
        ctx = self.ctx
        acts = [a for a in self.log.activations if a["t1"] is not None]
        net = self.w.net
        ctx.count("attempts_logged", len(acts))
        nhosts_max = max([len(self.hosts)] + [len(h) for _, h in self.host_changes])

        def wake_between(t_a, t_b):
            return [x for x in self.wakeups if t_a - EPS <= x <= t_b + EPS]

        # candidate list and connected host of every activation
        for a in acts:
            calls = net.attempts[a["net_attempt0"] :]
            calls = [c for c in calls if c.t_start >= a["t0"] - 1e-9 and c.t_start <= a["t1"] + 1e-9]
            a["candidates"] = calls[0].hosts if calls else []
            a["connected_host"] = next((c.connected_host for c in calls if c.connected_host), None)
            for c in calls:
                if not c.hosts:
                    self.violation("S7-empty-candidate-list", f"start_connection called with no candidate host at t={c.t_start - self.t0:.2f}")
                    return

        # S5 single connector / single attempt
        if self.log.max_active > 1 or net.max_in_progress > 1:
            self.violation("S5-concurrent-attempts", f"{self.log.max_active} _connect_once activations / {net.max_in_progress} start_connection calls in progress at once")
            return

        closed = self.closed_at
        used_immediate: set[str] = set()
        last_delay = None
        last_episode = None
        for a, b in zip(acts, acts[1:] + [None]):
            failed = a["exc"] is not None
            if not failed:
                last_delay = None
                continue
            if a["exc"] == "CancelledError":
                last_delay = None
                continue
            if closed is not None and a["t1"] >= closed - EPS:
                continue
            is_auth = a["exc"] == "AuthenticationError"
            if b is None or (closed is not None and b["t0"] >= closed - EPS and a["t1"] < closed):
                # no successor (before close): S1 / S4
                end = closed if closed is not None else self.t_end
                if is_auth:
                    ctx.count("auth_failures_ended_retries")
                    continue
                if end - a["t1"] > 60 + EPS + 0.5:
                    self.violation("S1-retries-stopped", f"attempt {a['i']} failed with {a['exc']} at t={a['t1'] - self.t0:.2f} and no further attempt started in the next {end - a['t1']:.0f} s")
                    return
                continue
            gap = b["t0"] - a["t1"]
            wakes = wake_between(a["t1"], b["t0"])
            if is_auth:
                if not wakes:
                    self.violation("S4-retry-after-authentication-failure", f"attempt {b['i']} started {gap:.2f} s after attempt {a['i']} ended with an authentication error, without any external trigger")
                    return
                ctx.count("auth_failures_ended_retries")
                last_delay = None
                continue
            ctx.count("backoff_gaps_checked")
            if gap > 60 + EPS:
                self.violation("S2-delay-exceeds-60s", f"{gap:.2f} s between the end of failed attempt {a['i']} and attempt {b['i']}")
                return
            if abs(gap - 60) < EPS:
                ctx.count("cap_60s_reached")
            if gap < 0.5 - EPS and not wakes:
                h = a["connected_host"]
                cand_b = b["candidates"]
                ok_move = (
                    a["exc"] == "IncorrectPairingIdError"
                    and h is not None
                    and h not in cand_b
                    and h not in used_immediate
                )
                if not ok_move:
                    self.violation(
                        "S3-immediate-retry",
                        f"attempt {b['i']} started {gap:.3f} s after attempt {a['i']} failed with {a['exc']} (host {h}, next candidates {cand_b},"
                        f" already moved on from {sorted(used_immediate)})",
                    )
                    return
                used_immediate.add(h)
                ctx.count("immediate_wrong_id_moves")
                continue
            # exclusions were cleared when a formerly excluded host is a candidate again
            if any(h in b["candidates"] for h in used_immediate):
                used_immediate.clear()
            if wakes:
                last_delay = None
                continue
            if last_delay is not None and gap < last_delay - EPS:
                self.violation("S2-backoff-decreased", f"delay {gap:.2f} s after attempt {a['i']} is shorter than the previous delay {last_delay:.2f} s within one connector episode")
                return
            last_delay = gap

        # busy-loop guard: failed attempts per 1 s window
        fails = [a["t1"] for a in acts if a["exc"] not in (None, "CancelledError")]
        for i, t in enumerate(fails):
            n = sum(1 for x in fails[i:] if x < t + 1.0)
            allowed = nhosts_max + len(wake_between(t, t + 1.0)) + 1
            if n > allowed:
                self.violation("S3-busy-loop", f"{n} failed attempts within one virtual second from t={t - self.t0:.2f} (allowed {allowed})")
                return

        # S1 after a lost established connection
        for c in self.w.accessory.conns:
            if c.secure and c.closed_at is not None and (closed is None or c.closed_at < closed - EPS):
                nxt = [a for a in self.log.activations if a["t0"] >= c.closed_at - EPS]
                if not nxt and self.t_end - c.closed_at > 60 + 1:
                    rec = self.log.activation_of_conn(c.index)
                    if rec is not None and rec["ok"]:
                        self.violation("S1-no-reconnect-after-loss", f"established connection {c.index} was lost at t={c.closed_at - self.t0:.2f}; no attempt in the following {self.t_end - c.closed_at:.0f} s")
                        return

        # S9 a connection the connector established is not torn down by the controller itself (ground truth: the accessory
        # side knows whether IT closed the connection): otherwise every "successful" attempt is followed by another one
        for c in self.w.accessory.conns:
            rec = self.log.activation_of_conn(c.index)
            if c.secure and rec is not None and rec["ok"] and c.closed_at is not None and not c.closed_by_accessory:
                if getattr(c, "refused_pairings_at", None) is not None:
                    ctx.count("connections_dropped_after_http_error_reply")  # the controller hangs up by design; S1 judges what follows
                    continue
                if closed is None or c.closed_at < closed - EPS:
                    self.violation("S9-established-connection-dropped-by-controller", f"connection {c.index} (attempt {rec['i']}, established at t={c.opened_at - self.t0:.2f}) was closed by the controller at t={c.closed_at - self.t0:.2f} although nothing asked for it")
                    return
                continue
            if c.secure and rec is not None and rec["ok"]:
                ctx.count("established_connections_left_alone")

        # S7 host coverage in all-wrong-id scenarios / after host change
        if self.per_host is not None and all(v == "wrong_id" for v in self.per_host.values()) and not self.triggers and len(acts) > 6:
            for h in self.hosts:
                idxs = [k for k, a in enumerate(acts) if h in a["candidates"]]
                gaps = [y - x for x, y in zip(idxs, idxs[1:])] + [len(acts) - idxs[-1] if idxs else len(acts)]
                if not idxs or max(gaps) > len(self.hosts) + 1:
                    self.violation("S7-host-starved", f"host {h} was a candidate in attempts {idxs[:12]} of {len(acts)}: longer than |hosts|+1 attempts without it")
                    return
        # S7b an address that answers with a foreign pairing id (ground truth: the accessory side served the other identity)
        # is set aside at once, so a paired accessory on another advertised address is reached after one attempt per
        # foreign address (only refusing addresses besides: those cost no attempt of their own)
        if self.per_host is not None and not self.triggers and set(self.per_host.values()) <= {"wrong_id", "ok", "refuse"} \
                and "ok" in self.per_host.values() and "wrong_id" in self.per_host.values():
            n_foreign = sum(1 for v in self.per_host.values() if v == "wrong_id")
            first_ok = next((k for k, a in enumerate(acts) if a["exc"] is None), None)
            if first_ok is None or first_ok > n_foreign:
                self.violation("S7-good-address-not-reached", f"hosts {self.per_host}: {len(acts)} attempts (outcomes {[a['exc'] for a in acts[:8]]}, connected hosts {[a['connected_host'] for a in acts[:8]]}); "
                               f"the paired accessory's address was {'never reached' if first_ok is None else 'reached only at attempt %d' % first_ok}")
                return
            ctx.count("foreign_addresses_set_aside")
        for t_change, new_hosts in self.host_changes:
            if closed is not None and t_change >= closed - EPS:
                continue
            nxt = [a for a in acts if a["t0"] >= t_change - 1e-9 and a["candidates"]]
            if nxt and abs(nxt[0]["t0"] - t_change) <= 1e-9 and sorted(nxt[0]["candidates"]) != sorted(new_hosts):
                # an attempt that starts at the very instant of the change may have been started by a back-off timer that
                # fired BEFORE the update in program order (random timelines do land on 0.75 s, the second delay): which of the
                # two came first cannot be told from the time stamps - not judged
                ctx.count("host_change_ties_not_judged")
                continue
            if nxt:
                ctx.count("host_change_checks")
                if sorted(nxt[0]["candidates"]) != sorted(new_hosts):
                    self.violation("S7-host-change-not-honoured", f"advertised addresses changed to {new_hosts} at t={t_change - self.t0:.2f}; next attempt considered {nxt[0]['candidates']}")
                    return

        # S8 nothing after shutdown (description updates included); nothing after close() until an external trigger
        if closed is not None:
            ctx.count("no_attempt_after_close_checks")
            if self.shutdown_at is not None:
                later = [a for a in self.log.activations if a["t0"] > self.shutdown_at + EPS]
                if later:
                    n_trig = len([x for x in self.wakeups if x > self.shutdown_at + EPS])
                    self.violation("S8-attempt-after-shutdown", f"{len(later)} connection attempt(s) after shutdown() (first at +{later[0]['t0'] - self.shutdown_at:.2f} s; description updates after shutdown: {n_trig})")
                    return
            # any trigger strictly after the close counts, however soon (a random timeline may put one 10 ms later)
            # (a trigger ON the instant of the close counts whichever came first in program order: a caller's task created just
            # before close() only runs after it)
            trig_after = [x for x in self.wakeups if x >= closed - 1e-9]
            until = min(trig_after) if trig_after else float("inf")
            if self.shutdown_at is not None and self.shutdown_at > closed:
                until = min(until, self.shutdown_at)
            later = [a for a in self.log.activations if closed + 1e-9 < a["t0"] < until - 1e-9]
            if later:
                self.violation("S8-attempt-after-close", f"{len(later)} connection attempt(s) after close() without any external trigger (first at +{later[0]['t0'] - closed:.2f} s)")
                return

        # S6 waiting callers
        from aiohomekit.exceptions import AccessoryDisconnectedError, AuthenticationError

        for wt in self.waiters:
            if closed is not None and wt["t0"] >= closed - EPS:
                continue
            ctx.count("waiters_checked")
            dur = (wt["t1"] - wt["t0"]) if wt["t1"] is not None else None
            if dur is None:
                self.violation("S6-waiter-hangs", f"{wt['kind']} started at t={wt['t0'] - self.t0:.2f} never completed")
                return
            bound = {"wait": 10, "wait_own_timeout": 3, "wait_cancel": 2}[wt["kind"]]
            if dur > bound + EPS:
                self.violation("S6-waiter-too-late", f"{wt['kind']} completed after {dur:.2f} s (bound {bound} s)")
                return
            exc = wt["exc"]
            if wt["kind"] == "wait":
                if exc is not None and not isinstance(exc, (AccessoryDisconnectedError, AuthenticationError)):
                    if not (closed is not None and isinstance(exc, asyncio.CancelledError)):
                        self.violation("S6-waiter-wrong-exception", f"waiter raised {type(exc).__name__}: {exc}")
                        return
                if exc is None and not wt.get("connected_at_end") and self.shutdown_at is None:
                    self.violation("S6-waiter-returned-unconnected", "the waiter returned normally although no connection exists")
                    return
            # the background connector must survive the waiter's timeout / cancellation
            if exc is not None and not isinstance(exc, AuthenticationError) and closed is None:
                after = [a for a in self.log.activations if a["t0"] >= wt["t1"] - EPS or (a["t1"] is not None and a["t1"] >= wt["t1"])]
                connected = self.w.connection.is_connected
                if not after and not connected and self.t_end - wt["t1"] > 61:
                    self.violation("S6-connector-aborted-by-waiter", f"no attempt after the {wt['kind']} caller gave up at t={wt['t1'] - self.t0:.2f}")
                    return


# ---------------------------------------------------------------------------------------------
# scenario generators
# ---------------------------------------------------------------------------------------------


def gen_single(ctx):
    depth = ctx.pick(3, 4)
    for n in range(1, depth + 1):
        for seq in itertools.product(OUTCOMES, repeat=n):
            for tail in ("refuse", "ok"):
                if "wrong_id" in seq:
                    hosts = ["10.0.0.5", "10.0.0.6"]
                else:
                    hosts = ["10.0.0.5"]
                yield {"hosts": hosts, "plan": list(seq), "tail": tail, "horizon": 45 * n + 130}


def gen_multi(ctx):
    beh = ["wrong_id", "refuse", "ok", "blackhole", "bad_sig"]
    for hosts in (["10.0.0.5", "10.0.0.6"], ["10.0.0.5", "fd00::6"], ["10.0.0.5", "10.0.0.6", "fd00::7"]):
        for assign in itertools.product(beh, repeat=len(hosts)):
            yield {"hosts": hosts, "per_host": dict(zip(hosts, assign)), "horizon": 420}


BASES = [
    {"plan": [], "tail": "refuse"},
    {"plan": ["refuse", "refuse", "refuse"], "tail": "ok"},
    {"plan": ["blackhole", "bad_sig"], "tail": "refuse"},
    {"plan": ["m4_err:2"], "tail": "refuse"},
    {"plan": ["m4_errc:2"], "tail": "ok"},
    {"plan": ["refuse", "m2_errc:2"], "tail": "ok"},
    {"plan": ["ok_drop:7"], "tail": "refuse"},
    {"plan": ["wrong_id", "refuse"], "tail": "refuse", "hosts": ["10.0.0.5", "10.0.0.6"]},
    {"plan": ["close_m2", "garbage"], "tail": "ok"},
]
TRIGGERS = ["reconnect_soon", "update_same", "update_hosts", "update_port", "wait", "wait_own_timeout", "wait_cancel", "close", "shutdown", "list_pairings"]


def gen_triggers(ctx, rng):
    times = [0.0, 0.3, 0.8, 1.5, 2.6, 4.5, 9.0, 12.0, 20.0, 40.0, 70.0]
    for bi, base in enumerate(BASES):
        hosts = base.get("hosts", ["10.0.0.5"])
        for trig in TRIGGERS:
            for t in times:
                if trig == "update_hosts":
                    arg = [hosts[0], "10.0.0.9"] if int(t * 10) % 2 else ["10.0.0.9"]
                elif trig == "update_port":
                    arg = 51827
                else:
                    arg = None
                triggers = [(t, trig, arg)]
                if trig == "shutdown":
                    triggers.append((t + 5.0, "update_same", None))
                    triggers.append((t + 9.0, "reconnect_soon", None))
                yield {"hosts": hosts, "plan": base["plan"], "tail": base["tail"], "triggers": triggers, "horizon": t + 200}
    # seeded random multi-trigger timelines
    for k in range(ctx.pick(600, 80000)):
        base = rng.choice(BASES)
        hosts = base.get("hosts", ["10.0.0.5"])
        n = rng.randint(1, 4)
        triggers = []
        for _ in range(n):
            trig = rng.choice(TRIGGERS)
            t = round(rng.choice([rng.uniform(0, 5), rng.uniform(0, 80), rng.uniform(0, 30)]), 3)
            arg = [hosts[0], "10.0.0.9"] if trig == "update_hosts" else (51827 if trig == "update_port" else None)
            triggers.append((t, trig, arg))
        plan = list(base["plan"]) + [rng.choice(OUTCOMES) for _ in range(rng.randint(0, 3))]
        yield {"hosts": hosts + (["10.0.0.6"] if "wrong_id" in plan and len(hosts) == 1 else []), "plan": plan, "tail": rng.choice(["refuse", "ok"]), "triggers": triggers, "horizon": 260}


def gen_subscribed(ctx):
    """Pairings that hold subscriptions: the connector re-subscribes before it finishes, so a loss can fall INSIDE it."""
    drops = ["ok_subdrop", "ok_subreset", "ok_m4drop", "ok_drop:0.5"]
    for n in (1, 2, 3):
        for seq in itertools.product(drops + ["refuse", "bad_sig"], repeat=n):
            if not any(o in drops for o in seq):
                continue
            for tail in ("ok", "refuse", "ok_subdrop"):
                yield {"hosts": ["10.0.0.5"], "plan": list(seq), "tail": tail, "subscribed": True, "horizon": 60 * n + 200}
    for trig, t in (("wait", 3.0), ("reconnect_soon", 20.0), ("update_same", 90.0), ("close", 30.0)):
        yield {"hosts": ["10.0.0.5"], "plan": ["ok_subdrop"], "tail": "ok", "subscribed": True, "triggers": [(t, trig, None)], "horizon": 300}


def gen_error_then_hangup(ctx):
    """The accessory answers a pair-verify step with an error code AND hangs up at once (reply and FIN back to back): the error
    code decides - Authentication ends the retries, anything else is an ordinary failed attempt."""
    for first in ("m4_errc:2", "m2_errc:2", "m4_errc:6", "m2_errc:3"):
        for pre in ([], ["refuse"], ["ok_drop:0.5"]):
            for tail in ("ok", "refuse"):
                yield {"hosts": ["10.0.0.5"], "plan": pre + [first], "tail": tail, "horizon": 400}


def gen_long(ctx):
    # reach the 60 s cap (12+ failures) and stay there: 2 h of virtual time
    for tail_plan in (["refuse"] * 2, ["blackhole"], ["bad_sig", "close_m2"], ["garbage"]):
        yield {"hosts": ["10.0.0.5"], "plan": tail_plan, "tail": tail_plan[-1], "horizon": 7200}
    yield {"hosts": ["10.0.0.5", "10.0.0.6"], "per_host": {"10.0.0.5": "wrong_id", "10.0.0.6": "wrong_id"}, "horizon": 7200}
    # an outage of two days: thousands of consecutive failures of ONE connector run (whatever the delay is computed from)
    yield {"hosts": ["10.0.0.5"], "plan": ["refuse"], "tail": "refuse", "horizon": 48 * 3600}


async def run_one(ctx, desc) -> None:
    sc = Scenario(ctx, desc)
    nontrivial = bool(desc.get("plan")) or desc.get("per_host") is not None or desc.get("tail") == "refuse"
    kind = "subscribed" if desc.get("subscribed") else "multi" if desc.get("per_host") else ("trig" if desc.get("triggers") else "seq%d" % len(desc.get("plan", [])))
    ctx.case(repr(desc), nontrivial=nontrivial, sample=desc, kind=kind)
    await sc.run()


def all_scenarios(ctx):
    rng = ctx.grng("C10.triggers")
    return itertools.chain(gen_long(ctx), gen_error_then_hangup(ctx), gen_subscribed(ctx), gen_multi(ctx), gen_triggers(ctx, rng), gen_single(ctx))


def run(ctx) -> None:
    from vf import vloop

    async def main():
        for idx, desc in enumerate(all_scenarios(ctx)):
            if ctx.mine(idx):
                await run_one(ctx, desc)
        ctx.exhaustive_parts[f"single-host outcome sequences to depth {ctx.pick(3, 4)}; all per-host assignments for 2-3 hosts; every base x trigger x gap"] = True

    vloop.run(main())


def replay(ctx, d) -> None:
    from vf import vloop

    desc = d["desc"]
    if "triggers" in desc:
        desc["triggers"] = [tuple(t) for t in desc["triggers"]]
    vloop.run(run_one(ctx, desc))
