"""C05 Encrypted IP session framing is exact outbound and segmentation-proof inbound.

Real code: SecureHomeKitProtocol.send_bytes / data_received (fast path on a stub transport) and the same
protocol on a real asyncio transport over a socketpair (teardown slice, vf.simnet).
Oracle: vf.ref.session (independent encoder/decoder, OpenSSL AEAD).
"""

from __future__ import annotations

import asyncio
import itertools

from vf.ref import session as refsession

PROPERTY_ID = "C05"
LEVEL = "exploration"
RULE = (
    "cases = outbound payload lengths {0,1,1023,1024,1025,2047,2048,2049,3072,3073,...} + random <= 20000 decoded by the"
    " reference accessory; inbound plaintext streams of 1..150 bytes x accessory frame-size partitions x EVERY single and"
    " double cut of the ciphertext stream (small streams) / random multi-cuts, 1-byte dribble and exact-1024 frames (large"
    " streams <= 40 kB); corruption: EVERY single-bit flip of the length prefix, ciphertext and tag of frame k in n-frame"
    " streams; real-transport slice: corrupted frame on a socketpair transport must close the connection and fail the"
    " pending request. Distinct by (keys, plaintext, partition, cuts / flipped bit); non-trivial = ciphertext is cut at"
    " least once or corrupted, or the outbound payload is non-empty."
)
ASSUMPTIONS = [
    "reference framing: LE16 length as AAD, nonce = 4x00|LE64 counter from 0, <=1024 plaintext bytes per frame",
    "a length-prefix flip that announces more bytes than ever arrive cannot be detected by anyone: then only 'nothing further is delivered' is required",
]
SHARDS = {"quick": 8, "thorough": 16}
TIMEOUT = {"quick": 600, "thorough": 3600}
MIN_CASES = {"quick": 50_000, "thorough": 250_000}
REQUIRED_COUNTERS = ["outbound_decoded", "inbound_deliveries_checked", "corruptions_rejected", "real_transport_teardowns", "real_transport_idle_teardowns", "inbound_reads_over_64k", "outbound_pipelined_decoded", "request_level_schedules"]

OUT_LENGTHS = [0, 1, 2, 1023, 1024, 1025, 2047, 2048, 2049, 3071, 3072, 3073, 4096, 5000, 10240, 10241]
OK_RESPONSE = b"HTTP/1.1 204 No Content\r\n\r\n"


class StubTransport:
    def __init__(self):
        self.calls = []
        self._closing = False

    def is_closing(self):
        return self._closing

    def writelines(self, lines):
        self.calls.append(("writelines", [bytes(x) for x in lines]))

    def write(self, data):
        self.calls.append(("write", [bytes(data)]))

    def write_eof(self):
        self.calls.append(("write_eof", []))

    def close(self):
        self._closing = True
        self.calls.append(("close", []))


class StubConnection:
    def __init__(self):
        self.events = []
        self.lost = []

    def event_received(self, resp):
        self.events.append(resp)

    def _connection_lost(self, exc):
        self.lost.append(exc)


def keys_for(rng):
    return rng.randbytes(32), rng.randbytes(32)


async def check_outbound(ctx, rng, lengths) -> None:
    from aiohomekit.controller.ip.connection import SecureHomeKitProtocol

    a2c, c2a = keys_for(rng)
    proto = SecureHomeKitProtocol(StubConnection(), a2c, c2a)
    tr = StubTransport()
    proto.connection_made(tr)
    dec = refsession.Decoder(c2a)
    enc = refsession.Encoder(a2c)
    for ln in lengths:
        payload = rng.randbytes(ln)
        ctx.case("out", ln, payload[:16], nontrivial=ln > 0, sample={"part": "outbound", "payload_len": ln}, kind="out")
        replay = {"part": "out", "lengths": list(lengths)}
        before = len(tr.calls)
        task = asyncio.ensure_future(proto.send_bytes(payload))
        for _ in range(3):
            await asyncio.sleep(0)
        written = [c for c in tr.calls[before:] if c[0] in ("write", "writelines")]
        raw = b"".join(b"".join(c[1]) for c in written)
        try:
            frames = dec.feed(raw)
        except refsession.DecodeError as ex:
            ctx.violation("outbound-frame-rejected-by-reference", f"payload_len={ln}: {ex}", replay)
            task.cancel()
            return
        if dec.buf:
            ctx.violation("outbound-trailing-bytes", f"payload_len={ln}: {len(dec.buf)} bytes after the last whole frame", replay)
            task.cancel()
            return
        if b"".join(frames) != payload:
            ctx.violation("outbound-plaintext-differs", f"payload_len={ln}: accessory decrypts {sum(map(len, frames))} bytes != payload", replay)
            task.cancel()
            return
        if any(len(f) > 1024 for f in frames):
            ctx.violation("outbound-frame-too-large", f"payload_len={ln}: frame sizes {[len(f) for f in frames]}", replay)
        want_frames = (ln + 1023) // 1024
        if len(frames) != want_frames:
            ctx.count("outbound_nonmaximal_frames")  # recorded only: the statement says 'at most 1024'
        ctx.count("outbound_decoded")
        # answer so that the request completes (also exercises inbound with the same session)
        for fr in enc.frames(OK_RESPONSE):
            proto.data_received(fr)
        try:
            resp = await asyncio.wait_for(task, 5)
        except Exception as ex:
            ctx.violation(f"request-after-framing-fails-{type(ex).__name__}", f"payload_len={ln}: {ex!r}", replay)
            return
        if resp.code != 204:
            ctx.violation("response-code-differs", f"got {resp.code}", replay)


async def check_outbound_pipelined(ctx, rng, lengths) -> None:
    """Several requests handed to one session before ANY of them is answered (the protocol keeps a FIFO of outstanding
    requests for exactly that): the accessory must decrypt all their frames in the order they were written."""
    from aiohomekit.controller.ip.connection import SecureHomeKitProtocol

    a2c, c2a = keys_for(rng)
    proto = SecureHomeKitProtocol(StubConnection(), a2c, c2a)
    tr = StubTransport()
    proto.connection_made(tr)
    dec = refsession.Decoder(c2a)
    enc = refsession.Encoder(a2c)
    payloads = [rng.randbytes(ln) for ln in lengths]
    ctx.case("outp", tuple(lengths), payloads[0][:8], sample={"part": "outbound, pipelined", "payload_lens": list(lengths)}, kind="outp")
    replay = {"part": "outp", "lengths": list(lengths)}
    tasks = []
    for pl in payloads:
        tasks.append(asyncio.ensure_future(proto.send_bytes(pl)))
        for _ in range(2):
            await asyncio.sleep(0)
    raw = b"".join(b"".join(c[1]) for c in tr.calls if c[0] in ("write", "writelines"))
    try:
        frames = dec.feed(raw)
    except refsession.DecodeError as ex:
        ctx.violation("outbound-frame-rejected-by-reference", f"{len(payloads)} requests outstanding at once (lengths {list(lengths)}): {ex}", replay)
        for t in tasks:
            t.cancel()
        return
    if b"".join(frames) != b"".join(payloads) or dec.buf:
        ctx.violation("outbound-plaintext-differs", f"{len(payloads)} requests outstanding at once: accessory decrypts {sum(map(len, frames))} bytes != {sum(lengths)} written", replay)
        for t in tasks:
            t.cancel()
        return
    ctx.count("outbound_pipelined_decoded")
    for _ in payloads:
        for fr in enc.frames(OK_RESPONSE):
            proto.data_received(fr)
    for t in tasks:
        try:
            resp = await asyncio.wait_for(t, 5)
            if resp.code != 204:
                ctx.violation("response-code-differs", f"got {resp.code}", replay)
        except Exception as ex:  # noqa: BLE001
            ctx.violation(f"request-after-framing-fails-{type(ex).__name__}", f"pipelined lengths {list(lengths)}: {ex!r}", replay)
            return
    # and the session goes on: one more request after the burst
    await check_outbound_tail(ctx, proto, tr, dec, enc, rng, replay)


async def check_outbound_tail(ctx, proto, tr, dec, enc, rng, replay) -> None:
    payload = rng.randbytes(rng.choice([1, 1024, 1500]))
    before = len(tr.calls)
    task = asyncio.ensure_future(proto.send_bytes(payload))
    for _ in range(3):
        await asyncio.sleep(0)
    raw = b"".join(b"".join(c[1]) for c in tr.calls[before:] if c[0] in ("write", "writelines"))
    try:
        frames = dec.feed(raw)
    except refsession.DecodeError as ex:
        ctx.violation("outbound-frame-rejected-by-reference", f"request after a pipelined burst: {ex}", replay)
        task.cancel()
        return
    if b"".join(frames) != payload:
        ctx.violation("outbound-plaintext-differs", "request after a pipelined burst decrypts to something else", replay)
    for fr in enc.frames(OK_RESPONSE):
        proto.data_received(fr)
    try:
        await asyncio.wait_for(task, 5)
    except Exception:  # noqa: BLE001
        pass


class Spy:
    """Records the plaintext handed from the framing layer to the HTTP layer (no call-through)."""

    def __init__(self):
        self.deliveries: list[bytes] = []

    def install(self, call_through=False):
        from aiohomekit.controller.ip import connection as conn

        self._cls = conn.InsecureHomeKitProtocol
        self._orig = self._cls.data_received
        spy = self
        orig = self._orig

        def data_received(proto, data):
            spy.deliveries.append(bytes(data))
            if call_through:
                return orig(proto, data)

        self._cls.data_received = data_received

    def remove(self):
        self._cls.data_received = self._orig


def feed_inbound(proto_factory, spy, stream: bytes, cuts):
    """Feed stream cut at `cuts`; return (deliveries, exception or None, bytes fed before the exception)."""
    proto = proto_factory()
    spy.deliveries = []
    bounds = [0, *cuts, len(stream)]
    fed = 0
    for a, b in zip(bounds, bounds[1:]):
        if a == b:
            continue
        try:
            proto.data_received(stream[a:b])
        except Exception as ex:  # noqa: BLE001
            return list(spy.deliveries), ex, b
        fed = b
    return list(spy.deliveries), None, fed


def check_inbound_clean(ctx, factory, spy, a2c, plaintext, sizes, cuts, replay) -> bool:
    enc = refsession.Encoder(a2c)
    frames = enc.frames(plaintext, sizes)
    stream = b"".join(frames)
    want = []
    i = 0
    k = 0
    while i < len(plaintext):
        size = max(1, min(1024, sizes[k % len(sizes)] if sizes else 1024))
        want.append(plaintext[i : i + size])
        i += size
        k += 1
    got, exc, _ = feed_inbound(factory, spy, stream, cuts)
    ctx.count("inbound_deliveries_checked", len(got))
    if exc is not None:
        ctx.violation(f"inbound-raises-{type(exc).__name__}", f"genuine stream len={len(stream)} frames={len(frames)} cuts={list(cuts)[:10]}: {exc!r}", replay)
        return False
    if b"".join(got) != plaintext:
        ctx.violation(
            "inbound-plaintext-differs",
            f"len(pt)={len(plaintext)} sizes={sizes[:6] if sizes else None} cuts={list(cuts)[:10]}: delivered {len(b''.join(got))} bytes in {len(got)} pieces",
            replay,
        )
        return False
    if got != want:
        ctx.violation("inbound-frame-boundaries-differ", f"delivered pieces {[len(g) for g in got][:10]} != frames {[len(w) for w in want][:10]}", replay)
        return False
    return True


def partitions_small(n):
    """All compositions of n for n <= 5, a structured subset otherwise."""
    if n <= 5:
        out = []
        for mask in range(1 << (n - 1)):
            sizes, run = [], 1
            for b in range(n - 1):
                if mask >> b & 1:
                    sizes.append(run)
                    run = 1
                else:
                    run += 1
            sizes.append(run)
            out.append(sizes)
        return out
    return [[n], [1], [2], [1, n], [n - 1, 1], [3, 1, 2], [max(1, n // 2)]]


async def run_inbound_small(ctx) -> None:
    from aiohomekit.controller.ip.connection import SecureHomeKitProtocol

    spy = Spy()
    spy.install()
    try:
        lengths = ctx.pick([1, 2, 3, 4, 5, 6, 9, 17, 40, 100, 150], list(range(1, 21)) + [24, 33, 40, 48, 64, 80, 100, 128, 150])
        idx = 0
        for n in lengths:
            for sizes in partitions_small(n):
                idx += 1
                if not ctx.mine(idx):
                    continue
                rng = ctx.grng("C05.small", n, tuple(sizes))
                a2c, c2a = keys_for(rng)
                pt = rng.randbytes(n)
                factory = lambda: SecureHomeKitProtocol(StubConnection(), a2c, c2a)  # noqa: E731
                enc_len = n + 18 * len(refsession.Encoder(a2c).frames(pt, sizes))
                sample = {"part": "inbound", "plaintext_len": n, "frame_sizes": sizes[:8], "ciphertext_len": enc_len}
                rp = {"part": "in", "n": n, "sizes": sizes}
                ok = True
                if enc_len <= 190:
                    for c1 in range(1, enc_len):
                        ctx.case("in", n, tuple(sizes), (c1,), sample={**sample, "cuts": [c1]}, kind="in1")
                        ok = check_inbound_clean(ctx, factory, spy, a2c, pt, sizes, (c1,), {**rp, "cuts": [c1]})
                        if not ok:
                            break
                    if ok:
                        for c1, c2 in itertools.combinations(range(1, enc_len), 2):
                            ctx.case("in", n, tuple(sizes), (c1, c2), sample={**sample, "cuts": [c1, c2]}, kind="in2")
                            ok = check_inbound_clean(ctx, factory, spy, a2c, pt, sizes, (c1, c2), {**rp, "cuts": [c1, c2]})
                            if not ok:
                                break
                else:
                    for c1 in range(1, enc_len):
                        ctx.case("in", n, tuple(sizes), (c1,))
                        if not check_inbound_clean(ctx, factory, spy, a2c, pt, sizes, (c1,), {**rp, "cuts": [c1]}):
                            break
                    for _ in range(200):
                        cuts = tuple(sorted(rng.sample(range(1, enc_len), rng.randint(2, 12))))
                        ctx.case("in", n, tuple(sizes), cuts)
                        if not check_inbound_clean(ctx, factory, spy, a2c, pt, sizes, cuts, {**rp, "cuts": list(cuts)}):
                            break
                # dribble
                ctx.case("in", n, tuple(sizes), "dribble")
                check_inbound_clean(ctx, factory, spy, a2c, pt, sizes, tuple(range(1, enc_len)), {**rp, "cuts": "dribble"})
        ctx.exhaustive_parts["inbound: every 1-/2-cut of every small ciphertext stream (<=190 bytes)"] = True

        # large streams
        for k in range(ctx.pick(48, 6000)):
            if not ctx.mine(k):
                continue
            rng = ctx.grng("C05.large", k)
            a2c, c2a = keys_for(rng)
            n = rng.choice([1024, 1025, 2048, 2049, 3000, 8192, 20000, 40000])
            pt = rng.randbytes(n)
            sizes = rng.choice([[1024], [1], [1023, 1], [1024, 1], [512], [rng.randint(1, 1024) for _ in range(7)], [2, 1024]])
            if sizes == [1] and n > 3000:
                n = 3000
                pt = pt[:n]
            factory = lambda: SecureHomeKitProtocol(StubConnection(), a2c, c2a)  # noqa: E731
            enc_len = len(b"".join(refsession.Encoder(a2c).frames(pt, sizes)))
            rp = {"part": "inl", "k": k}
            for trial in range(ctx.pick(12, 40)):
                if trial == 0:
                    cuts = tuple(range(1, enc_len)) if enc_len < 6000 else tuple(range(1, enc_len, 7))
                else:
                    cuts = tuple(sorted(rng.sample(range(1, enc_len), rng.randint(2, 20))))
                ctx.case("inl", k, trial, sample={"part": "inbound-large", "plaintext_len": n, "frame_sizes": sizes[:8], "n_cuts": len(cuts)}, kind="inl")
                if not check_inbound_clean(ctx, factory, spy, a2c, pt, sizes, cuts, {**rp, "trial": trial}):
                    break
        # very large reads: asyncio hands over up to 256 KiB per recv, so one read may carry dozens of complete frames
        for k in range(ctx.pick(8, 200)):
            if not ctx.mine(k):
                continue
            rng = ctx.grng("C05.huge", k)
            a2c, c2a = keys_for(rng)
            n = rng.choice([66000, 70000, 131072, 200000, 262144, 300000])
            pt = rng.randbytes(n)
            sizes = rng.choice([[1024], [1024], [1000], [512, 1024], [rng.randint(200, 1024) for _ in range(5)]])
            factory = lambda: SecureHomeKitProtocol(StubConnection(), a2c, c2a)  # noqa: E731
            enc_len = len(b"".join(refsession.Encoder(a2c).frames(pt, sizes)))
            for trial, cuts in enumerate([(), (65536,), (65553,), (65554,), (enc_len - 1,), tuple(sorted(rng.sample(range(1, enc_len), 2))), tuple(range(262144, enc_len, 262144))]):
                ctx.case("inh", k, trial, sample={"part": "inbound-huge-reads", "plaintext_len": n, "frame_sizes": sizes[:8], "cuts": list(cuts)}, kind="inh")
                ctx.count("inbound_reads_over_64k")
                if not check_inbound_clean(ctx, factory, spy, a2c, pt, sizes, cuts, {"part": "inl", "k": k, "trial": trial}):
                    break
    finally:
        spy.remove()


def check_corruption(ctx, factory, spy, a2c, frames_pt, k, bitpos, split_mode, replay) -> None:
    enc = refsession.Encoder(a2c)
    frames = [enc.frame(p) for p in frames_pt]
    start = sum(len(f) for f in frames[:k])
    stream = bytearray(b"".join(frames))
    stream[start + bitpos // 8] ^= 1 << (bitpos % 8)
    stream = bytes(stream)
    in_prefix = bitpos < 16
    if split_mode == 0:
        cuts = ()
    elif split_mode == 1:
        cuts = (start + bitpos // 8,) if start + bitpos // 8 > 0 else ()
    else:
        cuts = tuple(range(1, len(stream)))
    got, exc, _ = feed_inbound(factory, spy, stream, cuts)
    want = [bytes(p) for p in frames_pt[:k]]
    if got != want:
        key = "corrupted-frame-delivered" if len(got) > len(want) else "frames-before-corruption-lost"
        ctx.violation(key, f"frame {k}/{len(frames_pt)} bit {bitpos} flipped ({'length prefix' if in_prefix else 'ciphertext/tag'}): delivered {[len(g) for g in got]} want {[len(w) for w in want]}", replay)
        return
    must_raise = True
    if in_prefix:
        new_len = int.from_bytes(stream[start : start + 2], "little")
        must_raise = len(stream) - start >= 2 + new_len + 16
    if must_raise and exc is None:
        ctx.violation("corruption-does-not-end-session", f"frame {k} bit {bitpos}: data_received returned normally after an unauthentic block", replay)
        return
    if exc is not None and not must_raise:
        ctx.count("raised_early")
    if exc is not None:
        ctx.count("corruptions_rejected")
    else:
        ctx.count("corruptions_starved")


async def run_corruption(ctx) -> None:
    from aiohomekit.controller.ip.connection import SecureHomeKitProtocol

    spy = Spy()
    spy.install()
    try:
        shapes = ctx.pick(
            [[1], [5], [3, 4], [2, 1, 3], [20, 1], [1, 1, 1, 1]],
            [[1], [2], [5], [3, 4], [2, 1, 3], [20, 1], [1, 1, 1, 1], [64, 3], [7, 7, 7], [1, 30, 1], [100]],
        )
        idx = 0
        for shape in shapes:
            for k in range(len(shape)):
                nbits = (2 + shape[k] + 16) * 8
                for bitpos in range(nbits):
                    idx += 1
                    if not ctx.mine(idx):
                        continue
                    rng = ctx.grng("C05.corrupt", tuple(shape))
                    a2c, c2a = keys_for(rng)
                    pts = [rng.randbytes(n) for n in shape]
                    factory = lambda: SecureHomeKitProtocol(StubConnection(), a2c, c2a)  # noqa: E731
                    for split_mode in (0, 1, 2):
                        ctx.case("corrupt", tuple(shape), k, bitpos, split_mode,
                                 sample={"part": "corruption", "frame_plaintext_sizes": shape, "frame": k, "flipped_bit": bitpos, "split": split_mode}, kind="corrupt")
                        check_corruption(ctx, factory, spy, a2c, pts, k, bitpos, split_mode,
                                         {"part": "corrupt", "shape": shape, "k": k, "bit": bitpos, "split": split_mode})
        ctx.exhaustive_parts["corruption: every single-bit flip of every frame of the listed small shapes"] = True
        # large frames: sampled bits
        for t in range(ctx.pick(40, 6000)):
            if not ctx.mine(t):
                continue
            rng = ctx.grng("C05.corrupt.large", t)
            shape = rng.choice([[1024], [1024, 1024], [1000, 24], [1024, 1]])
            k = rng.randrange(len(shape))
            a2c, c2a = keys_for(rng)
            pts = [rng.randbytes(n) for n in shape]
            factory = lambda: SecureHomeKitProtocol(StubConnection(), a2c, c2a)  # noqa: E731
            for _ in range(30):
                bitpos = rng.randrange((2 + shape[k] + 16) * 8)
                ctx.case("corruptL", t, k, bitpos)
                check_corruption(ctx, factory, spy, a2c, pts, k, bitpos, rng.choice([0, 1]), {"part": "corruptL", "t": t})
    finally:
        spy.remove()


async def run_real_transport(ctx) -> None:
    """Corrupted frame on a real asyncio transport: connection closed, pending request fails, nothing delivered."""
    from vf import simnet

    n = ctx.pick(24, 2000)
    for t in range(n):
        if not ctx.mine(t):
            continue
        rng = ctx.grng("C05.real", t)
        await simnet.scenario_corrupt_frame(ctx, rng, t)


async def _main(ctx, only=None) -> None:
    rng = ctx.rng("C05.out")
    lengths = list(OUT_LENGTHS) + [rng.randrange(0, 20001) for _ in range(ctx.pick(12, 120))]
    # one long-lived session (counters keep running) per shard + one fresh session per length
    mine = [ln for i, ln in enumerate(lengths) if ctx.mine(i)]
    await check_outbound(ctx, rng, mine)
    for ln in mine[:6]:
        await check_outbound(ctx, rng, [ln])
    for k in range(ctx.pick(6, 200)):
        if ctx.mine(k):
            r2 = ctx.grng("C05.outp", k)
            await check_outbound_pipelined(ctx, r2, [r2.choice([1, 100, 1023, 1024, 1025, 2048, 2500, 5000]) for _ in range(r2.choice([2, 2, 3, 4]))])
    await run_inbound_small(ctx)
    await run_corruption(ctx)
    await run_real_transport(ctx)
    await run_request_level(ctx)


# callers that give up while QUEUED for their turn on the session (Q), while in flight (C), timers (T), time passing (W):
# whatever the callers do, the frames that reach the accessory authenticate at consecutive counters
REQUEST_LEVEL_SCHEDULES = ["RRQARA", "RRRQQARARA", "RRQAWRAEA", "RRQRAAA", "RRCRA", "RRRQARQARA", "RQRA", "RRQTRA", "RRAQRAFRA", "RRQQRRAAQRA",
                           "RAVARA", "VAVAVA", "RVVAARA", "VARVAA", "VVVVAAAA", "RAVAVAVAVA"]


async def run_request_level(ctx) -> None:
    """The session as HomeKitConnection.request drives it (real connection, simulated accessory with the reference decoder):
    the scenario machinery and its ground-truth oracles are C08's; what is judged HERE is the outbound frame stream -
    key request-stream-rejected-by-accessory."""
    from vf.props import c08

    for k, schedule in enumerate(REQUEST_LEVEL_SCHEDULES):
        for api in ("connection", "pairing"):
            for rep in range(4 if "V" in schedule else 1):  # V picks a random moment of the reconnect: several draws
                if not ctx.mine(k):
                    continue
                ctx.case("request-level", schedule, api, rep, sample={"part": "request-level", "schedule": schedule, "api": api}, kind="request-level")
                await c08.Scenario(ctx, schedule, api, ("C05", k, api, rep)).run()
                ctx.count("request_level_schedules")


def run(ctx) -> None:
    from vf import vloop

    vloop.run(_main(ctx))


def replay(ctx, d) -> None:
    # replays re-run the (deterministic, seed-derived) part the witness came from
    from vf import vloop

    async def go():
        part = d["part"]
        if part == "outp":
            await check_outbound_pipelined(ctx, ctx.rng("C05.outp.replay"), d["lengths"])
        elif part == "out":
            await check_outbound(ctx, ctx.rng("C05.out"), d["lengths"])
        elif part in ("in", "inl"):
            await run_inbound_small(ctx)
        elif part in ("corrupt", "corruptL"):
            await run_corruption(ctx)
        else:
            await run_real_transport(ctx)

    vloop.run(go())
