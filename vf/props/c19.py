"""C19 Device waiters are woken by advertisements; advertisement parsing is robust.

Real code: ZeroconfController.async_find/_handle_service/_async_resolve_later/_async_handle_loaded_service_info,
HomeKitService.from_service_info (IpController, CoAPController), BleController.async_find/_device_detected,
HomeKitAdvertisement.from_manufacturer_data, BlePairing advertisement handling, Controller.async_find (aggregate).
mDNS records live in a real zeroconf.DNSCache behind a stub AsyncZeroconf; virtual time.
Oracles: the harness knows when each advertisement was processed; reference parsers for TXT / manufacturer data;
callback-escape monitor (try/except around every callback invocation + loop exception handler).
"""

from __future__ import annotations

import asyncio
import itertools
import socket

from vf.ref import broadcast as refb

PROPERTY_ID = "C19"
LEVEL = "exploration"
RULE = (
    "cases = (A) schedules over {waiter k starts with timeout t_k, advertisement for id x processed, waiter cancelled,"
    " timeout fires - including advertisement and timeout in the same loop iteration} for 1..3 waiters x 1..2 ids, ALL"
    " combinations of a small time grid, on the IP (mDNS tcp), CoAP (mDNS udp), BLE and aggregate controllers, with no"
    " pairing / a pairing with cached accessory state / a pairing without cached state loaded for the advertised id; (B)"
    " parsing: every truncation (0..19 bytes) of valid manufacturer data, each TXT key missing, upper/lower-case keys and"
    " ids, non-numeric / huge / negative numbers, unknown categories, empty values, address lists mixing IPv4, IPv6,"
    " link-local and unspecified addresses, random bytes - compared with reference parsers; any exception escaping a"
    " scanner/browser callback is a violation. Distinct by the schedule / input; non-trivial = all."
)
ASSUMPTIONS = [
    "mDNS: an advertisement is 'processed' when the repository's own 0.5 s resolve timer fires and loads it from the cache",
    "when the processing instant equals a waiter's deadline both outcomes are legitimate (recorded)",
    "BLE waiters are started with the lower-case id form the controller uses as its key",
    "mDNS-based waiters (IP, CoAP, aggregate via mDNS) are started with lower-, upper- or mixed-case spellings of the id: the"
    " mDNS async_find lower-cases its argument, so the spelling must not matter there",
]
SHARDS = {"quick": 16, "thorough": 16}
TIMEOUT = {"quick": 900, "thorough": 7200}
MIN_CASES = {"quick": 4000, "thorough": 60000}
REQUIRED_COUNTERS = ["waiters_completed_by_advertisement", "waiters_timed_out_at_deadline", "waiters_cancelled", "ble_waiters_checked", "mdns_waiters_checked", "aggregate_waiters_checked",
                     "txt_records_parsed", "manufacturer_data_parsed", "malformed_ignored", "callbacks_invoked"]

EPS = 0.02
ID_X = "aa:bb:cc:00:00:01"
ID_Y = "aa:bb:cc:00:00:02"


# ---------------------------------------------------------------------------------------------
# mDNS plumbing (real DNSCache behind a stub)
# ---------------------------------------------------------------------------------------------


class _ZC:
    def __init__(self):
        from zeroconf import DNSCache

        self.cache = DNSCache()


class StubAsyncZeroconf:
    def __init__(self):
        self.zeroconf = _ZC()


def txt_bytes(txt: dict) -> bytes:
    out = b""
    for k, v in txt.items():
        item = k.encode() + (b"" if v is None else b"=" + v)
        out += bytes([len(item)]) + item
    return out


def add_records(azc, hap_type, name, port, txt, addrs, host=None):
    from zeroconf import DNSAddress, DNSPointer, DNSService, DNSText, const, current_time_millis

    host = host or f"{name.lower().replace(' ', '-')}.local."
    full = f"{name}.{hap_type}"
    now = current_time_millis()
    ttl = 4500
    recs = [
        DNSPointer(hap_type, const._TYPE_PTR, const._CLASS_IN, ttl, full, now),
        DNSService(full, const._TYPE_SRV, const._CLASS_IN, ttl, 0, 0, port, host, now),
        DNSText(full, const._TYPE_TXT, const._CLASS_IN, ttl, txt_bytes(txt), now),
    ]
    for a in addrs:
        fam = socket.AF_INET6 if ":" in a else socket.AF_INET
        recs.append(DNSAddress(host, const._TYPE_AAAA if ":" in a else const._TYPE_A, const._CLASS_IN, ttl, socket.inet_pton(fam, a), created=now))
    azc.zeroconf.cache.async_add_records(recs)
    return full


def good_txt(dev_id, upper=False):
    t = {"id": dev_id.upper() if upper else dev_id, "c#": "3", "s#": "9", "sf": "1", "ci": "5", "md": "Model", "ff": "0", "pv": "1.1"}
    return {(k.upper() if upper else k): v.encode() for k, v in t.items()}


class Escapes:
    """Callback-escape monitor."""

    def __init__(self, ctx, replay):
        self.ctx = ctx
        self.replay = replay
        self.bad = False

    def call(self, what, fn, *args):
        self.ctx.count("callbacks_invoked")
        try:
            return fn(*args)
        except Exception as ex:  # noqa: BLE001
            self.bad = True
            self.ctx.violation(f"{what}-callback-raises-{type(ex).__name__}", f"{what} callback raised {ex!r}", self.replay)
            return None


# ---------------------------------------------------------------------------------------------
# (A) waiter schedules
# ---------------------------------------------------------------------------------------------


class Backend:
    """Uniform view over one controller kind."""

    def __init__(self, kind, pairing_mode, esc, rng):
        from aiohomekit.characteristic_cache import CharacteristicCacheMemory

        self.kind = kind
        self.esc = esc
        self.rng = rng
        self.cache = CharacteristicCacheMemory()
        self.delay = 0.0 if kind == "ble" else 0.5
        self.names = {ID_X: "Dev X", ID_Y: "Dev Y"}
        # the caller's spelling of the id (HomeKit ids are conventionally written in upper case): ids are case-insensitive
        self.find_case = rng.choice(["lower", "lower", "upper", "mixed"])
        if kind in ("ip", "coap", "aggregate"):
            self.azc = StubAsyncZeroconf()
        if kind == "ip":
            from aiohomekit.controller.ip.controller import IpController

            self.c = IpController(char_cache=self.cache, zeroconf_instance=self.azc)
            self.hap = "_hap._tcp.local."
        elif kind == "coap":
            from aiohomekit.controller.coap.controller import CoAPController

            self.c = CoAPController(char_cache=self.cache, zeroconf_instance=self.azc)
            self.hap = "_hap._udp.local."
        elif kind == "ble":
            from aiohomekit.controller.ble.controller import BleController

            self.c = BleController(char_cache=self.cache)
        else:
            from aiohomekit.controller import Controller
            from aiohomekit.controller.abstract import TransportType
            from aiohomekit.controller.ble.controller import BleController
            from aiohomekit.controller.coap.controller import CoAPController
            from aiohomekit.controller.ip.controller import IpController

            self.c = Controller(char_cache=self.cache)
            self.ip = IpController(char_cache=self.cache, zeroconf_instance=self.azc)
            self.coap = CoAPController(char_cache=self.cache, zeroconf_instance=self.azc)
            self.ble = BleController(char_cache=self.cache)
            self.c.transports[TransportType.IP] = self.ip
            self.c.transports[TransportType.COAP] = self.coap
            self.c.transports[TransportType.BLE] = self.ble
            self.via = rng.choice(["ip", "coap", "ble"])
            # a loaded pairing belongs to ONE transport; the accessory may be heard on another (a BLE pairing seen on mDNS ...)
            self.pair_via = rng.choice([self.via, self.via, "ip", "coap", "ble"])
            self.delay = 0.0 if self.via == "ble" else 0.5
        self.load_pairings(pairing_mode)

    def load_pairings(self, mode):
        if mode == "none":
            return
        from vf.props.c18 import entity_map

        for dev_id in (ID_X, ID_Y):
            if mode == "cached":
                self.cache.async_create_or_update_map(dev_id, 3, entity_map(), None, 5)
            pd = {"AccessoryPairingID": dev_id, "AccessoryLTPK": "00" * 32, "iOSPairingId": "x", "iOSDeviceLTSK": "11" * 32, "iOSDeviceLTPK": "22" * 32}
            kind = self.kind if self.kind != "aggregate" else self.pair_via
            target = self.c if self.kind != "aggregate" else {"ip": self.ip, "coap": self.coap, "ble": self.ble}[kind]
            if self.kind == "aggregate" and self.pair_via != self.via:
                self.cross_transport = True
            if kind == "ble":
                pd.update({"AccessoryAddress": "AA:BB:CC:DD:EE:FF", "Connection": "BLE"})
            elif kind == "coap":
                pd.update({"AccessoryIP": "fd00::5", "AccessoryPort": 5683, "Connection": "CoAP"})
            else:
                pd.update({"AccessoryIP": "10.0.0.5", "AccessoryPort": 51826, "Connection": "IP"})
            if self.kind == "aggregate":
                # through the aggregate controller itself (it routes by pd["Connection"] and keeps its own pairings table)
                self.c.load_pairing("alias-" + dev_id, pd)
            else:
                target.load_pairing("alias-" + dev_id, pd)

    def find(self, dev_id, timeout):
        # the caller's spelling is varied only where the library itself makes the look-up case-insensitive (the mDNS-based
        # async_find lower-cases its argument; BleController.async_find compares the id verbatim)
        via_ble = self.kind == "ble" or (self.kind == "aggregate" and self.via == "ble")
        if via_ble:
            pass
        elif self.find_case == "upper":
            dev_id = dev_id.upper()
        elif self.find_case == "mixed":
            dev_id = "".join(ch.upper() if i % 2 else ch for i, ch in enumerate(dev_id))
        return self.c.async_find(dev_id, timeout)

    def advertise(self, dev_id):
        kind = self.kind if self.kind != "aggregate" else self.via
        if kind == "ble":
            from bleak.backends.device import BLEDevice
            from bleak.backends.scanner import AdvertisementData

            target = self.c if self.kind == "ble" else self.ble
            mfr = refb.regular_advertisement(bytes.fromhex(dev_id.replace(":", "")), 9, cn=3)
            dev = BLEDevice("AA:BB:CC:DD:EE:0" + dev_id[-1], self.names[dev_id], {})
            adv = AdvertisementData(local_name=self.names[dev_id], manufacturer_data={refb.APPLE: mfr}, service_data={}, service_uuids=[], tx_power=None, rssi=-50, platform_data=())
            self.esc.call("ble-scanner", target._device_detected, dev, adv)
        else:
            from zeroconf import ServiceStateChange

            target = self.c if self.kind in ("ip", "coap") else {"ip": self.ip, "coap": self.coap}[kind]
            hap = target.hap_type
            # what the browser may report for this name BEFORE the announcement that counts: the service appearing and going
            # away again at once (goodbye / PTR expiry inside the library's 0.5 s resolve delay), a removal of something never
            # seen; the announcement itself arrives as Added or as Updated
            pre = self.rng.choice([[], [], ["Added", "Removed"], ["Removed"], ["Added", "Removed", "Added", "Removed"]])
            full0 = f"{self.names[dev_id]}.{hap}"
            for st in pre:
                self.esc.call("mdns-browser", target._handle_service, self.azc.zeroconf, hap, full0, getattr(ServiceStateChange, st))
            if pre:
                self.esc.ctx.count("mdns_flaps_before_announcement")
            full = add_records(self.azc, hap, self.names[dev_id], 51826, good_txt(dev_id, upper=self.rng.random() < 0.5), ["10.0.0.5", "fe80::1", "fd00::5"])
            self.esc.call("mdns-browser", target._handle_service, self.azc.zeroconf, hap, full, self.rng.choice([ServiceStateChange.Added, ServiceStateChange.Added, ServiceStateChange.Updated]))
            if self.rng.random() < 0.3:
                # the accessory keeps changing its TXT record (a sensor bumping s#): Updated callbacks every 0.3 s for a few
                # seconds. The announcement above is processed when ITS resolve delay is over - later callbacks do not push
                # that moment back
                loop = asyncio.get_running_loop()
                for k in range(1, 12):
                    loop.call_later(0.3 * k, self.esc.call, "mdns-browser", target._handle_service, self.azc.zeroconf, hap, full, ServiceStateChange.Updated)
                self.esc.ctx.count("mdns_update_bursts_after_announcement")


async def run_schedule(ctx, kind, pairing_mode, waiters, adverts, cancel, idx) -> None:
    """waiters: [(id, start, timeout)], adverts: {id: time|None}, cancel: (waiter index, time) | None."""
    from aiohomekit.exceptions import AccessoryNotFoundError
    from vf import simnet, vloop

    rng = ctx.grng("C19.sched", kind, pairing_mode, idx)
    replay = {"part": "A", "kind": kind, "pairing": pairing_mode, "waiters": waiters, "adverts": adverts, "cancel": cancel, "idx": idx}
    ctx.case("A", kind, pairing_mode, repr(waiters), repr(sorted(adverts.items())), repr(cancel),
             sample={"controller": kind, "pairing_loaded": pairing_mode, "waiters(id,start,timeout)": waiters, "advertisements": adverts, "cancel": cancel}, kind="A-" + kind)
    loop = asyncio.get_running_loop()
    loop.captured.clear()
    esc = Escapes(ctx, replay)
    net = simnet.Net(lambda h, a: "refuse", lambda h, a: None).install()
    try:
        be = Backend(kind, pairing_mode, esc, rng)
        t0 = loop.time()
        recs = []
        events = []
        for k, (dev_id, start, timeout) in enumerate(waiters):
            events.append((start, 1, "W", k))
        for dev_id, t in adverts.items():
            if t is not None:
                events.append((t, 0 if rng.random() < 0.5 else 2, "A", dev_id))
        if cancel is not None:
            events.append((cancel[1], 3, "C", cancel[0]))
        events.sort()
        for k, (dev_id, start, timeout) in enumerate(waiters):
            recs.append({"id": dev_id, "start": start, "timeout": timeout, "t_done": None, "result": None, "exc": None, "cancelled": False, "task": None})

        async def waiter(rec):
            try:
                rec["result"] = await be.find(rec["id"], rec["timeout"])
            except BaseException as ex:  # noqa: BLE001
                rec["exc"] = ex
            finally:
                rec["t_done"] = loop.time() - t0

        now = 0.0
        for t, _, what, arg in events:
            if t > now:
                await asyncio.sleep(t - now)
                now = t
            if what == "W":
                recs[arg]["task"] = asyncio.ensure_future(waiter(recs[arg]))
            elif what == "A":
                be.advertise(arg)
            elif what == "C" and recs[arg]["task"] is not None and not recs[arg]["task"].done():
                recs[arg]["cancelled"] = True
                recs[arg]["task"].cancel()
        await asyncio.sleep(12 + max([0.0] + [r["start"] + r["timeout"] - now for r in recs]))
        await vloop.settle()
        if esc.bad:
            return
        for cap in loop.captured:
            # judged: a callback run by the loop (the repository's resolve timer is the browser callback's second half) raised.
            # "Task exception was never retrieved" is asyncio's GC-time note about a finished task, not a raising callback.
            if cap["exception_type"] is not None and str(cap["message"]).startswith("Exception in callback"):
                ctx.violation(f"exception-escapes-into-loop-{cap['exception_type']}", f"{cap['message']}: {cap['exception']!r}", replay)
                return
            ctx.count("loop_notes_not_judged")
        for k, rec in enumerate(recs):
            label = f"[{kind}/{pairing_mode}] waiter {k} (id {rec['id'][-2:]}, start {rec['start']}, timeout {rec['timeout']}) adverts {adverts} cancel {cancel}"
            if rec["task"] is None:
                continue
            if rec["t_done"] is None:
                ctx.violation("waiter-never-completes", label, replay)
                return
            deadline = rec["start"] + rec["timeout"]
            adv_t = adverts.get(rec["id"])
            processed = None if adv_t is None else adv_t + be.delay
            if kind == "aggregate":
                ctx.count("aggregate_waiters_checked")
            elif kind == "ble":
                ctx.count("ble_waiters_checked")
            else:
                ctx.count("mdns_waiters_checked")
            if rec["cancelled"] and isinstance(rec["exc"], asyncio.CancelledError):
                ctx.count("waiters_cancelled")
                continue
            completed_ok = rec["exc"] is None and rec["result"] is not None
            if completed_ok and getattr(rec["result"].description, "id", None) != rec["id"]:
                ctx.violation("waiter-completed-with-wrong-discovery", f"{label}: got {rec['result'].description.id}", replay)
                return
            if processed is not None and abs(processed - deadline) < EPS and processed >= rec["start"]:
                ctx.count("same_instant_either_outcome")
                if not completed_ok and not isinstance(rec["exc"], AccessoryNotFoundError):
                    ctx.violation("waiter-wrong-exception", f"{label}: {rec['exc']!r}", replay)
                    return
                continue
            if processed is not None and processed < rec["start"] - EPS / 2:
                # already discovered when the waiter started: immediate
                if not completed_ok or rec["t_done"] > rec["start"] + EPS:
                    ctx.violation("known-device-not-returned-at-once", f"{label}: done at {rec['t_done']} exc {rec['exc']!r}", replay)
                    return
                ctx.count("waiters_completed_by_advertisement")
                continue
            if processed is not None and rec["start"] - EPS / 2 <= processed < deadline - EPS and not (rec["cancelled"] and cancel[1] < processed):
                if not completed_ok:
                    key = "waiter-not-woken-by-advertisement"
                    ctx.violation(key, f"{label}: advertisement processed at {processed}, waiter ended at {rec['t_done']} with {rec['exc']!r}", replay)
                    return
                if abs(rec["t_done"] - max(processed, rec["start"])) > EPS:
                    ctx.violation("waiter-woken-late", f"{label}: processed at {processed}, completed at {rec['t_done']}", replay)
                    return
                ctx.count("waiters_completed_by_advertisement")
                continue
            # no advertisement in time
            if rec["cancelled"]:
                ctx.count("waiters_cancelled")
                continue
            if not isinstance(rec["exc"], AccessoryNotFoundError):
                ctx.violation("waiter-does-not-fail-with-not-found", f"{label}: ended at {rec['t_done']} with result {rec['result']!r} exc {rec['exc']!r}", replay)
                return
            if abs(rec["t_done"] - deadline) > EPS:
                ctx.violation("waiter-timeout-at-wrong-time", f"{label}: not-found raised at {rec['t_done']}, deadline {deadline}", replay)
                return
            ctx.count("waiters_timed_out_at_deadline")
        # the discovery table knows every advertised id
        table = be.c.discoveries if kind != "aggregate" else {**be.ip.discoveries, **be.coap.discoveries, **be.ble.discoveries}
        for dev_id, t in adverts.items():
            if t is not None and dev_id not in table:
                ctx.violation("advertised-device-missing-from-discoveries", f"[{kind}] {dev_id} not in discoveries {list(table)}", replay)
                return
    finally:
        for rec in locals().get("recs", []):
            if rec["task"] is not None:
                rec["task"].cancel()
        for obj in (locals().get("be"),):
            if obj is not None:
                conts = [obj.c] if kind != "aggregate" else [obj.ip, obj.coap, obj.ble]
                for c in conts:
                    for p in list(getattr(c, "pairings", {}).values()):
                        try:
                            await p.shutdown()
                        except Exception:  # noqa: BLE001
                            pass
        for _ in range(3):
            await asyncio.sleep(0)
        net.remove()


def schedules(ctx):
    starts = [0.0, 1.0]
    timeouts = [1.5, 3.0]
    adv_times = [None, 0.2, 1.0, 2.0, 4.0]
    cancels = [None, (0, 0.5), (0, 1.2)]
    out = []
    # one waiter, one id: everything
    for st, to, at, cn in itertools.product(starts, timeouts, adv_times, cancels):
        out.append(([(ID_X, st, to)], {ID_X: at}, cn))
    # two waiters over one or two ids
    for (i1, i2), s1, s2, t1, t2, ax, ay, cn in itertools.product([(ID_X, ID_X), (ID_X, ID_Y)], starts, starts, timeouts, timeouts, adv_times, [None, 1.0, 2.0], cancels):
        out.append(([(i1, s1, t1), (i2, s2, t2)], {ID_X: ax, ID_Y: ay}, cn))
    # the caller's timeout is the caller's: longer than any default a layer below may have, advertisement late in the wait
    for to, at in itertools.product([12.0, 25.0, 45.0], [None, 0.2, 11.0, 20.0, 31.0]):
        out.append(([(ID_X, 0.0, to)], {ID_X: at}, None))
        out.append(([(ID_X, 0.0, to), (ID_Y, 1.0, 3.0)], {ID_X: at, ID_Y: 2.0}, None))
    return out


def schedules3(ctx, rng, n):
    out = []
    for _ in range(n):
        waiters = [(rng.choice([ID_X, ID_Y]), rng.choice([0.0, 0.5, 1.0]), rng.choice([1.0, 1.5, 3.0, 6.0])) for _ in range(3)]
        adverts = {ID_X: rng.choice([None, 0.2, 1.0, 2.0, 4.0, 2.5]), ID_Y: rng.choice([None, 0.5, 1.0, 3.5])}
        cancel = rng.choice([None, (rng.randrange(3), rng.choice([0.3, 1.2, 2.2]))])
        out.append((waiters, adverts, cancel))
    return out


# ---------------------------------------------------------------------------------------------
# (B) parsing
# ---------------------------------------------------------------------------------------------


def ref_parse_txt(txt: dict, addrs, name, port):
    """Reference: description fields or None when the record must be ignored."""
    import ipaddress

    props = {}
    for k, v in txt.items():
        if v is None:
            continue
        try:
            props[k.lower()] = v.decode("utf-8")
        except UnicodeDecodeError:
            return "unjudged"
    valid = []
    for a in addrs:
        ip = ipaddress.ip_address(a)
        if ip.is_link_local or ip.is_unspecified:
            continue
        valid.append(str(ip))
    if not valid or "id" not in props:
        return None
    try:
        nums = {k: int(props.get(k, d)) for k, d in (("c#", 0), ("s#", 0), ("ff", 0), ("sf", 0), ("ci", 1))}
    except ValueError:
        return None
    return {"id": props["id"].lower(), "model": props.get("md", ""), "config_num": nums["c#"], "state_num": nums["s#"], "ff": nums["ff"], "sf": nums["sf"], "ci": nums["ci"],
            "pv": props.get("pv", "1.0"), "addresses": set(valid), "port": port, "name": name}


async def txt_case(ctx, idx) -> None:
    from aiohomekit.controller.ip.controller import IpController
    from aiohomekit.characteristic_cache import CharacteristicCacheMemory
    from zeroconf import ServiceStateChange

    rng = ctx.grng("C19.txt", idx)
    dev_id = ":".join(f"{rng.randrange(256):02x}" for _ in range(6))
    txt = good_txt(dev_id, upper=rng.random() < 0.3)
    mutation = rng.choice(["none", "drop", "drop", "nonnumeric", "huge", "negative", "empty", "novalue", "case", "unknown-ci", "extra", "float"])
    keys = list(txt)
    k = rng.choice(keys)
    if mutation == "drop":
        del txt[k]
    elif mutation == "nonnumeric":
        txt[rng.choice([x for x in keys if x.lower() in ("c#", "s#", "sf", "ci", "ff")])] = rng.choice([b"abc", b"", b"1x", b"0x10"])
    elif mutation == "huge":
        txt[rng.choice([x for x in keys if x.lower() in ("c#", "s#", "sf", "ff")])] = str(rng.choice([2**31, 2**64, 10**30])).encode()
    elif mutation == "negative":
        txt[rng.choice([x for x in keys if x.lower() in ("c#", "s#")])] = b"-5"
    elif mutation == "empty":
        txt[k] = b""
    elif mutation == "novalue":
        txt[k] = None
    elif mutation == "case":
        txt = {(kk.upper() if rng.random() < 0.5 else kk.lower()): v for kk, v in txt.items()}
    elif mutation == "unknown-ci":
        txt[[x for x in keys if x.lower() == "ci"][0]] = str(rng.choice([0, 200, 65535, 99999])).encode()
    elif mutation == "extra":
        txt["zz"] = rng.randbytes(5)
    elif mutation == "float":
        txt[[x for x in keys if x.lower() == "c#"][0]] = b"3.0"
    # (IPv4 texts that sort AFTER an IPv6 text and the other way round: the order must come from the family, not the text)
    pool = ["10.0.0.5", "192.168.1.9", "169.254.7.7", "0.0.0.0", "fd00::5", "fe80::1", "::", "2001:db8::7", "203.0.113.5", "8.8.8.8", "1234:5678::1", "9.9.9.9"]
    addrs = rng.sample(pool, rng.randint(0, 5))
    name = rng.choice(["Dev", "Küche Lampe", "a.b", "x" * 40])
    port = rng.choice([80, 51826, 65535])
    replay = {"part": "B-txt", "idx": idx}
    ctx.case("txt", repr(sorted((k, v) for k, v in txt.items())), tuple(addrs), sample={"part": "TXT record", "mutation": mutation, "txt": {k: v for k, v in txt.items()}, "addresses": addrs}, kind="txt-" + mutation)
    esc = Escapes(ctx, replay)
    azc = StubAsyncZeroconf()
    c = IpController(char_cache=CharacteristicCacheMemory(), zeroconf_instance=azc)
    full = add_records(azc, "_hap._tcp.local.", name, port, txt, addrs)
    esc.call("mdns-browser", c._handle_service, azc.zeroconf, "_hap._tcp.local.", full, ServiceStateChange.Added)
    await asyncio.sleep(0.6)
    loop = asyncio.get_running_loop()
    caps = [cap for cap in loop.captured if cap["exception_type"] is not None and str(cap["message"]).startswith("Exception in callback")]
    loop.captured.clear()
    for cap in caps:
        ctx.violation(f"mdns-callback-raises-{cap['exception_type']}", f"TXT {txt} addresses {addrs}: {cap['message']}: {cap['exception']!r}", replay)
        return
    if esc.bad:
        return
    want = ref_parse_txt(txt, addrs, name, port)
    ctx.count("txt_records_parsed")
    if want == "unjudged":
        return
    if not addrs:
        # without any address record the service cannot be resolved from the cache at all
        return
    if want is None:
        if c.discoveries:
            ctx.violation("malformed-mdns-record-not-ignored", f"TXT {txt} addresses {addrs}: discoveries {list(c.discoveries)}", replay)
        else:
            ctx.count("malformed_ignored")
        return
    d = c.discoveries.get(want["id"])
    if d is None:
        if mutation in ("huge", "unknown-ci", "negative"):
            ctx.count("numeric_edge_ignored_recorded")
            return
        ctx.violation("valid-mdns-record-ignored", f"TXT {txt} addresses {addrs}: no discovery for {want['id']} ({list(c.discoveries)})", replay)
        return
    desc = d.description
    problems = []
    if desc.id != want["id"]:
        problems.append(f"id {desc.id}")
    if desc.model != want["model"] or desc.config_num != want["config_num"] or desc.state_num != want["state_num"]:
        problems.append(f"md/c#/s# {desc.model!r}/{desc.config_num}/{desc.state_num}")
    if int(desc.feature_flags) != want["ff"] or int(desc.status_flags) != want["sf"] or int(desc.category) != want["ci"]:
        problems.append(f"ff/sf/ci {int(desc.feature_flags)}/{int(desc.status_flags)}/{int(desc.category)}")
    if desc.protocol_version != want["pv"] or desc.port != want["port"] or desc.name != want["name"]:
        problems.append(f"pv/port/name {desc.protocol_version}/{desc.port}/{desc.name!r}")
    if set(desc.addresses) != want["addresses"]:
        problems.append(f"addresses {desc.addresses} != {sorted(want['addresses'])}")
    if desc.address != desc.addresses[0]:
        problems.append("address != addresses[0]")
    v6_seen = False
    for a in desc.addresses:
        if ":" in a:
            v6_seen = True
        elif v6_seen:
            problems.append(f"IPv6 before IPv4 in {desc.addresses}")
            break
    if problems:
        ctx.violation("mdns-description-differs-from-reference", f"TXT {txt} addresses {addrs}: " + "; ".join(problems), replay)


def mfr_case(ctx, data: bytes, origin, pairing_mode="none") -> None:
    from aiohomekit.characteristic_cache import CharacteristicCacheMemory
    from aiohomekit.controller.ble.controller import BleController
    from bleak.backends.device import BLEDevice
    from bleak.backends.scanner import AdvertisementData

    replay = {"part": "B-mfr", "data": data, "pairing": pairing_mode}
    ctx.case("mfr", data, pairing_mode, sample={"part": "manufacturer data", "origin": origin, "data": data, "pairing_loaded": pairing_mode}, kind="mfr-" + origin)
    esc = Escapes(ctx, replay)
    cache = CharacteristicCacheMemory()
    c = BleController(char_cache=cache)
    want = refb.parse_regular(data)
    if pairing_mode != "none" and want is not None:
        from vf.props.c18 import entity_map

        if pairing_mode == "cached":
            cache.async_create_or_update_map(want["id"], 1, entity_map(), None, 3)
        c.load_pairing("a", {"AccessoryPairingID": want["id"], "AccessoryLTPK": "00" * 32, "iOSPairingId": "x", "iOSDeviceLTSK": "11" * 32, "iOSDeviceLTPK": "22" * 32,
                             "AccessoryAddress": "AA:BB:CC:DD:EE:FF", "Connection": "BLE"})
    for name in ("Dev", None):
        dev = BLEDevice("AA:BB:CC:DD:EE:FF", name, {})
        adv = AdvertisementData(local_name=name, manufacturer_data={refb.APPLE: data} if data is not None else {}, service_data={}, service_uuids=[], tx_power=None, rssi=-50, platform_data=())
        esc.call("ble-scanner", c._device_detected, dev, adv)
        if esc.bad:
            return
    ctx.count("manufacturer_data_parsed")
    if want is None:
        if c.discoveries:
            ctx.violation("malformed-ble-advertisement-not-ignored", f"{data.hex()}: discoveries {list(c.discoveries)}", replay)
        else:
            ctx.count("malformed_ignored")
        return
    d = c.discoveries.get(want["id"])
    if d is None:
        ctx.violation("valid-ble-advertisement-ignored", f"{data.hex()}: no discovery for {want['id']}", replay)
        return
    desc = d.description
    got = (desc.id, int(desc.status_flags), int(desc.category), desc.state_num, desc.config_num, bytes(desc.setup_hash))
    exp = (want["id"], want["status_flags"], want["category"], want["state_num"], want["config_num"], want["setup_hash"])
    if got != exp:
        ctx.violation("ble-description-differs-from-reference", f"{data.hex()}: parsed {got} reference {exp}", replay)


def encrypted_parse_case(ctx, adv_id: bytes, payload: bytes) -> None:
    """The OTHER manufacturer-data layout (type 0x11, encrypted notification): the id that routes it to a pairing is the
    advertising identifier written the same way as everywhere else - six lower-case, zero-padded hex octets."""
    from aiohomekit.controller.ble.manufacturer_data import HomeKitEncryptedNotification

    data = refb.encrypted_notification(adv_id, payload)
    replay = {"part": "B-enc", "adv_id": adv_id, "payload": payload}
    ctx.case("enc", data, sample={"part": "encrypted notification parse", "data": data}, kind="mfr-encrypted")
    try:
        n = HomeKitEncryptedNotification.from_manufacturer_data("Dev", "AA:BB:CC:DD:EE:FF", {refb.APPLE: data})
    except Exception as ex:  # noqa: BLE001
        ctx.violation(f"encrypted-notification-parse-raises-{type(ex).__name__}", f"{data.hex()}: {ex!r}", replay)
        return
    want = (":".join("%02x" % b for b in adv_id), bytes(adv_id), bytes(payload))
    got = (n.id, bytes(n.advertising_identifier), bytes(n.encrypted_payload))
    if got != want:
        ctx.violation("encrypted-notification-parse-differs-from-reference", f"{data.hex()}: parsed {got} reference {want}", replay)
        return
    ctx.count("encrypted_notifications_parsed")


async def parsing_part(ctx) -> None:
    idx = 0
    r0 = ctx.grng("C19.enc")
    for k in range(ctx.pick(200, 5000)):
        idx += 1
        adv_id = bytes(r0.choice([0, 1, 9, 0x0A, 0x0F, 0x10, 0xA0, 0xFF, r0.randrange(256)]) for _ in range(6))
        payload = r0.randbytes(r0.choice([12, 16, 16, 20]))
        if ctx.mine(idx):
            encrypted_parse_case(ctx, adv_id, payload)
    for k in range(ctx.pick(2500, 200000)):
        idx += 1
        if ctx.mine(idx):
            await txt_case(ctx, k)
    rng = ctx.grng("C19.mfr")
    valids = []
    for _ in range(ctx.pick(6, 30)):
        dev = bytes(rng.randrange(256) for _ in range(6))
        valids.append(refb.regular_advertisement(dev, rng.choice([0, 1, 255, 65535]), cn=rng.randrange(256), sf=rng.randrange(4), acid=rng.choice([1, 5, 17, 200, 65535]),
                                                 setup_hash=rng.choice([None, b"\x01\x02\x03\x04"])))
    for v in valids:
        for cut in range(0, len(v) + 1):
            for mode in ("none", "cached", "uncached"):
                idx += 1
                if ctx.mine(idx):
                    mfr_case(ctx, v[:cut], "truncate", mode)
    ctx.exhaustive_parts["every truncation of valid manufacturer data x pairing mode"] = True
    for k in range(ctx.pick(1500, 200000)):
        idx += 1
        if not ctx.mine(idx):
            continue
        r = ctx.grng("C19.mfr.rand", k)
        kind = r.random()
        if kind < 0.4:
            data = r.randbytes(r.randint(1, 30))
        elif kind < 0.7:
            data = bytes([r.choice([0x06, 0x11, 0x10, 0x02])]) + r.randbytes(r.randint(0, 25))
        else:
            b = bytearray(r.choice(valids))
            b[r.randrange(len(b))] ^= 1 << r.randrange(8)
            data = bytes(b)
        mfr_case(ctx, data, "random", r.choice(["none", "cached", "uncached"]))


def run(ctx) -> None:
    from vf import vloop

    async def main():
        idx = 0
        scheds = schedules(ctx)
        kinds = ["ip", "coap", "ble", "aggregate"]
        modes = ["none", "cached", "uncached"]
        for si, (waiters, adverts, cancel) in enumerate(scheds):
            for ki, kind in enumerate(kinds):
                idx += 1
                if not ctx.mine(idx):
                    continue
                # quick: each schedule on every controller kind with one pairing mode (rotating); thorough: all modes
                for mode in (modes if not ctx.quick else [modes[(si + ki) % 3]]):
                    await run_schedule(ctx, kind, mode, waiters, adverts, cancel, si)
        ctx.exhaustive_parts["all 1- and 2-waiter schedules over the time grid x 4 controller kinds"] = True
        rng = ctx.grng("C19.s3")
        for k, (waiters, adverts, cancel) in enumerate(schedules3(ctx, rng, ctx.pick(300, 60000))):
            idx += 1
            if ctx.mine(idx):
                await run_schedule(ctx, kinds[k % 4], modes[(k // 4) % 3], waiters, adverts, cancel, ("s3", k))
        await parsing_part(ctx)

    vloop.run(main())


def replay(ctx, d) -> None:
    if d.get("part") == "B-enc":
        encrypted_parse_case(ctx, d["adv_id"], d["payload"])
        return
    from vf import vloop

    async def main():
        part = d["part"]
        if part == "A":
            idx = d["idx"]
            await run_schedule(ctx, d["kind"], d["pairing"], [tuple(w) for w in d["waiters"]], dict(d["adverts"]), tuple(d["cancel"]) if d["cancel"] else None,
                               tuple(idx) if isinstance(idx, list) else idx)
        elif part == "B-txt":
            await txt_case(ctx, d["idx"])
        else:
            mfr_case(ctx, d["data"], "replay", d["pairing"])

    vloop.run(main())
