"""C17 HAP PDUs are fragmented, reassembled and attributed correctly (BLE, CoAP).

Real code: aiohomekit.pdu.encode_pdu/decode_pdu/decode_pdu_continuation, ble.client._write_pdu/_read_pdu/ble_request,
ble.key.EncryptionKey/DecryptionKey, coap.pdu.encode_all_pdus/decode_all_pdus and the CoAP connection's
result-to-(aid,iid) mappers. Oracle: vf.ref.blepdu (accessory-side reassembler / response fragmenter) behind the fake
GATT client, vf.ref.coappdu.
"""

from __future__ import annotations

import asyncio
import itertools
import struct

from cryptography.hazmat.primitives.ciphers.aead import ChaCha20Poly1305

from vf.ref import coappdu as refcoap
from vf.ref import tlv8 as reftlv

PROPERTY_ID = "C17"
LEVEL = "exploration"
RULE = (
    "cases = BLE: EVERY (fragment size 8..64) x (body length 0..200), plain and inside a secure session, plus sizes"
    " {20,155,244,496,512} x lengths <= 5000, each request through the real ble_request into the reference reassembler;"
    " responses with statuses 0..6 fragmented by the accessory at EVERY 1- and 2-cut position for small bodies and randomly"
    " otherwise; negative cases: wrong tid in first / continuation fragment, continuation without the 0x80 flag. CoAP:"
    " ALL batches of 1..4 items over outcomes {ok empty, ok with body, status 1..6 (with and without body), wrong tid, wrong"
    " control bits}, sampled for 5-6 items, through decode_all_pdus and the read/write/subscribe/unsubscribe mappers;"
    " request batches decoded by the reference. Distinct by the case tuple; non-trivial = more than one fragment / item or"
    " an error outcome."
)
ASSUMPTIONS = [
    "negotiated fragment size = what determine_fragment_size returns plus the 16-byte tag when the session is secure",
    "unknown status bytes (7..255) are outside 'each error status' and are recorded only",
]
SHARDS = {"quick": 16, "thorough": 16}
TIMEOUT = {"quick": 900, "thorough": 7200}
MIN_CASES = {"quick": 20000, "thorough": 70000}
REQUIRED_COUNTERS = ["ble_requests_reassembled", "ble_encrypted_requests", "ble_responses_reassembled", "ble_bad_fragments_rejected", "coap_batches_decoded", "coap_items_attributed", "coap_request_batches", "coap_long_sessions", "coap_overlap_rounds"]


def nonce(counter: int) -> bytes:
    return b"\x00\x00\x00\x00" + struct.pack("<Q", counter)


class SessionSim:
    """Accessory side of the BLE secure session (independent AEAD, per-direction counters)."""

    def __init__(self, c2a: bytes, a2c: bytes):
        self.dec = ChaCha20Poly1305(c2a)
        self.enc = ChaCha20Poly1305(a2c)
        self.rc = 0
        self.sc = 0

    def decrypt(self, data):
        pt = self.dec.decrypt(nonce(self.rc), bytes(data), b"")
        self.rc += 1
        return pt

    def encrypt(self, data):
        ct = self.enc.encrypt(nonce(self.sc), bytes(data), b"")
        self.sc += 1
        return ct


async def ble_case(ctx, negotiated, body_len, secure, status, cuts, rbody_len, opcode_name, iid, negative=None, seed=0) -> None:
    from aiohomekit.controller.ble import client as ble_client
    from aiohomekit.controller.ble.key import DecryptionKey, EncryptionKey
    from aiohomekit.pdu import OpCode
    from vf.sim_ble import FakeGattClient, FakeHandle, GattEndpointSim

    import random

    rng = random.Random(f"{seed}/{negotiated}/{body_len}/{secure}/{status}/{cuts}/{rbody_len}")
    body = rng.randbytes(body_len) if body_len else (None if rng.random() < 0.5 else b"")
    rbody = rng.randbytes(rbody_len) if rbody_len is not None else None
    opcode = OpCode[opcode_name]
    replay = {"t": "ble", "negotiated": negotiated, "body_len": body_len, "secure": secure, "status": status, "cuts": list(cuts or []), "rbody_len": rbody_len,
              "opcode": opcode_name, "iid": iid, "negative": negative, "seed": seed}
    opts = {}
    if negative == "tid-first":
        opts["tid_override_first"] = None  # filled below
    elif negative == "tid-cont":
        opts["tid_override_cont"] = None
    elif negative == "no-cont-flag":
        opts["cont_control"] = 0x02

    def responder(op, tid, riid, rb):
        o = dict(opts)
        if "tid_override_first" in o:
            o["tid_override_first"] = (tid + 1) % 256
        if "tid_override_cont" in o:
            o["tid_override_cont"] = (tid + 7) % 256
            o["cont_index"] = 1 + (seed % 3)
        return status, rbody, cuts, o

    enc_key = dec_key = None
    sess = None
    if secure:
        c2a, a2c = rng.randbytes(32), rng.randbytes(32)
        enc_key, dec_key = EncryptionKey(c2a), DecryptionKey(a2c)
        sess = SessionSim(c2a, a2c)
    # the size comes from the library's own helper for a link of ATT_MTU negotiated + 3 in two thirds of the cases; bleak's
    # per-characteristic figure is absent, the classic 20, exactly MTU - 3 (what bleak reports once the MTU is known) or smaller
    link = (negotiated * 31 + body_len * 7 + (1 if secure else 0)) % 6
    max_wwr = {0: None, 1: None, 2: None, 3: 20, 4: negotiated, 5: max(1, negotiated - 16)}[link]
    if max_wwr is not None and max_wwr > negotiated:
        max_wwr = negotiated
    handle = FakeHandle("00000025-0000-1000-8000-0026BB765291", 20, properties=("read", "write") if seed % 2 else ("read", "write-without-response"), max_wwr=max_wwr)
    client = FakeGattClient(negotiated)
    if link >= 2:
        client.real_helper = True
        ctx.count("ble_sizes_from_the_real_helper")
    ep = GattEndpointSim(responder, decrypt=sess.decrypt if sess else None, encrypt=sess.encrypt if sess else None)
    client.endpoints[handle] = ep
    desc = f"size={negotiated} body={body_len} secure={secure} status={status} cuts={list(cuts or [])[:6]} rbody={rbody_len} negative={negative}"
    try:
        got_status, got_data = await ble_client.ble_request(client, enc_key, dec_key, opcode, handle, iid, body)
        raised = None
    except Exception as ex:  # noqa: BLE001
        raised = ex
    # ---- request side ----
    if any(len(w) > negotiated for _, w, _ in client.write_log):
        ctx.violation("ble-fragment-larger-than-negotiated", f"{desc}: wrote fragments of {[len(w) for _, w, _ in client.write_log]} bytes", replay)
        return
    if ep.errors:
        ctx.violation("ble-request-not-reassemblable", f"{desc}: reference accessory: {ep.errors[:2]}", replay)
        return
    if len(ep.requests) != 1:
        ctx.violation("ble-request-count", f"{desc}: accessory reassembled {len(ep.requests)} requests (exception {raised!r})", replay)
        return
    req = ep.requests[0]
    if (req["opcode"], req["iid"], req["body"] or b"") != (opcode.value, iid, body or b""):
        ctx.violation("ble-request-differs", f"{desc}: accessory reassembled opcode={req['opcode']} iid={req['iid']} body_len={len(req['body'] or b'')}", replay)
        return
    if not (1 <= req["tid"] <= 255):
        ctx.violation("ble-request-tid", f"{desc}: tid {req['tid']}", replay)
        return
    ctx.count("ble_requests_reassembled")
    if secure:
        ctx.count("ble_encrypted_requests")
    # ---- response side ----
    needs_cont = rbody is not None and len([c for c in (cuts or []) if 0 <= c < len(rbody)]) > 0
    if negative:
        applicable = negative == "tid-first" or needs_cont
        if applicable:
            if raised is None:
                ctx.violation(f"ble-bad-fragment-accepted-{negative}", f"{desc}: ble_request returned status={got_status} {len(got_data)} bytes", replay)
            else:
                ctx.count("ble_bad_fragments_rejected")
            return
    if raised is not None:
        ctx.violation(f"ble-response-raises-{type(raised).__name__}", f"{desc}: {raised!r}", replay)
        return
    if got_status.value != status or bytes(got_data) != (rbody or b""):
        ctx.violation("ble-response-differs", f"{desc}: got status={got_status.value} len={len(got_data)}", replay)
        return
    if ep.pending:
        ctx.violation("ble-response-fragments-left-unread", f"{desc}: {len(ep.pending)} fragments not read", replay)
        return
    ctx.count("ble_responses_reassembled")


async def ble_part(ctx) -> None:
    idx = 0
    ops = ["CHAR_WRITE", "CHAR_READ", "CHAR_TIMED_WRITE", "CHAR_SIG_READ", "PROTOCOL_CONFIG"]
    # exhaustive grid: fragment size x body length (content independent), plain and secure
    for secure in (False, True):
        for size in range(8 + (16 if secure else 0), 65 + (16 if secure else 0)):
            for blen in range(0, 201):
                idx += 1
                if not ctx.mine(idx):
                    continue
                ctx.case("ble-grid", size, blen, secure, nontrivial=blen > size - 7 - (16 if secure else 0),
                         sample={"transport": "ble", "fragment_size": size, "body_len": blen, "secure": secure}, kind="ble-grid-%s" % secure)
                await ble_case(ctx, size, blen, secure, 0, None, 3, ops[idx % len(ops)], (idx * 7) % 65536, seed=idx)
    ctx.exhaustive_parts["BLE fragment size 8..64 x body length 0..200, plain and secure"] = True
    rng = ctx.grng("C17.ble")
    for size in (20, 155, 244, 496, 512):
        for blen in [0, 1, size - 8, size - 7, size - 6, 2 * size - 9, 2 * size, 1000, 2048, 4999, 5000] + [rng.randrange(0, 5001) for _ in range(ctx.pick(4, 40))]:
            for secure in (False, True):
                idx += 1
                if not ctx.mine(idx) or blen < 0:
                    continue
                ctx.case("ble-real", size, blen, secure, sample={"transport": "ble", "fragment_size": size, "body_len": blen, "secure": secure}, kind="ble-real")
                await ble_case(ctx, size + (16 if secure else 0), blen, secure, 0, [100, 300], 700, "CHAR_WRITE", 33, seed=idx)
    # response fragmentation: every 1-/2-cut for small bodies, statuses 0..6
    for rlen in ctx.pick([0, 1, 2, 5, 12, 30], [0, 1, 2, 3, 5, 8, 12, 20, 30, 45]):
        cutsets = [()] + [(c,) for c in range(0, rlen)] + list(itertools.combinations(range(0, rlen), 2))  # cut 0 = header-only first fragment
        for cuts in cutsets:
            for status in range(0, 7):
                for secure in (False, True):
                    idx += 1
                    if not ctx.mine(idx):
                        continue
                    ctx.case("ble-resp", rlen, cuts, status, secure, nontrivial=bool(cuts) or status != 0,
                             sample={"transport": "ble", "response_body_len": rlen, "accessory_cuts": list(cuts), "status": status, "secure": secure}, kind="ble-resp")
                    await ble_case(ctx, 64, 10, secure, status, list(cuts), rlen, "CHAR_READ", 9, seed=idx)
                    if cuts or True:
                        for neg in ("tid-first", "tid-cont", "no-cont-flag"):
                            if status == 0 and (idx + len(neg)) % 3 == 0:
                                ctx.case("ble-neg", rlen, cuts, neg, secure, sample={"transport": "ble", "negative": neg, "response_body_len": rlen, "accessory_cuts": list(cuts)}, kind="ble-neg")
                                await ble_case(ctx, 64, 10, secure, 0, list(cuts), rlen, "CHAR_READ", 9, negative=neg, seed=idx)
    # header-only responses (no body length field) and large random fragmentations
    for status in range(0, 7):
        idx += 1
        if ctx.mine(idx):
            ctx.case("ble-resp-headeronly", status)
            await ble_case(ctx, 64, 4, False, status, None, None, "CHAR_WRITE", 5, seed=idx)
    for k in range(ctx.pick(200, 40000)):
        idx += 1
        if not ctx.mine(idx):
            continue
        r = ctx.grng("C17.ble.rand", k)
        rlen = r.choice([100, 255, 256, 700, 2000])
        cuts = sorted(r.sample(range(0 if r.random() < 0.3 else 1, rlen), r.randint(1, 12)))
        ctx.case("ble-resp-rand", k, sample={"transport": "ble", "response_body_len": rlen, "accessory_cuts": cuts}, kind="ble-resp-rand")
        await ble_case(ctx, r.choice([23, 64, 155, 512]) + 16, r.randrange(0, 600), r.random() < 0.5, r.randrange(0, 7), cuts, rlen, "CHAR_READ", r.randrange(1, 65536), seed=k)


# ---------------------------------------------------------------------------------------------
# CoAP
# ---------------------------------------------------------------------------------------------

OUTCOMES = ["ok0", "okn"] + [f"st{s}" for s in range(1, 7)] + [f"stb{s}" for s in (1, 4, 6)] + ["tid", "ctl"]


def coap_item(outcome, tid, rng, blen):
    """-> (wire bytes, expected per-item result descriptor)."""
    value = rng.randbytes(blen)
    tlv_body = reftlv.encode([(1, value)]) if blen else b""
    if outcome == "ok0":
        return refcoap.encode_response(tid, 0, b""), ("ok", b"", b"")
    if outcome == "okn":
        return refcoap.encode_response(tid, 0, tlv_body), ("ok", tlv_body, value)
    if outcome.startswith("stb"):
        s = int(outcome[3:])
        return refcoap.encode_response(tid, s, tlv_body), ("status", s, None)
    if outcome.startswith("st"):
        s = int(outcome[2:])
        return refcoap.encode_response(tid, s, b""), ("status", s, None)
    if outcome == "tid":
        return refcoap.encode_response((tid + 3) % 256, 0, tlv_body), ("tid", None, None)
    if outcome == "ctl":
        return refcoap.encode_response(tid, 0, tlv_body, control=rng.choice([0x00, 0x04, 0x0E])), ("ctl", None, None)
    raise KeyError(outcome)


def coap_batch(ctx, outcomes, blens, seed) -> None:
    from aiohomekit.controller.coap import connection as coap_conn
    from aiohomekit.controller.coap.pdu import PDUStatus, decode_all_pdus

    import random

    rng = random.Random(f"coap/{seed}/{outcomes}")
    items = []
    wire = b""
    for i, (o, bl) in enumerate(zip(outcomes, blens)):
        w, exp = coap_item(o, i, rng, bl)
        wire += w
        items.append(exp)
    replay = {"t": "coap", "outcomes": list(outcomes), "blens": list(blens), "seed": seed}
    desc = f"batch {list(outcomes)} body lengths {list(blens)}"
    try:
        res = decode_all_pdus(0, wire)
    except Exception as ex:  # noqa: BLE001
        ctx.violation(f"coap-decode-raises-{type(ex).__name__}", f"{desc}: {ex!r}", replay)
        return
    ctx.count("coap_batches_decoded")
    if len(res) != len(items):
        ctx.violation("coap-item-count-differs", f"{desc}: {len(res)} results for {len(items)} items", replay)
        return
    for i, (r, exp) in enumerate(zip(res, items)):
        kind = exp[0]
        ok = False
        if kind == "ok":
            ok = isinstance(r, (bytes, bytearray)) and bytes(r) == exp[1]
        elif kind == "status":
            ok = isinstance(r, PDUStatus) and r.value == exp[1]
        elif kind == "tid":
            ok = r is PDUStatus.TID_MISMATCH
        elif kind == "ctl":
            ok = r is PDUStatus.BAD_CONTROL
        if not ok:
            ctx.violation("coap-item-result-wrong-or-shifted", f"{desc}: item {i} expected {exp[:2]!r} got {r!r}", replay)
            return
        ctx.count("coap_items_attributed")
    # the (aid, iid) mappers: result i belongs to requested characteristic i
    ids = [(1, 100 + 7 * i) for i in range(len(items))]
    conn = coap_conn.CoAPHomeKitConnection(None, "fd00::1", 5683)

    class _Info:
        def find_characteristic_by_iid(self, iid):
            return None

        def find_characteristic_by_aid_iid(self, aid, iid):
            return None

    conn.info = _Info()
    try:
        mapped = {
            "read": conn._read_characteristics_exit(ids, list(res)),
            "write": conn._write_characteristics_exit([(a, i, 0) for a, i in ids], list(res)),
            "subscribe": conn._subscribe_to_exit(ids, list(res)),
            "unsubscribe": conn._unsubscribe_from_exit(ids, list(res)),
        }
    except Exception as ex:  # noqa: BLE001
        ctx.violation(f"coap-mapper-raises-{type(ex).__name__}", f"{desc}: {ex!r}", replay)
        return
    for name, m in mapped.items():
        for i, exp in enumerate(items):
            key = ids[i]
            got = m.get(key)
            if exp[0] == "ok":
                if name == "read":
                    if got is None or "status" in got or bytes(got.get("value", b"")) != exp[2]:
                        ctx.violation("coap-read-value-misattributed", f"{desc}: {name} {key} -> {got!r}, expected value {exp[2]!r}", replay)
                        return
                elif got is not None:
                    ctx.violation("coap-success-reported-as-error", f"{desc}: {name} {key} -> {got!r}", replay)
                    return
            else:
                if got is None or not got.get("status"):
                    ctx.violation("coap-error-hidden", f"{desc}: {name} item {i} ({exp[0]} {exp[1]}) -> {got!r}", replay)
                    return
                if exp[0] == "status" and got["status"] != -exp[1]:
                    ctx.violation("coap-error-status-wrong", f"{desc}: {name} item {i} status {exp[1]} -> {got!r}", replay)
                    return


def coap_requests(ctx, n, seed) -> None:
    from aiohomekit.controller.coap.pdu import OpCode, encode_all_pdus

    import random

    rng = random.Random(f"coapreq/{seed}/{n}")
    iids = [rng.randrange(0, 65536) for _ in range(n)]
    data = [rng.randbytes(rng.choice([0, 0, 1, 255, 256, 1000])) for _ in range(n)]
    op = rng.choice(list(OpCode))
    wire = encode_all_pdus(op, iids, data)
    replay = {"t": "coapreq", "n": n, "seed": seed}
    try:
        reqs = refcoap.decode_requests(wire)
    except refcoap.RefCoapPduError as ex:
        ctx.violation("coap-request-batch-not-decodable", f"{n} items: {ex}", replay)
        return
    want = [{"control": 0, "opcode": op.value, "tid": i, "iid": iids[i], "body": data[i]} for i in range(n)]
    if reqs != want:
        ctx.violation("coap-request-batch-differs", f"{n} items op={op.name}: accessory decodes {[(r['tid'], r['iid'], len(r['body'])) for r in reqs]}", replay)
        return
    ctx.count("coap_request_batches")


async def coap_long_session(ctx, k: int) -> None:
    """ONE CoAP session, hundreds of batches through the real post_all (well beyond 255 items in total, whatever numbering
    the batches use on the wire): the accessory echoes each item's transaction id and answers every item OK, so every
    requested characteristic must come back with its value, never as a per-item error."""
    from aiohomekit.characteristic_cache import CharacteristicCacheMemory
    from aiohomekit.controller.coap.controller import CoAPController
    from aiohomekit.controller.coap.pairing import CoAPPairing

    from vf import sim_coap

    rng = ctx.grng("C17.coap-session", k)
    acc = sim_coap.CoapAccessory(rng)
    fac = sim_coap.ContextFactory(acc).install()
    replay = {"t": "coap-session", "k": k}
    ctx.case("coap-session", k, sample={"transport": "coap", "part": "long session", "batches": 140}, kind="coap-session")
    try:
        controller = CoAPController(char_cache=CharacteristicCacheMemory(), zeroconf_instance=None)
        pairing = CoAPPairing(controller, acc.pairing_data())
        await asyncio.wait_for(pairing.list_accessories_and_characteristics(), 60)
        readable = [10, 11, 13, 14, 3]
        total = 0
        for b in range(140):
            iids = rng.sample(readable, rng.randint(1, 5))
            ids = [(1, i) for i in iids]
            try:
                res = await asyncio.wait_for(pairing.get_characteristics(ids), 60)
            except Exception as ex:  # noqa: BLE001
                ctx.violation(f"coap-session-read-raises-{type(ex).__name__}", f"batch {b} after {total} items: {ex!r}", replay)
                return
            total += len(ids)
            bad = [(i, res.get((1, i))) for i in iids if (1, i) not in res or "status" in res[(1, i)]]
            if bad:
                ctx.violation("coap-item-result-wrong-or-shifted", f"long session: batch {b} ({len(ids)} items, {total} items so far in this session) - the accessory answered every item OK, the caller got {bad[:3]!r}", replay)
                return
            ctx.count("coap_items_attributed", len(ids))
        ctx.count("coap_long_sessions")
    finally:
        fac.remove()


async def coap_overlap_session(ctx, k: int) -> None:
    """Operations that OVERLAP on one CoAP session: a batch is in flight (the accessory takes its time), a second caller queues
    behind it and gives up before its turn, the caller of the first mutates the list it passed in; afterwards the session
    carries on. Every batch the accessory receives authenticates at the accessory's own counter (ground truth: its decrypt
    error count), and every result is attributed to the characteristic that was requested at that position AT CALL TIME."""
    from aiohomekit.controller.coap.connection import CoAPHomeKitConnection

    from vf import sim_coap

    rng = ctx.grng("C17.coap-overlap", k)
    acc = sim_coap.CoapAccessory(rng)
    fac = sim_coap.ContextFactory(acc).install()
    replay = {"t": "coap-overlap", "k": k}
    ctx.case("coap-overlap", k, sample={"transport": "coap", "part": "overlapping batches on one session"}, kind="coap-overlap")
    gate = {"ev": None}
    orig_handle = acc.handle

    async def handle(msg):
        if "/".join(msg.opt.uri_path) == "" and gate["ev"] is not None:
            await gate["ev"].wait()
        return await orig_handle(msg)

    try:
        conn = CoAPHomeKitConnection(None, "fd00::1", 5683)
        await asyncio.wait_for(conn.connect(acc.pairing_data()), 60)
        for c in fac.created:
            c.handler = handle
        readable = [10, 11, 13, 14, 3]
        base = await asyncio.wait_for(conn.read_characteristics([(1, i) for i in readable]), 60)
        if any("value" not in base.get((1, i), {}) for i in readable):
            ctx.mark_inconclusive(f"C17 CoAP overlap: baseline read incomplete: {base!r}")
            return
        for rnd in range(6):
            asked = [(1, i) for i in rng.sample(readable, rng.randint(2, 4))]
            mine = list(asked)  # the caller's own list object
            gate["ev"] = asyncio.Event()
            t1 = asyncio.ensure_future(conn.read_characteristics(mine))
            for _ in range(5):
                await asyncio.sleep(0)
            variant = (k + rnd) % 3
            t2 = None
            if variant in (0, 2):
                # a second caller queues behind the first and gives up before its turn
                t2 = asyncio.ensure_future(conn.read_characteristics([(1, rng.choice(readable))]))
                for _ in range(5):
                    await asyncio.sleep(0)
                t2.cancel()
                ctx.count("coap_queued_callers_cancelled")
            if variant in (1, 2):
                # the first caller re-uses its list for the next poll while the batch is in flight
                rng.choice([lambda: mine.reverse(), lambda: mine.pop(0), lambda: mine.insert(0, (1, 3)), lambda: mine.clear()])()
                ctx.count("coap_caller_lists_mutated_in_flight")
            gate["ev"].set()
            gate["ev"] = None
            try:
                res = await asyncio.wait_for(t1, 60)
            except Exception as ex:  # noqa: BLE001
                ctx.violation(f"coap-overlap-read-raises-{type(ex).__name__}", f"round {rnd} variant {variant}: the batch in flight raised {ex!r}", replay)
                return
            if t2 is not None:
                try:
                    await t2
                except BaseException:  # noqa: BLE001
                    pass
            want = {key: base[key]["value"] for key in asked}
            got = {key: res.get(key, {}).get("value") for key in asked}
            if got != want or set(res) != set(asked):
                ctx.violation("coap-item-result-wrong-or-shifted", f"overlap round {rnd} variant {variant}: requested {asked} (list later changed to {mine}); the accessory answered every item OK; result {res!r}, expected values {want!r}", replay)
                return
            # the session carries on
            try:
                nxt = await asyncio.wait_for(conn.read_characteristics([(1, 11), (1, 14)]), 60)
            except Exception as ex:  # noqa: BLE001
                ctx.violation(f"coap-session-read-raises-{type(ex).__name__}", f"overlap round {rnd} variant {variant}: the NEXT batch failed: {ex!r} (accessory decrypt errors: {acc.decrypt_errors})", replay)
                return
            if acc.decrypt_errors or any("value" not in nxt.get(key, {}) for key in ((1, 11), (1, 14))):
                ctx.violation("coap-request-stream-rejected-by-accessory", f"overlap round {rnd} variant {variant}: accessory decrypt errors {acc.decrypt_errors}, next batch {nxt!r}", replay)
                return
            ctx.count("coap_overlap_rounds")
    finally:
        fac.remove()


def coap_part(ctx) -> None:
    idx = 0
    for n in range(1, 5):
        for outcomes in itertools.product(OUTCOMES, repeat=n):
            idx += 1
            if not ctx.mine(idx):
                continue
            blens = [[1, 255, 256, 1000, 7][(idx + i) % 5] for i in range(n)]
            nontrivial = n > 1 or outcomes[0] not in ("ok0", "okn")
            ctx.case("coap", outcomes, tuple(blens), nontrivial=nontrivial, sample={"transport": "coap", "batch_outcomes": list(outcomes), "body_lens": blens}, kind="coap%d" % n)
            coap_batch(ctx, outcomes, blens, idx)
    ctx.exhaustive_parts["CoAP: all batches of 1..4 items over 13 per-item outcomes"] = True
    rng = ctx.grng("C17.coap")
    for k in range(ctx.pick(3000, 600000)):
        idx += 1
        if not ctx.mine(idx):
            continue
        n = rng.choice([5, 6])
        outcomes = tuple(rng.choice(OUTCOMES) for _ in range(n))
        blens = [rng.choice([0, 1, 255, 256, 1000]) or 1 for _ in range(n)]
        ctx.case("coap", outcomes, tuple(blens), sample={"transport": "coap", "batch_outcomes": list(outcomes), "body_lens": blens}, kind="coap56")
        coap_batch(ctx, outcomes, blens, idx)
    for k in range(ctx.pick(400, 4000)):
        idx += 1
        if ctx.mine(idx):
            n = 1 + k % 6
            ctx.case("coapreq", n, k, nontrivial=n > 1)
            coap_requests(ctx, n, k)


def run(ctx) -> None:
    async def main():
        await ble_part(ctx)
        for k in range(ctx.pick(2, 16)):
            if ctx.mine(k):
                await coap_long_session(ctx, k)
                await coap_overlap_session(ctx, k)

    asyncio.run(main())
    coap_part(ctx)


def replay(ctx, d) -> None:
    if d["t"] == "ble":
        ctx.case("replay")
        asyncio.run(ble_case(ctx, d["negotiated"], d["body_len"], d["secure"], d["status"], d["cuts"], d["rbody_len"], d["opcode"], d["iid"], d["negative"], d["seed"]))
    elif d["t"] == "coap":
        ctx.case("replay")
        coap_batch(ctx, tuple(d["outcomes"]), d["blens"], d["seed"])
    elif d["t"] == "coap-session":
        asyncio.run(coap_long_session(ctx, d["k"]))
    elif d.get("t") == "coap-overlap":
        asyncio.run(coap_overlap_session(ctx, d["k"]))
    else:
        ctx.case("replay")
        coap_requests(ctx, d["n"], d["seed"])
