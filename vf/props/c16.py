"""C16 Structured TLV8 messages round-trip for every defined message type.

Real code: aiohomekit.tlv8 (TLVStruct.encode/decode, tlv_iterator, tlv_array, (de)serializers), every TLVStruct
subclass found by reflection, the struct-valued Characteristic.value accessor, and the consumers of decoded BLE /
CoAP signatures. Oracle: vf.ref.structcodec (independent schema-driven encoder).
"""

from __future__ import annotations

import base64
import dataclasses
import enum
import importlib
import pkgutil
import typing
from collections import abc

from vf.ref import structcodec as ref

PROPERTY_ID = "C16"
LEVEL = "exploration"
RULE = (
    "cases = (struct class, field values). Every TLVStruct subclass found by reflection: every field alone and in random"
    " combinations, unset fields, str/bytes sizes {1,254,255,256,510,511}, int min/max/boundaries, every IntEnum member,"
    " nested structs to the depth the types allow, sequences of 1-4 structs whose items cross the 255 boundary; each"
    " encodable value is encoded by the real code (must equal the reference encoding) and decoded back (must be equal)."
    " Received structures: BLE service signatures with linked-service lists of 0..6 ids - ALL 65,536 single ids, a"
    " 256-value diagonal of pairs, random tuples - BLE characteristic signatures, and reference-encoded CoAP accessory"
    " databases (1-3 accessories x 1-4 services x 1-6 characteristics, values > 255 bytes, linked lists) compared field by"
    " field, via to_dict() and through the consumers' linking code. Distinct by (class, reference encoding);"
    " non-trivial = at least one field set."
)
ASSUMPTIONS = [
    "size-0 strings/bytes/empty lists/all-unset nested structs are recorded only (the quantifier starts at size 1)",
    "fields whose declared type has no serializer in the library (float) are left unset and listed in evidence",
    "where a class declares two fields with the same TLV type (Meshcop 128/129) the field the decoder populates is used;"
    " the alias behaviour is reported in evidence",
]
SHARDS = {"quick": 16, "thorough": 16}
TIMEOUT = {"quick": 900, "thorough": 7200}
MIN_CASES = {"quick": 60000, "thorough": 120000}
REQUIRED_COUNTERS = ["struct_roundtrips", "struct_classes_covered", "linked_id_lists_decoded", "coap_databases_decoded", "ble_signatures_decoded", "characteristic_accessor_checked", "characteristic_accessor_empty_message", "boundary_crossing_values"]

SIZES = [1, 254, 255, 256, 510, 511]


def load_structs():
    import aiohomekit
    from aiohomekit import tlv8

    for m in pkgutil.walk_packages(aiohomekit.__path__, "aiohomekit."):
        try:
            importlib.import_module(m.name)
        except Exception:  # noqa: BLE001
            pass

    def subs(c):
        for s in c.__subclasses__():
            yield s
            yield from subs(s)

    classes = sorted(set(subs(tlv8.TLVStruct)), key=lambda c: (c.__module__, c.__qualname__))
    return classes


INT_KINDS = {"u8": 1, "u16": 2, "u32": 4, "u64": 8, "u128": 16}


class Schema:
    def __init__(self):
        self.by_class = {}
        self.unsupported = []
        self.aliases = []

    def kind_of(self, tp):
        from aiohomekit import tlv8

        origin = typing.get_origin(tp)
        if origin in (abc.Sequence, list, typing.Sequence):
            (inner,) = typing.get_args(tp)
            if isinstance(inner, type) and issubclass(inner, tlv8.TLVStruct):
                return ("seq_struct", self.schema_for(inner), inner)
            if isinstance(inner, type) and issubclass(inner, int) and inner.__name__ in INT_KINDS:
                return ("seq_int", INT_KINDS[inner.__name__])
            return None
        if not isinstance(tp, type):
            return None
        if issubclass(tp, tlv8.TLVStruct):
            return ("struct", self.schema_for(tp), tp)
        if issubclass(tp, enum.IntEnum):
            return ("enum", tp)
        if tp.__name__ == "bu16" and issubclass(tp, int):
            return ("int", 2, "big")
        if issubclass(tp, int) and tp.__name__ in INT_KINDS:
            return ("int", INT_KINDS[tp.__name__], "little")
        if tp is str:
            return ("str",)
        if tp is bytes:
            return ("bytes",)
        return None

    def schema_for(self, cls):
        if cls in self.by_class:
            return self.by_class[cls]
        fields = []
        self.by_class[cls] = fields
        seen_types = {}
        for f in dataclasses.fields(cls):
            if not f.init or "tlv_type" not in f.metadata:
                continue
            kind = self.kind_of(f.type)
            t = int(f.metadata["tlv_type"])
            if kind is None:
                self.unsupported.append(f"{cls.__name__}.{f.name}: {f.type}")
                continue
            if t in seen_types:
                self.aliases.append(f"{cls.__name__}: fields {seen_types[t]!r} and {f.name!r} share TLV type {t}")
                # the decoder populates the field declared last: drop the earlier alias from the usable schema
                fields[:] = [x for x in fields if x[1] != t]
            seen_types[t] = f.name
            fields.append((f.name, t, kind))
        return fields


def ref_schema(schema):
    """Strip class objects so that vf.ref sees plain data only."""
    out = []
    for name, t, kind in schema:
        if kind[0] in ("struct", "seq_struct"):
            out.append((name, t, (kind[0], ref_schema(kind[1]))))
        elif kind[0] == "enum":
            out.append((name, t, ("enum",)))
        else:
            out.append((name, t, kind))
    return out


def gen_value(rng, kind, depth, big: bool):
    k = kind[0]
    if k == "int":
        bits = kind[1] * 8
        return rng.choice([0, 1, 255, 256, (1 << bits) - 1, (1 << (bits - 1)), rng.getrandbits(bits), rng.getrandbits(bits) & 0xFF00FF]) & ((1 << bits) - 1)
    if k == "enum":
        return rng.choice(list(kind[1]))
    if k == "str":
        n = rng.choice(SIZES) if big else rng.choice([1, 2, 5, 36])
        base = rng.choice(["a", "z9", "é", "€x"])
        s = (base * (n // len(base.encode()) + 1))
        while len(s.encode()) > n:
            s = s[:-1]
        s = s or "a"
        r = rng.random()
        if r < 0.25 and len(s) >= 1:
            # NUL / blank / control characters are ordinary characters of a UTF-8 string field, wherever they stand
            pad = rng.choice(["\x00", "\x00\x00", " ", "\n", "\t", "\x7f"])
            s = rng.choice([s[:-1] + pad[:1], pad[:1] + s[1:], s[: len(s) // 2] + pad[:1] + s[len(s) // 2 + 1 :], pad if n <= 2 else s[:-2] + pad])
            while len(s.encode()) > max(n, 1):
                s = s[1:]
            s = s or "\x00"
        return s
    if k == "bytes":
        n = rng.choice(SIZES) if big else rng.choice([1, 2, 7, 16, 32])
        return rng.randbytes(n)
    if k == "struct":
        v = gen_struct(rng, kind[1], depth + 1, big, at_least_one=True)
        return None if encodes_empty(v, kind[1]) else v  # all-unset nested structs are size 0: recorded only
    if k == "seq_struct":
        items = [gen_struct(rng, kind[1], depth + 1, big and rng.random() < 0.5, at_least_one=True) for _ in range(rng.randint(1, 4))]
        items = [v for v in items if not encodes_empty(v, kind[1])]
        if items and rng.random() < 0.3:
            # all-unset items (zero bytes between two separators) BEFORE a non-empty item: the separators keep their place. A
            # trailing all-unset item is not representable (nothing follows its separator) and stays excluded, see 8.3
            pos = rng.randrange(len(items))
            for _ in range(rng.randint(1, 2)):
                items.insert(pos, {})
        return items or None
    if k == "seq_int":
        return [rng.choice([0, 1, 5, 6, 255, 256, 257, 65535, rng.getrandbits(16)]) for _ in range(rng.randint(1, 6))]
    raise KeyError(k)


def gen_struct(rng, schema, depth, big, at_least_one=False, only=None):
    vals = {}
    for name, t, kind in schema:
        if only is not None and name != only:
            continue
        if kind[0] == "seq_int":
            continue  # the library has no serializer for packed integer lists (received structures only)
        if depth > 3 and kind[0] in ("struct", "seq_struct"):
            continue
        if only is None and rng.random() < 0.35:
            continue
        v = gen_value(rng, kind, depth, big)
        if v is not None:
            vals[name] = v
    if at_least_one and not vals:
        leafs = [(n, t, k) for n, t, k in schema if k[0] not in ("seq_int",) and (depth <= 3 or k[0] not in ("struct", "seq_struct"))]
        if leafs:
            n, t, k = rng.choice(leafs)
            v = gen_value(rng, k, depth, big)
            if v is not None:
                vals[n] = v
    return vals


def build(cls, schema, vals):
    kwargs = {}
    for name, t, kind in schema:
        if name not in vals:
            continue
        v = vals[name]
        if kind[0] == "struct":
            v = build(kind[2], kind[1], v)
        elif kind[0] == "seq_struct":
            v = [build(kind[2], kind[1], item) for item in v]
        kwargs[name] = v
    return cls(**kwargs)


def plain(vals, schema):
    """values with enum members replaced by ints for the reference encoder."""
    out = {}
    for name, t, kind in schema:
        if name not in vals:
            continue
        v = vals[name]
        if kind[0] == "enum":
            v = int(v)
        elif kind[0] == "struct":
            v = plain(v, kind[1])
        elif kind[0] == "seq_struct":
            v = [plain(i, kind[1]) for i in v]
        out[name] = v
    return out


def encodes_empty(vals, schema) -> bool:
    return len(ref.encode_struct(ref_schema(schema), plain(vals, schema))) == 0


def check_roundtrip(ctx, cls, schema, vals, origin) -> None:
    replay = {"cls": cls.__module__ + ":" + cls.__qualname__, "origin": origin}
    want = ref.encode_struct(ref_schema(schema), plain(vals, schema))
    nontrivial = len(want) > 0
    ctx.case(cls.__qualname__, want, nontrivial=nontrivial, sample={"class": cls.__qualname__, "fields": sorted(vals), "encoded_len": len(want)}, kind=cls.__qualname__)
    if not nontrivial:
        return
    if len(want) > 255:
        ctx.count("boundary_crossing_values")
    try:
        inst = build(cls, schema, vals)
        got = inst.encode()
    except Exception as ex:  # noqa: BLE001
        ctx.violation(f"struct-encode-raises-{type(ex).__name__}", f"{cls.__qualname__} fields {sorted(vals)}: {ex!r}", replay)
        return
    if bytes(got) != want:
        ctx.violation("struct-encoding-not-canonical", f"{cls.__qualname__} fields {sorted(vals)}: {len(got)} bytes vs reference {len(want)}", replay)
        return
    try:
        back = cls.decode(got)
    except Exception as ex:  # noqa: BLE001
        ctx.violation(f"struct-decode-raises-{type(ex).__name__}", f"{cls.__qualname__} fields {sorted(vals)} ({len(got)} bytes): {ex!r}", replay)
        return
    if back != inst:
        diff = [f.name for f in dataclasses.fields(cls) if f.init and getattr(back, f.name) != getattr(inst, f.name)]
        ctx.violation("struct-roundtrip-differs", f"{cls.__qualname__}: fields {diff} differ after decode(encode(m)) ({len(got)} bytes)", replay)
        return
    ctx.count("struct_roundtrips")
    # decoding is a function of the BYTES alone: the caller may do what it likes with a decoded message (they are ordinary
    # mutable dataclasses) - decoding the same bytes again still yields the message that was sent
    if scramble(back, top=True):
        try:
            again = cls.decode(bytes(got))
        except Exception as ex:  # noqa: BLE001
            ctx.violation(f"struct-decode-again-raises-{type(ex).__name__}", f"{cls.__qualname__} fields {sorted(vals)}: second decode of the same bytes after the first result was modified: {ex!r}", replay)
            return
        if again != inst:
            diff = [f.name for f in dataclasses.fields(cls) if f.init and getattr(again, f.name) != getattr(inst, f.name)]
            ctx.violation("struct-decode-depends-on-earlier-result", f"{cls.__qualname__}: after the caller modified the first decoded message, decoding the same {len(got)} bytes again gives different fields {diff}", replay)
            return
        ctx.count("struct_decodes_independent_of_earlier_results")


def scramble(obj, top=False) -> int:
    """Overwrite every nested part of a decoded message in place (what a caller is free to do); returns how many were touched."""
    n = 0
    for f in dataclasses.fields(obj):
        v = getattr(obj, f.name, None)
        if dataclasses.is_dataclass(v) and not isinstance(v, type):
            n += 1 + scramble(v)
        elif isinstance(v, list):
            for item in v:
                if dataclasses.is_dataclass(item) and not isinstance(item, type):
                    n += 1 + scramble(item)
            n += 1
            v.clear()
        elif isinstance(v, bytearray):
            n += 1
            v[:] = b"\xee" * (len(v) + 1)
    if not top:
        for f in dataclasses.fields(obj):
            try:
                setattr(obj, f.name, None)
            except Exception:  # noqa: BLE001 - a frozen structure cannot be altered by the caller either
                pass
    return n


def roundtrip_part(ctx, sch, classes) -> None:
    idx = 0
    covered = set()
    for cls in classes:
        schema = sch.schema_for(cls)
        usable = [f for f in schema if f[2][0] != "seq_int"]
        if not usable:
            continue
        # every field alone, at every boundary size / several draws
        for name, t, kind in usable:
            for rep in range(ctx.pick(8, 40)):
                idx += 1
                if not ctx.mine(idx):
                    continue
                rng = ctx.grng("C16.single", cls.__qualname__, name, rep)
                vals = gen_struct(rng, schema, 0, big=rep % 2 == 0, only=name)
                if vals:
                    check_roundtrip(ctx, cls, schema, vals, ("single", name, rep))
                    covered.add(cls.__qualname__)
        for rep in range(ctx.pick(150, 12000)):
            idx += 1
            if not ctx.mine(idx):
                continue
            rng = ctx.grng("C16.combo", cls.__qualname__, rep)
            vals = gen_struct(rng, schema, 0, big=rng.random() < 0.4, at_least_one=True)
            check_roundtrip(ctx, cls, schema, vals, ("combo", rep))
            covered.add(cls.__qualname__)
    ctx.counters["struct_classes_covered"] += len(covered)
    ctx.notes["struct_classes"] = sorted(c.__qualname__ for c in classes)


# ---------------------------------------------------------------------------------------------
# received structures
# ---------------------------------------------------------------------------------------------


KNOWN_LINKED = "packed-u16-sequence-decoded-as-tlv-array"


def predict_tlv_array_misparse(ids):
    """Model of the KNOWN defect mechanism: the packed little-endian u16 array is run through the TLV-array splitter
    (type/length walk, type 0 = separator, 255-length look-ahead) and every piece is read as one little-endian integer.
    Returns the list that mechanism yields, or "IndexError" when its walk runs off the end of the value."""
    raw = b"".join(int(i).to_bytes(2, "little") for i in ids)
    pieces = []
    start = 0
    off = 0
    while off < len(raw):
        t = raw[off]
        if off + 1 >= len(raw):
            return "IndexError"
        ln = raw[off + 1]
        this_off = off
        while ln == 255:
            peek = off + 2 + ln
            if peek >= len(raw) or raw[peek] != t:
                break
            off = peek
            if off + 1 >= len(raw):
                return "IndexError"
            ln = raw[off + 1]
        if t == 0:
            pieces.append(raw[start:this_off])
            start = this_off + 2
        off += 2 + ln
    if raw[start:]:
        pieces.append(raw[start:])
    return [int.from_bytes(p, "little") for p in pieces]


def linked_part(ctx) -> None:
    from aiohomekit.controller.ble.structs import Service as BleService
    from aiohomekit.controller.coap.structs import Pdu09Service

    ble_schema = [("service_properties", 15, ("int", 2, "little")), ("linked_services", 16, ("seq_int", 2))]

    def check(ids, props, origin):
        vals = {"linked_services": ids}
        if props is not None:
            vals["service_properties"] = props
        raw = ref.encode_struct(ble_schema, vals)
        replay = {"kind": "linked", "ids": list(ids), "props": props}
        ctx.case("linked", tuple(ids), props, nontrivial=len(ids) > 0, sample={"structure": "BLE service signature", "linked_ids": list(ids), "properties": props}, kind="linked%d" % min(len(ids), 3))
        predicted = predict_tlv_array_misparse(ids)
        try:
            svc = BleService.decode(raw)
            d = svc.to_dict()
        except Exception as ex:  # noqa: BLE001
            if type(ex).__name__ == predicted:
                ctx.violation(KNOWN_LINKED, f"service signature with linked ids {list(ids)} raises {ex!r}", replay)
                return True
            ctx.violation(f"linked-decode-raises-{type(ex).__name__}", f"ids {list(ids)}: {ex!r}", replay)
            return False
        got = list(svc.linked_services) if svc.linked_services is not None else []
        if got != list(ids):
            if got == predicted:
                # exactly what the known mechanism yields: one known finding, everything downstream of it is not re-judged
                ctx.violation(KNOWN_LINKED, f"service signature with linked ids {list(ids)} decodes to {got}", replay)
                ctx.count("known_linked_misparse_witnesses")
                return True
            ctx.violation("linked-services-decoded-wrong", f"service signature with linked ids {list(ids)} decodes to {got} (the known TLV-array mechanism would give {predicted})", replay)
            return False
        if ids and d.get("linked") != list(ids):
            ctx.violation("linked-services-to-dict-wrong", f"to_dict() linked {d.get('linked')} for ids {list(ids)}", replay)
            return False
        if props is not None and svc.service_properties != props:
            ctx.violation("service-properties-decoded-wrong", f"{svc.service_properties} != {props}", replay)
            return False
        # the CoAP service struct declares the same field
        c = Pdu09Service.decode(ref.encode_struct([("instance_id", 7, ("int", 2, "little")), ("linked_services", 16, ("seq_int", 2))], {"instance_id": 9, "linked_services": ids}))
        if (list(c.linked_services) if c.linked_services is not None else []) != list(ids):
            ctx.violation("linked-services-decoded-wrong", f"CoAP service with linked ids {list(ids)} decodes to {c.linked_services}", replay)
            return False
        ctx.count("linked_id_lists_decoded")
        return True

    idx = 0
    for x in range(65536):
        idx += 1
        if ctx.mine(idx):
            if not check([x], None if x % 3 else x % 8, "single"):
                return
    ctx.exhaustive_parts["all 65,536 single linked-service ids"] = True
    diag = list(range(256))
    for a in diag:
        for b in (a, (a * 257) & 0xFFFF, 255 - a, a << 8, 0):
            idx += 1
            if ctx.mine(idx):
                if not check([a, b], 1, "pair"):
                    return
    check([], 3, "empty")
    rng = ctx.rng("C16.linked")
    for k in range(ctx.pick(3000, 600000) // ctx.nshards):
        n = rng.randint(0, 6)
        ids = [rng.choice([0, 1, 5, 6, 255, 256, 0x00FF, 0xFF00, 0x1000, rng.getrandbits(16)]) for _ in range(n)]
        if not check(ids, rng.choice([None, 0, 1, 2, 7]), "random"):
            return


from vf.ref.coapdb import ACC_SCHEMA, CHAR_SCHEMA, DB_SCHEMA, SVC_SCHEMA  # noqa: E402,F401


def coap_db_part(ctx) -> None:
    import struct as pystruct

    from aiohomekit.controller.coap.structs import Pdu09Database
    from aiohomekit.model import Accessories

    rng = ctx.rng("C16.coapdb")
    for k in range(ctx.pick(1200, 120000) // ctx.nshards):
        accs = []
        next_iid = 1
        for a in range(rng.randint(1, 3)):
            svcs = []
            svc_iids = []
            for s in range(rng.randint(1, 4)):
                siid = next_iid
                next_iid += 1
                svc_iids.append(siid)
                chars = []
                for c in range(rng.randint(1, 6)):
                    ch = {"type": rng.choice([0x25, 0x23, 0x08, rng.getrandbits(128)]), "instance_id": next_iid, "properties": rng.choice([0x10, 0x30, 0xB0, 0x3FF])}
                    next_iid += 1
                    if rng.random() < 0.7:
                        fmt = rng.choice([0x01, 0x04, 0x06, 0x08, 0x0A, 0x10, 0x14, 0x19, 0x1B])
                        ch["presentation_format"] = pystruct.pack("<BxHxxx", fmt, rng.choice([0x2700, 0x272F, 0x27AD]))
                    if rng.random() < 0.3:
                        ch["user_descriptor"] = rng.randbytes(rng.choice([1, 20, 255, 256, 300, 511]))
                    if rng.random() < 0.2:
                        ch["valid_values"] = rng.randbytes(rng.choice([1, 3, 255, 256]))
                    chars.append({"characteristic": ch})
                svc = {"type": rng.choice([0x43, 0x3E, rng.getrandbits(128)]), "instance_id": siid}
                if chars:
                    svc["_characteristics"] = chars
                if rng.random() < 0.5:
                    svc["properties"] = rng.choice([0, 1, 2, 3])
                svcs.append({"service": svc})
            for sv in svcs:
                if rng.random() < 0.5:
                    others = [i for i in svc_iids if i != sv["service"]["instance_id"]]
                    if others:
                        sv["service"]["linked_services"] = rng.sample(others, rng.randint(1, min(3, len(others))))
            accs.append({"accessory": {"instance_id": a + 1, "_services": svcs}})
            next_iid = 1
        vals = {"_accessories": accs}
        raw = ref.encode_struct(DB_SCHEMA, vals)
        replay = {"kind": "coapdb", "k": k, "shard": ctx.shard}
        ctx.case("coapdb", raw, sample={"structure": "CoAP accessory database", "accessories": len(accs), "encoded_len": len(raw),
                                         "services": [len(a["accessory"]["_services"]) for a in accs]}, kind="coapdb")
        all_linked = [sv["service"].get("linked_services", []) for a in accs for sv in a["accessory"]["_services"]]
        try:
            db = Pdu09Database.decode(raw)
            d = db.to_dict()
        except Exception as ex:  # noqa: BLE001
            if any(predict_tlv_array_misparse(l) == type(ex).__name__ for l in all_linked if l):
                ctx.violation(KNOWN_LINKED, f"CoAP database decode raises {ex!r} on a linked-service list", replay)
                continue
            ctx.violation(f"coap-database-decode-raises-{type(ex).__name__}", f"database of {len(raw)} bytes: {ex!r}", replay)
            return
        ok = len(db.accessories) == len(accs)
        problems = []
        known_hit = []
        for acc_v, acc in zip(accs, db.accessories):
            av = acc_v["accessory"]
            if acc.instance_id != av["instance_id"] or len(acc.services) != len(av["_services"]):
                problems.append(f"accessory {av['instance_id']}: iid/services differ")
                continue
            for sv_v, sv in zip(av["_services"], acc.services):
                s = sv_v["service"]
                if sv.type != s["type"] or sv.instance_id != s["instance_id"]:
                    problems.append(f"service {s['instance_id']} type/iid differ")
                got_l = list(sv.linked_services) if sv.linked_services else []
                if got_l != s.get("linked_services", []):
                    if got_l == predict_tlv_array_misparse(s.get("linked_services", [])):
                        known_hit.append(f"service {s['instance_id']} linked {s.get('linked_services')} -> {got_l}")
                    else:
                        problems.append(f"service {s['instance_id']} linked {sv.linked_services} != {s.get('linked_services')}")
                if sv.properties != s.get("properties"):
                    problems.append(f"service {s['instance_id']} properties")
                want_chars = [c["characteristic"] for c in s.get("_characteristics", [])]
                got_chars = sv.characteristics if sv._characteristics else []
                if len(got_chars) != len(want_chars):
                    problems.append(f"service {s['instance_id']}: {len(got_chars)} characteristics != {len(want_chars)}")
                    continue
                for cv, c in zip(want_chars, got_chars):
                    for fname in ("type", "instance_id", "properties", "presentation_format", "valid_values", "user_descriptor"):
                        if getattr(c, fname) != cv.get(fname):
                            problems.append(f"characteristic {cv['instance_id']} field {fname}")
        if not ok or problems:
            ctx.violation("coap-database-fields-differ", f"{len(accs)} accessories: " + "; ".join(problems[:4]), replay)
            return
        if known_hit:
            ctx.violation(KNOWN_LINKED, f"CoAP database: {'; '.join(known_hit[:3])}", replay)
            ctx.count("known_linked_misparse_witnesses")
            ctx.count("coap_databases_decoded")
            continue  # consumers of the mis-decoded lists are not re-judged
        # consumers: to_dict() -> model linking
        try:
            model = Accessories.from_list(d)
        except Exception as ex:  # noqa: BLE001
            ctx.violation(f"coap-database-linking-raises-{type(ex).__name__}", f"Accessories.from_list(to_dict()) raised {ex!r}", replay)
            return
        for acc_v in accs:
            av = acc_v["accessory"]
            macc = model.aid(av["instance_id"])
            for sv_v in av["_services"]:
                s = sv_v["service"]
                got = sorted(x.iid for x in macc.services.iid(s["instance_id"]).linked)
                if got != sorted(set(s.get("linked_services", []))):
                    ctx.violation("coap-linked-services-model-differs", f"service {s['instance_id']}: model links {got} != {s.get('linked_services')}", replay)
                    return
        ctx.count("coap_databases_decoded")


def ble_sig_part(ctx) -> None:
    import struct as pystruct

    from aiohomekit.controller.ble.structs import Characteristic as BleChar

    schema = [
        ("type", 4, ("int", 16, "little")), ("instance_id", 5, ("int", 2, "little")), ("properties", 10, ("int", 2, "little")),
        ("presentation_format", 12, ("bytes",)), ("valid_range", 13, ("bytes",)), ("step_value", 14, ("bytes",)),
        ("valid_values", 17, ("bytes",)), ("valid_values_range", 18, ("bytes",)), ("service_instance_id", 7, ("bytes",)),
        ("service_type", 6, ("bytes",)), ("user_description", 11, ("bytes",)),
    ]
    rng = ctx.rng("C16.blesig")
    for k in range(ctx.pick(3000, 300000) // ctx.nshards):
        vals = {"type": rng.getrandbits(128), "instance_id": rng.getrandbits(16), "properties": rng.choice([0x10, 0x30, 0x1B0, 0x3FF, rng.getrandbits(10)])}
        fmt = rng.choice([0x01, 0x04, 0x06, 0x08, 0x0A, 0x10, 0x14, 0x19, 0x1B])
        if rng.random() < 0.8:
            vals["presentation_format"] = pystruct.pack("<BxHxxx", fmt, rng.choice([0x2700, 0x272F, 0x27AD, 0x2763]))
            if fmt in (0x04, 0x06, 0x08, 0x0A, 0x10, 0x14) and rng.random() < 0.6:
                code = {0x04: "<BB", 0x06: "<HH", 0x08: "<LL", 0x0A: "<QQ", 0x10: "<ll", 0x14: "<ff"}[fmt]
                lo, hi = (0, 100) if fmt != 0x10 else (-50, 50)
                vals["valid_range"] = pystruct.pack(code, lo, hi)
                vals["step_value"] = pystruct.pack(code[:2], 1)
        if rng.random() < 0.3:
            vals["service_instance_id"] = rng.getrandbits(16).to_bytes(2, "little")
            vals["service_type"] = rng.randbytes(16)
        if rng.random() < 0.2:
            vals["user_description"] = rng.randbytes(rng.choice([1, 30, 255, 256]))
        raw = ref.encode_struct(schema, vals)
        replay = {"kind": "blesig", "k": k, "shard": ctx.shard}
        ctx.case("blesig", raw, sample={"structure": "BLE characteristic signature", "fields": sorted(vals), "encoded_len": len(raw)}, kind="blesig")
        try:
            c = BleChar.decode(raw)
            d = c.to_dict()
        except Exception as ex:  # noqa: BLE001
            ctx.violation(f"ble-signature-decode-raises-{type(ex).__name__}", f"{ex!r}", replay)
            return
        bad = [n for n, _, _ in schema if getattr(c, n) != vals.get(n)]
        if bad:
            ctx.violation("ble-signature-fields-differ", f"fields {bad}", replay)
            return
        if d.get("iid") != vals["instance_id"] or d.get("type") != f"{vals['type']:X}":
            ctx.violation("ble-signature-to-dict-differs", f"{d.get('iid')} {d.get('type')}", replay)
            return
        if "valid_range" in vals and fmt != 0x14 and (d.get("minValue"), d.get("maxValue")) != ((0, 100) if fmt != 0x10 else (-50, 50)):
            ctx.violation("ble-signature-range-differs", f"{d.get('minValue')}..{d.get('maxValue')}", replay)
            return
        ctx.count("ble_signatures_decoded")


def accessor_part(ctx, sch) -> None:
    from aiohomekit.model import Accessory
    from aiohomekit.model.characteristics.data import characteristics as chardata

    rng = ctx.rng("C16.accessor")
    for ctype, meta in sorted(chardata.items()):
        st = meta.get("struct")
        if not st:
            continue
        schema = sch.schema_for(st)
        for rep in range(ctx.pick(12, 120)):
            if not ctx.mine(rep):
                continue
            is_array = bool(meta.get("array"))
            items = [gen_struct(rng, schema, 0, big=False, at_least_one=True) for _ in range(rng.randint(1, 3) if is_array else 1)]
            items = [v for v in items if not encodes_empty(v, schema)] or [gen_struct(rng, schema, 0, False, at_least_one=True)]
            if rep == 0:
                # the message with EVERY field unset / the list without items: zero bytes on the wire, "" in the database
                items = [] if is_array else [{}]
                ctx.count("characteristic_accessor_empty_message")
            raw = b"\x00\x00".join(ref.encode_struct(ref_schema(schema), plain(v, schema)) for v in items)
            acc = Accessory(1)
            svc = acc.add_service("0000FF00-0000-1000-8000-0026BB765291")
            ch = svc.add_char(ctype, format="tlv8", value=base64.b64encode(raw).decode(), perms=["pr", "pw"])
            ctx.case("accessor", ctype, raw, sample={"structure": "struct-valued characteristic", "type": ctype, "struct": st.__qualname__, "array": is_array}, kind="accessor")
            try:
                got = ch.value
            except Exception as ex:  # noqa: BLE001
                ctx.violation(f"characteristic-accessor-raises-{type(ex).__name__}", f"{ctype} ({st.__qualname__}): {ex!r}", {"kind": "accessor", "ctype": ctype})
                return
            want = [build(st, schema, v) for v in items]
            if (got if is_array else [got]) != want:
                ctx.violation("characteristic-accessor-differs", f"{ctype} ({st.__qualname__}, array={is_array})", {"kind": "accessor", "ctype": ctype})
                return
            ctx.count("characteristic_accessor_checked")
            # ... and the way back: a message the application wants to WRITE is handed to build_update as the base64 text of
            # its canonical encoding (fields longer than 255 bytes travel as several fragments); it comes out unchanged
            big_items = [gen_struct(rng, schema, 0, big=True, at_least_one=True) for _ in range(rng.randint(1, 2) if is_array else 1)]
            big_items = [v for v in big_items if not encodes_empty(v, schema)]
            if not big_items:
                continue
            text = base64.b64encode(b"\x00\x00".join(ref.encode_struct(ref_schema(schema), plain(v, schema)) for v in big_items)).decode()
            if len(text) > 20000:
                continue
            try:
                out = svc.build_update({ctype: text})
            except Exception as ex:  # noqa: BLE001
                ctx.violation(f"struct-write-refused-{type(ex).__name__}", f"{ctype} ({st.__qualname__}): build_update refused the canonical encoding ({len(text) * 3 // 4} bytes) of a message: {ex!r}", {"kind": "accessor", "ctype": ctype})
                return
            if out != [(1, ch.iid, text)]:
                ctx.violation("struct-write-altered", f"{ctype} ({st.__qualname__}): build_update returned {str(out)[:120]}", {"kind": "accessor", "ctype": ctype})
                return
            if len(text) * 3 // 4 > 255:
                ctx.count("struct_writes_over_255_bytes")
            ctx.count("struct_writes_prepared")


def gatt_fetch_part(ctx) -> None:
    """What the accessory's HAP-BLE signatures declare is what the model holds after the real GATT database fetch
    (vf/sim_gatt_db.py): formats, permission and event flags, service links in either direction, and the declared limits -
    a bound of exactly 0 included."""
    from vf import sim_gatt_db, vloop

    async def main():
        for k in range(ctx.pick(24, 600)):
            if ctx.mine(k):
                ctx.case("gatt-fetch", k, sample={"part": "BLE GATT database fetch", "layout": k}, kind="gatt-fetch")
                if not await sim_gatt_db.fetch_and_compare(ctx, ctx.grng("C16.gatt-fetch", k), {"gatt_fetch": k}):
                    return

    vloop.run(main())


def run(ctx) -> None:
    classes = load_structs()
    sch = Schema()
    for c in classes:
        sch.schema_for(c)
    ctx.notes["fields_without_library_serializer"] = sorted(set(sch.unsupported))
    ctx.notes["alias_fields"] = sorted(set(sch.aliases))
    roundtrip_part(ctx, sch, classes)
    linked_part(ctx)
    coap_db_part(ctx)
    ble_sig_part(ctx)
    accessor_part(ctx, sch)
    gatt_fetch_part(ctx)


def replay(ctx, d) -> None:
    if isinstance(d, dict) and d.get("gatt_fetch") is not None:
        ctx.shard, ctx.nshards = 0, 1
        gatt_fetch_part(ctx)
        return
    # replays re-run the deterministic part the witness came from
    ctx.shard = d.get("shard", 0) if isinstance(d, dict) else 0
    classes = load_structs()
    sch = Schema()
    for c in classes:
        sch.schema_for(c)
    kind = d.get("kind")
    if kind == "linked":
        from aiohomekit.controller.ble.structs import Service as BleService

        ids = d["ids"]
        raw = ref.encode_struct([("linked_services", 16, ("seq_int", 2))], {"linked_services": ids})
        ctx.case("replay")
        got = BleService.decode(raw).linked_services
        if list(got or []) != list(ids):
            ctx.violation("linked-services-decoded-wrong", f"service signature with linked ids {ids} decodes to {got}", d)
    elif kind == "coapdb":
        coap_db_part(ctx)
    elif kind == "blesig":
        ble_sig_part(ctx)
    elif kind == "accessor":
        accessor_part(ctx, sch)
    else:
        roundtrip_part(ctx, sch, [c for c in classes if c.__module__ + ":" + c.__qualname__ == d["cls"]])
