"""C01 Pair-verify yields session keys only for the authentic paired accessory.

Real code: aiohomekit.protocol.get_session_keys (+ resume_m1/resume_m3) fed as IP/CoAP and BLE feed it, and the
transports' key installs (IP SecureHomeKitConnection over simnet; BLE/CoAP installs in their simulators).
Oracle: vf.ref.pairverify (independent accessory that verifies M3 and implements pair-resume). Every case
carries an expected class ACCEPT / REJECT / EITHER decided by construction (who signed what), never by the repo.
"""

from __future__ import annotations

import asyncio

from cryptography.hazmat.primitives.asymmetric import ed25519, x25519

from vf import pairing_driver as drv
from vf.ref import pairverify as refpv
from vf.ref import tlv8 as reftlv

PROPERTY_ID = "C01"
LEVEL = "exploration"
RULE = (
    "cases = one pair-verify exchange each against the reference accessory, per pairing record (random LTSK/LTPK, ids of"
    " 1..64 bytes incl. non-ASCII) and feed mode. HONEST full and RESUMED exchanges must succeed with identical"
    " Control-Write/Read/Event keys and session id on both ends and the accessory must accept M3. ADVERSARIAL (class"
    " REJECT by construction): EVERY single-bit flip of every byte of the M2 State/PublicKey/EncryptedData and of M4;"
    " field removal; wrong-length and low-order public keys; inner sub-TLV re-sealed under the correct session key with"
    " wrong LTSK / signature over each permuted transcript / other identifier / keys of another exchange / truncated,"
    " extended, missing signature or identifier; an attacker key smuggled into the sub-TLV and used for the signature; the"
    " step answered with an error code (0x00..0x08, 0x80, 0xFF, empty); M2 recorded from another exchange (also played back by a key-less attacker who answers M3 with a bare M4); EncryptedData truncated to every length / replaced by a bare tag; unencrypted sub-TLV; resume replies"
    " with a tag from a wrong secret, flipped SessionID/Method/tag bits, tag truncated to 0..15 bytes or extended, unsolicited resume; identifier signed and presented in another letter case; RE-PAIRING history (same identifier, new long-term key: the new record accepts only the new key's holder, the old record only the old one's, in one process); MONITOR: the controller's M1 exchange key is new in every exchange of the process; every byte-prefix of the raw"
    " M2/M4 stream. EITHER (content-preserving): reordering and identical duplication - if accepted, keys must still"
    " equal the reference's. Distinct by (record, mutation, arg, mode); non-trivial = all."
)
ASSUMPTIONS = [
    "an M4 that omits the State item and carries no Error is accepted by documented design (issue #20 quirk): the"
    " zero-length prefix of M4 is therefore not judged",
    "an otherwise authentic M2/M4 that merely omits the State item is class EITHER (same documented tolerance)",
    "resume is exercised in the BLE feed mode only: IP and CoAP never pass a session to get_session_keys",
    "exceptions of any type count as 'fails with an error'; the histogram is evidence",
]
SHARDS = {"quick": 16, "thorough": 16}
TIMEOUT = {"quick": 900, "thorough": 7200}
MIN_CASES = {"quick": 15000, "thorough": 250000}
REQUIRED_COUNTERS = [
    "honest_accepted", "accessory_accepted_m3", "keys_compared", "resume_accepted", "adversarial_rejected",
    "m2_bitflips", "m4_bitflips", "exchange_keys_observed", "repair_history_steps", "unverified_peer_probes", "ble_impostor_probes", "ble_relink_impostor_probes", "coap_relink_impostor_probes", "ip_end_to_end_sessions", "ble_end_to_end_sessions", "coap_end_to_end_sessions",
]

BLE_COAP_BUILT = True
if not BLE_COAP_BUILT:
    REQUIRED_COUNTERS = [c for c in REQUIRED_COUNTERS if not c.startswith(("ble_", "coap_"))]

LOW_ORDER = [
    bytes(32),
    bytes([1]) + bytes(31),
    bytes.fromhex("e0eb7a7c3b41b8ae1656e3faf19fc46ada098deb9c32b1fd866205165f49b800"),
    bytes.fromhex("5f9c95bca3508c24b1d0b1559c83ef5b04445cc4581c8e86d8224eddd09f1157"),
    bytes.fromhex("ecffffffffffffffffffffffffffffffffffffffffffffffffffffffffffff7f"),
]


class Record:
    """A pairing record + the accessory identity behind it."""

    def __init__(self, rng, idx):
        n = rng.choice([1, 2, 17, 17, 17, 36, 64])
        if rng.random() < 0.15:
            acc_id = "".join(rng.choice("äß7:Zλ") for _ in range(max(1, n // 2)))
        elif n == 17:
            acc_id = ":".join(f"{rng.randrange(256):02X}" for _ in range(6))
        else:
            acc_id = "".join(rng.choice("0123456789ABCDEF:-") for _ in range(n))
        self.identity = refpv.AccessoryIdentity(acc_id.encode(), rng.randbytes(32))
        self.other = refpv.AccessoryIdentity(b"99:88:77:66:55:44", rng.randbytes(32))
        self.ios_seed = rng.randbytes(32)
        ios_ltsk = ed25519.Ed25519PrivateKey.from_private_bytes(self.ios_seed)
        self.ios_ltpk = refpv.raw_pub(ios_ltsk)
        m = rng.choice([1, 8, 36, 36, 64])
        self.ios_id = "".join(rng.choice("0123456789abcdef-") for _ in range(m)) if rng.random() < 0.85 else "ctl-" + "é" * (m // 2 + 1)
        self.identity.controllers[self.ios_id.encode()] = self.ios_ltpk
        self.other.controllers[self.ios_id.encode()] = self.ios_ltpk
        self.pairing_data = {
            "AccessoryPairingID": acc_id,
            "AccessoryLTPK": self.identity.ltpk.hex(),
            "iOSPairingId": self.ios_id,
            "iOSDeviceLTSK": self.ios_seed.hex(),
            "iOSDeviceLTPK": self.ios_ltpk.hex(),
        }


def compare_keys(ctx, out, ex, replay, label) -> bool:
    """ACCEPT post-condition: both ends hold identical keys / session id."""
    val = out.value
    if not (isinstance(val, tuple) and len(val) == 2 and callable(val[1])):
        ctx.violation("accept-value-shape", f"[{label}] get_session_keys returned {val!r}", replay)
        return False
    session_id, derive = val
    checks = [
        ("Control-Write", derive(b"Control-Salt", b"Control-Write-Encryption-Key"), ex.controller_to_accessory_key),
        ("Control-Read", derive(b"Control-Salt", b"Control-Read-Encryption-Key"), ex.accessory_to_controller_key),
        ("Event-Read", derive(b"Event-Salt", b"Event-Read-Encryption-Key"), ex.event_key),
    ]
    for name, got, want in checks:
        if bytes(got) != want:
            ctx.violation("session-key-differs", f"[{label}] {name} key differs from the accessory's", replay)
            return False
    if bytes(session_id) != ex.session_id:
        ctx.violation("session-id-differs", f"[{label}] session id {bytes(session_id).hex()} != accessory's {ex.session_id.hex()}", replay)
        return False
    ctx.count("keys_compared")
    return True


def _flip(data: bytes, bit: int) -> bytes:
    b = bytearray(data)
    b[bit // 8] ^= 1 << (bit % 8)
    return bytes(b)


def _replace(items, t, fn):
    return [(k, fn(v) if k == t else v) for k, v in items]


def _drop(items, t):
    return [(k, v) for k, v in items if k != t]


def reseal(ex, sub_items):
    return [(6, b"\x02"), (3, ex.acc_pk), (5, refpv.seal(ex.session_key, b"PV-Msg02", reftlv.encode(sub_items)))]


def build_mutation(name, arg, rec: Record, rng, recorded):
    """Returns (expected_class, mutate(stage, items, ex))."""
    stage_name, kind = name.split(":")
    klass = "REJECT"
    if kind in ("reorder", "dup_identical", "dup_state_identical"):
        klass = "EITHER"
    if kind == "drop" and arg == 6:
        # an otherwise authentic reply that merely omits the State item is tolerated by documented design (issue #20)
        klass = "EITHER"
    if name == "M4:prefix" and arg == 0:
        klass = "UNJUDGED"

    def m(stage, items, ex):
        if kind == "replay_whole_exchange":
            # a key-less attacker plays back the M2 recorded from an earlier exchange and answers M3 with a bare M4
            return recorded["m2_by_mode"][arg % 2] if stage == "M2" else [(6, b"\x04")]
        if stage != stage_name:
            return items
        if kind == "flip":
            raw_fields = [(t, v) for t, v in items]
            # arg indexes a bit over the concatenation of all field values (State, PublicKey, EncryptedData)
            pos = arg
            out = []
            done = False
            for t, v in raw_fields:
                nb = len(v) * 8
                if not done and pos < nb:
                    out.append((t, _flip(v, pos)))
                    done = True
                else:
                    out.append((t, v))
                    pos -= nb
            return out
        if kind == "drop":
            return _drop(items, arg)
        if kind == "reorder":
            its = list(items)
            perms = [[2, 1, 0], [1, 0, 2], [0, 2, 1], [1, 2, 0], [2, 0, 1]]
            return [its[i] for i in perms[arg % 5] if i < len(its)]
        if kind == "dup_identical":
            return list(items) + [items[arg % len(items)]] if items[arg % len(items)][0] != items[-1][0] else [items[arg % len(items)]] + list(items)
        if kind == "dup_state_identical":
            return [items[0]] + [items[1]] + [items[0]] + list(items[2:])
        if kind == "dup_adjacent":
            i = arg % len(items)
            return list(items[: i + 1]) + [items[i]] + list(items[i + 1 :])
        if kind == "pk_len":
            return _replace(items, 3, lambda v: (v + b"\x00")[:arg] if arg <= 33 else v + bytes(arg - 32))
        if kind == "pk_low_order":
            return _replace(items, 3, lambda v: LOW_ORDER[arg % len(LOW_ORDER)])
        if kind == "pk_other":
            # another valid key the accessory does not hold: AEAD must fail
            return _replace(items, 3, lambda v: refpv.raw_pub(x25519.X25519PrivateKey.from_private_bytes(rng.randbytes(32))))
        if kind == "wrong_ltsk":
            sig = rec.other.ltsk.sign(ex.acc_pk + rec.identity.pairing_id + ex.ios_pk)
            return reseal(ex, [(1, rec.identity.pairing_id), (10, sig)])
        if kind == "sig_permuted":
            parts = [ex.acc_pk, rec.identity.pairing_id, ex.ios_pk]
            perms = [[0, 2, 1], [1, 0, 2], [1, 2, 0], [2, 0, 1], [2, 1, 0]]
            info = b"".join(parts[i] for i in perms[arg % 5])
            if info == b"".join(parts):
                info = info[::-1]
            return reseal(ex, [(1, rec.identity.pairing_id), (10, rec.identity.ltsk.sign(info))])
        if kind == "sig_other_identifier":
            sig = rec.identity.ltsk.sign(ex.acc_pk + b"11:22:33:44:55:66" + ex.ios_pk)
            return reseal(ex, [(1, rec.identity.pairing_id), (10, sig)])
        if kind == "sig_without_ios_key":
            return reseal(ex, [(1, rec.identity.pairing_id), (10, rec.identity.ltsk.sign(ex.acc_pk + rec.identity.pairing_id))])
        if kind == "sig_other_exchange_keys":
            # genuine signature by the right LTSK, but over the keys of an earlier exchange (replayed inner signature)
            return reseal(ex, [(1, rec.identity.pairing_id), (10, recorded["signature"])])
        if kind == "wrong_accessory":
            # another accessory answering honestly with its own identity
            sig = rec.other.ltsk.sign(ex.acc_pk + rec.other.pairing_id + ex.ios_pk)
            return reseal(ex, [(1, rec.other.pairing_id), (10, sig)])
        if kind == "id_swapped_sig_real":
            sig = rec.identity.ltsk.sign(ex.acc_pk + rec.identity.pairing_id + ex.ios_pk)
            return reseal(ex, [(1, rec.identity.pairing_id + b"x"), (10, sig)])
        if kind == "id_case_variant":
            # the holder of the right long-term key signs (and presents) an identifier that differs from the stored one only
            # in letter case (arg 0: swapcase, 1: lower, 2: upper, 3: one 0x20 bit) - it is another identifier
            real = rec.identity.pairing_id
            pos = [i for i, c in enumerate(real) if 65 <= (c & 0xDF) <= 90]
            variants = [real.swapcase(), real.lower(), real.upper()] + ([real[: pos[-1]] + bytes([real[pos[-1]] ^ 0x20]) + real[pos[-1] + 1 :]] if pos else [])
            variants = [v for v in variants if v != real] or [real + b"a"]
            other_id = variants[arg % len(variants)]
            return reseal(ex, [(1, other_id), (10, rec.identity.ltsk.sign(ex.acc_pk + other_id + ex.ios_pk))])
        if kind == "sig_truncated":
            return reseal(ex, [(1, rec.identity.pairing_id), (10, ex.signature[:-1])])
        if kind == "sig_extended":
            return reseal(ex, [(1, rec.identity.pairing_id), (10, ex.signature + b"\x00")])
        if kind == "sig_flipped":
            return reseal(ex, [(1, rec.identity.pairing_id), (10, _flip(ex.signature, arg % 512))])
        if kind == "no_identifier":
            return reseal(ex, [(10, ex.signature)])
        if kind == "no_signature":
            return reseal(ex, [(1, rec.identity.pairing_id)])
        if kind == "inner_empty":
            return reseal(ex, [])
        if kind == "attacker_key_inside":
            # sub-TLV carries the attacker's own long-term public key in an extra item and is signed by that key
            atk = ed25519.Ed25519PrivateKey.from_private_bytes(rng.randbytes(32))
            sig = atk.sign(ex.acc_pk + rec.identity.pairing_id + ex.ios_pk)
            extra_type = [3, 9, 0, 11][arg % 4]
            items_in = [(1, rec.identity.pairing_id), (extra_type, refpv.raw_pub(atk)), (10, sig)]
            if arg >= 4:
                items_in = [(extra_type, refpv.raw_pub(atk)), (1, rec.identity.pairing_id), (10, sig)]
            return reseal(ex, items_in)
        if kind == "error":
            # the accessory answers the step with an error code (it did NOT accept): State present, Error appended
            return [(6, bytes([2 if stage_name == "M2" else 4])), (7, bytes([arg]) if arg >= 0 else b"")]
        if kind == "error_with_fields":
            return list(items) + [(7, bytes([arg]))]
        if kind == "wrong_label":
            return [(6, b"\x02"), (3, ex.acc_pk), (5, refpv.seal(ex.session_key, b"PV-Msg03", ex.sub_tlv))]
        if kind == "unencrypted":
            return [(6, b"\x02"), (3, ex.acc_pk), (5, ex.sub_tlv + rng.randbytes(16))]
        if kind == "replay_recorded_m2":
            return recorded["m2"]
        if kind == "encdata_trunc":
            return _replace(items, 5, lambda v: v[:arg])
        if kind == "encdata_tag_only":
            # EncryptedData = a valid tag over an EMPTY message under the session key
            return _replace(items, 5, lambda v: refpv.seal(ex.session_key, b"PV-Msg02", b""))
        if kind == "prefix":
            raw = reftlv.encode(items)
            return raw[: min(arg, len(raw) - 1)] if len(raw) > 0 else raw
        if kind == "wrong_state":
            # -1: State present but EMPTY; -2: the right number followed by a second byte
            return _replace(items, 6, lambda v: b"" if arg == -1 else bytes(v) + b"\x00" if arg == -2 else bytes([arg]))
        if kind == "extra_error_ignored":
            return list(items)
        raise KeyError(kind)

    return klass, m


SEEN_IOS_PK: dict = {}


def fresh_exchange_key(ctx, ex, replay) -> None:
    """Monitor: the controller's Curve25519 exchange key seen in M1 is new in every exchange of this process."""
    pk = getattr(ex, "ios_pk", None)
    if not pk:
        return
    ctx.count("exchange_keys_observed")
    if pk in SEEN_IOS_PK:
        ctx.violation("controller-exchange-key-reused", f"M1 PublicKey {bytes(pk).hex()[:16]}.. already used by exchange #{SEEN_IOS_PK[pk]}", replay)
    else:
        SEEN_IOS_PK[pk] = len(SEEN_IOS_PK)


def honest(ctx, rec: Record, rng, mode, label_idx) -> dict | None:
    ex = refpv.VerifyExchange(rec.identity, rng.randbytes(32))
    replay = {"kind": "honest", "rec": label_idx, "mode": mode}
    ctx.case("honest", label_idx, mode, rng.random(), sample={"kind": "honest", "acc_id": rec.pairing_data["AccessoryPairingID"], "ios_id": rec.ios_id, "mode": mode}, kind="honest")
    out = drv.run_pair_verify(ex, rec.pairing_data, mode)
    fresh_exchange_key(ctx, ex, replay)
    if out.exc is not None or not out.returned:
        ctx.violation(f"honest-exchange-fails-{type(out.exc).__name__}", f"{out.summary()}: {out.exc!r}; accessory verdict on M3: {ex.m3_verdict}", replay)
        return None
    if ex.m3_verdict != "ok":
        ctx.violation("accessory-rejects-m3", f"reference accessory: {ex.m3_verdict}", replay)
        return None
    ctx.count("accessory_accepted_m3")
    if not compare_keys(ctx, out, ex, replay, "honest"):
        return None
    ctx.count("honest_accepted")
    m2_items = [(t, v) for t, v in [(6, b"\x02"), (3, ex.acc_pk), (5, ex.encrypted)]]
    return {"out": out, "ex": ex, "m2": m2_items, "signature": ex.signature}


def resume_cases(ctx, rec: Record, rng, mode, first, label_idx) -> None:
    """Honest resume + adversarial resume replies."""
    session_id, derive = first["out"].value
    replay = {"kind": "resume", "rec": label_idx, "mode": mode}

    # honest resume
    ex2 = refpv.VerifyExchange(rec.identity, rng.randbytes(32), new_session_id=rng.randbytes(8))
    ctx.case("resume", label_idx, mode, "honest", sample={"kind": "resume-honest", "mode": mode}, kind="resume")
    out = drv.run_pair_verify(ex2, rec.pairing_data, mode, session_id=session_id, derive=derive)
    if out.exc is not None or not out.returned or not ex2.resumed:
        ctx.violation("honest-resume-fails", f"{out.summary()}: {out.exc!r} resumed={ex2.resumed}", replay)
        return
    val = out.value
    sid2, derive2 = val
    if bytes(sid2) != ex2.session_id:
        ctx.violation("resume-session-id-differs", f"{bytes(sid2).hex()} != {ex2.session_id.hex()}", replay)
        return
    for name, salt, info in (("Write", b"Control-Salt", b"Control-Write-Encryption-Key"), ("Read", b"Control-Salt", b"Control-Read-Encryption-Key"), ("Event", b"Event-Salt", b"Event-Read-Encryption-Key")):
        if bytes(derive2(salt, info)) != ex2.key(salt, info):
            ctx.violation("resume-key-differs", f"{name} key differs after resume", replay)
            return
    if bytes(derive2(b"Control-Salt", b"Control-Write-Encryption-Key")) == first["ex"].controller_to_accessory_key:
        ctx.violation("resume-reuses-old-key", "resumed session derives the previous session's key", replay)
        return
    ctx.count("resume_accepted")
    ctx.count("keys_compared")

    # adversarial resume replies: the controller asks to resume, the 'accessory' answers without knowing the secret
    def resume_reply(kind, arg):
        def m(stage, items, ex):
            if stage != "M2":
                return items
            new_sid = rng.randbytes(8)
            good_key = refpv.hkdf(first["ex"].shared if not first["ex"].resumed else first["ex"].shared, ex.ios_pk + new_sid, b"Pair-Resume-Response-Info")
            good = [(6, b"\x02"), (0, b"\x06"), (14, new_sid), (5, refpv.seal(good_key, b"PR-Msg02", b""))]
            if kind == "wrong_secret":
                k = refpv.hkdf(rng.randbytes(32), ex.ios_pk + new_sid, b"Pair-Resume-Response-Info")
                return [(6, b"\x02"), (0, b"\x06"), (14, new_sid), (5, refpv.seal(k, b"PR-Msg02", b""))]
            if kind == "request_info_label":
                k = refpv.hkdf(first["ex"].shared, ex.ios_pk + new_sid, b"Pair-Resume-Request-Info")
                return [(6, b"\x02"), (0, b"\x06"), (14, new_sid), (5, refpv.seal(k, b"PR-Msg02", b""))]
            if kind == "flip_sid":
                return _replace(good, 14, lambda v: _flip(v, arg % 64))
            if kind == "flip_tag":
                return _replace(good, 5, lambda v: _flip(v, arg % 128))
            if kind == "flip_method":
                return _replace(good, 0, lambda v: _flip(v, arg % 8))
            if kind == "nonempty_plaintext":
                return _replace(good, 5, lambda v: refpv.seal(good_key, b"PR-Msg02", b"x"))
            if kind == "echo_request_tag":
                req_key = refpv.hkdf(first["ex"].shared, ex.ios_pk + bytes(session_id), b"Pair-Resume-Request-Info")
                return [(6, b"\x02"), (0, b"\x06"), (14, bytes(session_id)), (5, refpv.seal(req_key, b"PR-Msg01", b""))]
            if kind == "trunc_tag":
                return _replace(good, 5, lambda v: v[:arg])
            if kind == "extend_tag":
                return _replace(good, 5, lambda v: v + bytes(arg))
            if kind == "trunc_tag_wrong_secret":
                k = refpv.hkdf(rng.randbytes(32), ex.ios_pk + new_sid, b"Pair-Resume-Response-Info")
                return [(6, b"\x02"), (0, b"\x06"), (14, new_sid), (5, refpv.seal(k, b"PR-Msg02", b"")[:arg])]
            if kind == "no_tag":
                return _drop(good, 5)
            if kind == "no_sid":
                return _drop(good, 14)
            raise KeyError(kind)

        return m

    plan = [("wrong_secret", 0), ("request_info_label", 0), ("nonempty_plaintext", 0), ("echo_request_tag", 0), ("no_tag", 0), ("no_sid", 0)]
    plan += [("trunc_tag", n) for n in range(16)] + [("extend_tag", n) for n in (1, 16)] + [("trunc_tag_wrong_secret", n) for n in (0, 1, 8, 15)]
    plan += [("flip_sid", b) for b in range(0, 64, ctx.pick(7, 1))] + [("flip_tag", b) for b in range(0, 128, ctx.pick(9, 1))] + [("flip_method", b) for b in range(8)]
    for kind, arg in plan:
        # an accessory that does not hold the resumable session (so it cannot be honest about resume)
        blank = refpv.AccessoryIdentity(rec.other.pairing_id, rng.randbytes(32))
        exa = refpv.VerifyExchange(blank, rng.randbytes(32))
        ctx.case("resume", label_idx, mode, kind, arg, sample={"kind": "resume-adversarial", "mutation": kind, "arg": arg}, kind="resume-adv")
        out = drv.run_pair_verify(exa, rec.pairing_data, mode, mutate=resume_reply(kind, arg), session_id=session_id, derive=derive)
        rp = {"kind": "resume-adv", "rec": label_idx, "mode": mode, "mutation": kind, "arg": arg}
        if out.returned and out.exc is None:
            ctx.violation(f"keys-after-forged-resume-{kind}", f"get_session_keys returned after resume reply {kind}({arg})", rp)
            continue
        ctx.count("adversarial_rejected")
        ctx.count(f"exc_{type(out.exc).__name__}")
    # unsolicited resume reply (controller did not ask to resume)
    exa = refpv.VerifyExchange(refpv.AccessoryIdentity(rec.other.pairing_id, rng.randbytes(32)), rng.randbytes(32))
    ctx.case("resume", label_idx, mode, "unsolicited")
    out = drv.run_pair_verify(exa, rec.pairing_data, mode, mutate=resume_reply("wrong_secret", 0))
    if out.returned and out.exc is None:
        ctx.violation("keys-after-unsolicited-resume", "resume reply accepted although no resume was requested", {"kind": "resume-unsolicited", "rec": label_idx, "mode": mode})
    else:
        ctx.count("adversarial_rejected")


def adversarial(ctx, rec: Record, rng, mode, name, arg, recorded, label_idx) -> None:
    klass, mut = build_mutation(name, arg, rec, rng, recorded)
    ex = refpv.VerifyExchange(rec.identity, rng.randbytes(32))
    ctx.case("adv", label_idx, mode, name, arg, sample={"kind": "adversarial", "mutation": name, "arg": arg, "mode": mode, "class": klass}, kind=name)
    replay = {"kind": "adv", "rec": label_idx, "mode": mode, "name": name, "arg": arg}
    out = drv.run_pair_verify(ex, rec.pairing_data, mode, mutate=mut)
    fresh_exchange_key(ctx, ex, replay)
    if name == "M2:flip":
        ctx.count("m2_bitflips")
    if name == "M4:flip":
        ctx.count("m4_bitflips")
    accepted = out.returned and out.exc is None
    if klass == "UNJUDGED":
        ctx.count("unjudged_by_design")
        return
    if klass == "EITHER":
        if accepted:
            ctx.count("either_accepted")
            compare_keys(ctx, out, ex, replay, name)
        else:
            ctx.count("either_rejected")
        return
    if accepted:
        ctx.violation(f"keys-after-{name.replace(':', '-')}", f"get_session_keys returned keys although reply {name}({arg}) [{mode}] is not authentic", replay)
        return
    if out.exc is None:
        ctx.violation(f"no-error-after-{name.replace(':', '-')}", out.summary(), replay)
        return
    ctx.count("adversarial_rejected")
    ctx.count(f"exc_{type(out.exc).__name__}")


def repair_history(ctx, rec: Record, rng, idx) -> None:
    """The accessory is reset and paired again: same identifier, NEW long-term key, new record. In the same process the new
    record must verify against the holder of the new key and must refuse the holder of the old one (and vice versa)."""
    import copy

    new = copy.copy(rec)
    new.identity = refpv.AccessoryIdentity(rec.identity.pairing_id, rng.randbytes(32))
    new.identity.controllers[rec.ios_id.encode()] = rec.ios_ltpk
    new.pairing_data = dict(rec.pairing_data, AccessoryLTPK=new.identity.ltpk.hex())
    for mode in ("ip", "ble"):
        for label, record, holder, want_accept in (("new-record-new-key", new, new, True), ("new-record-old-key", new, rec, False),
                                                   ("old-record-new-key", rec, new, False), ("old-record-old-key", rec, rec, True)):
            ex = refpv.VerifyExchange(holder.identity, rng.randbytes(32))
            ctx.case("repair", idx, mode, label, sample={"kind": "re-pairing history", "step": label, "mode": mode}, kind="repair")
            out = drv.run_pair_verify(ex, record.pairing_data, mode)
            accepted = out.returned and out.exc is None
            rp = {"kind": "repair", "rec": idx, "mode": mode}
            if want_accept and not accepted:
                ctx.violation("authentic-accessory-refused-after-re-pairing", f"{label} [{mode}]: {out.summary()} {out.exc!r}", rp)
                return
            if not want_accept and accepted:
                ctx.violation("keys-for-holder-of-another-long-term-key-after-re-pairing", f"{label} [{mode}]: pair-verify returned keys to the holder of a key that is not the record's", rp)
                return
            ctx.count("repair_history_steps")


def plan_for(ctx, m2_items):
    nbits_m2 = sum(len(v) for _, v in m2_items) * 8
    plan = [("M2:flip", b) for b in range(nbits_m2)] + [("M4:flip", b) for b in range(8)]
    plan += [("M2:drop", t) for t in (6, 3, 5)] + [("M4:drop", 6)]
    plan += [("M2:reorder", i) for i in range(5)] + [("M2:dup_identical", i) for i in range(3)] + [("M2:dup_state_identical", 0)]
    plan += [("M2:dup_adjacent", i) for i in (1, 2)]
    plan += [("M2:pk_len", n) for n in (0, 1, 31, 33, 64)] + [("M2:pk_low_order", i) for i in range(len(LOW_ORDER))] + [("M2:pk_other", 0)]
    plan += [("M2:wrong_ltsk", 0), ("M2:sig_other_identifier", 0), ("M2:sig_without_ios_key", 0), ("M2:sig_other_exchange_keys", 0),
             ("M2:wrong_accessory", 0), ("M2:id_swapped_sig_real", 0), ("M2:sig_truncated", 0), ("M2:sig_extended", 0),
             ("M2:no_identifier", 0), ("M2:no_signature", 0), ("M2:inner_empty", 0), ("M2:wrong_label", 0), ("M2:unencrypted", 0),
             ("M2:replay_recorded_m2", 0), ("M2:replay_whole_exchange", 0), ("M2:replay_whole_exchange", 1), ("M2:encdata_tag_only", 0)]
    enc_len = len(dict((t, v) for t, v in m2_items)[5])
    plan += [("M2:encdata_trunc", n) for n in sorted({0, 1, 15, 16, 17, enc_len - 17, enc_len - 16, enc_len - 1} | set(range(0, enc_len, ctx.pick(13, 1))))]
    plan += [("M2:attacker_key_inside", i) for i in range(8)] + [("M2:id_case_variant", i) for i in range(4)]
    plan += [("M4:error", c) for c in (0, 1, 2, 3, 4, 5, 6, 7, 8, 0x80, 255, -1)] + [("M2:error", c) for c in (0, 1, 2, 6, 255)]
    plan += [("M2:error_with_fields", c) for c in (0, 1, 2, 7, 255)]
    plan += [("M2:sig_permuted", i) for i in range(5)] + [("M2:sig_flipped", b) for b in range(0, 512, 37)]
    raw_len = len(reftlv.encode(m2_items))
    plan += [("M2:prefix", n) for n in range(raw_len)] + [("M4:prefix", n) for n in range(3)]
    plan += [("M2:wrong_state", s) for s in (0, 1, 3, 4, 6, 255, -1, -2)] + [("M4:wrong_state", s) for s in (0, 1, 2, 3, 5, 6, -1, -2)]
    return plan


async def ip_end_to_end(ctx, idx) -> None:
    """Key install on IP: first encrypted request must decrypt at the accessory and the reply at the controller."""
    from vf import simnet, vloop

    rng = ctx.grng("C01.ip", idx)
    w = simnet.World(rng, hosts=[rng.choice(["10.0.0.5", "fd00::5", "192.168.1.77"])])
    replay = {"kind": "ip", "idx": idx}
    ctx.case("ip-e2e", idx, sample={"kind": "ip-end-to-end", "host": w.hosts[0]}, kind="ip")
    try:
        try:
            await asyncio.wait_for(w.connection.ensure_connection(), 30)
            data = await asyncio.wait_for(w.connection.get_json("/accessories"), 40)
        except Exception as ex:  # noqa: BLE001
            conn = w.accessory.conns[-1] if w.accessory.conns else None
            detail = f"accessory decode errors={conn.decode_errors if conn else None} m3={conn.exchange.m3_verdict if conn and conn.exchange else None}"
            ctx.violation(f"ip-session-fails-{type(ex).__name__}", f"honest IP session failed: {ex!r}; {detail}", replay)
            return
        conn = w.accessory.conns[-1]
        if not conn.secure or conn.decode_errors or not data.get("accessories"):
            ctx.violation("ip-session-keys-mismatch", f"secure={conn.secure} decode_errors={conn.decode_errors}", replay)
            return
        if not any(r["secure"] and r["target"] == "/accessories" for r in conn.requests):
            ctx.violation("ip-request-not-encrypted", "accessory did not receive the request inside the session", replay)
            return
        ctx.count("ip_end_to_end_sessions")
        # ---- the connection is lost and the NEXT peer never proves anything (it does not even answer M1): no session may be
        # reported for it and nothing but /pair-verify may reach it - least of all a request in clear text ----
        w.accessory.script_for = lambda h, a: simnet.ConnScript(verify="hang")
        n_before = len(w.accessory.conns)
        conn.close()
        for _ in range(6):
            await asyncio.sleep(0.5)
            await vloop.settle()
            if len(w.accessory.conns) > n_before:
                break
        if len(w.accessory.conns) > n_before:
            conn2 = w.accessory.conns[-1]
            await vloop.settle()
            if w.connection.is_connected:
                ctx.violation("session-reported-before-peer-proved-possession", "after a reconnect is_connected is true while the new peer has not answered pair-verify M1", replay)
                return
            t = asyncio.ensure_future(w.pairing.get_characteristics([(1, 9)]))
            t.add_done_callback(lambda f: f.cancelled() or f.exception())
            await asyncio.sleep(3.0)
            await vloop.settle()
            leaked = [r for r in conn2.requests if r["target"] != "/pair-verify"]
            t.cancel()
            if leaked or conn2.secure:
                ctx.violation("request-sent-to-unverified-peer", f"the unverified peer received {[(r['method'], r['target'], 'encrypted' if r['secure'] else 'CLEAR TEXT') for r in leaked]}", replay)
                return
            ctx.count("unverified_peer_probes")
    finally:
        await w.close()


def run(ctx) -> None:
    n_rec = ctx.pick(20, 2000)
    for idx in range(n_rec):
        if not ctx.mine(idx):
            continue
        rng = ctx.grng("C01.rec", idx)
        rec = Record(rng, idx)
        firsts = {}
        for mode in ("ip", "ble"):
            for _ in range(3):
                h = honest(ctx, rec, rng, mode, idx)
                if h is None:
                    break
                firsts[mode] = h
        if len(firsts) != 2:
            continue
        recorded = {"m2": firsts["ip"]["m2"], "signature": firsts["ip"]["signature"], "m2_by_mode": [firsts["ip"]["m2"], firsts["ble"]["m2"]]}
        # session resumption is only ever requested by the BLE transport (which feeds decoded dicts)
        resume_cases(ctx, rec, rng, "ble", honest(ctx, rec, rng, "ble", idx) or firsts["ble"], idx)
        plan = plan_for(ctx, firsts["ip"]["m2"])
        for j, (name, arg) in enumerate(plan):
            # both feed modes for structural mutants, alternating for the bit-flip enumeration
            modes = ("ip", "ble") if not name.endswith(":flip") else (("ip",) if (j + idx) % 2 else ("ble",))
            for mode in modes:
                adversarial(ctx, rec, rng, mode, name, arg, recorded, idx)
        repair_history(ctx, rec, rng, idx)
    ctx.exhaustive_parts["every single-bit flip of every M2/M4 field byte, every byte-prefix, per record"] = True

    from vf import vloop
    from vf.props import c01_transports

    async def e2e():
        for idx in range(ctx.pick(16, 600)):
            if ctx.mine(idx):
                await ip_end_to_end(ctx, idx)
        if BLE_COAP_BUILT:
            await c01_transports.run_ble(ctx)
            await c01_transports.run_coap(ctx)

    vloop.run(e2e())


def replay(ctx, d) -> None:
    from vf import vloop

    if d["kind"] == "ip":
        vloop.run(ip_end_to_end(ctx, d["idx"]))
        return
    idx = d["rec"]
    rng = ctx.grng("C01.rec", idx)
    rec = Record(rng, idx)
    mode = d["mode"]
    first = honest(ctx, rec, rng, "ip", idx)
    if d["kind"] == "honest" or first is None:
        honest(ctx, rec, rng, mode, idx)
        return
    if d["kind"].startswith("resume"):
        resume_cases(ctx, rec, rng, mode, first, idx)
        return
    if d["kind"] == "repair":
        repair_history(ctx, rec, rng, idx)
        return
    recorded = {"m2": first["m2"], "signature": first["signature"], "m2_by_mode": [first["m2"], first["m2"]]}
    adversarial(ctx, rec, rng, mode, d["name"], d["arg"], recorded, idx)
