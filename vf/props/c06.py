"""C06 No nonce is reused and no encrypted message is accepted twice or out of order (IP, BLE, CoAP).

Real code: SecureHomeKitProtocol (IP) on real transports, BlePairing + ble.client + ble.key through the simulated GATT
accessory, coap.connection.EncryptionContext.post_bytes/_decrypt_response and EventResource.render_put behind a scripted
fake CoAP context. Oracle: vf.monitors.AeadMonitor - every AEAD call of the real code is logged; an offline checker
decides nonce uniqueness and accept-once-in-production-order per key, using the production index the simulated
accessory registered for every genuine ciphertext.
"""

from __future__ import annotations

import asyncio
import itertools
import json

PROPERTY_ID = "C06"
LEVEL = "exploration"
RULE = (
    "cases = fault histories per transport over {send request of 1 / 1024 / 1025 bytes (1-2 frames), deliver next genuine"
    " message, replay an earlier genuine message, deliver a message with a future counter, deliver a corrupted message,"
    " cancel the in-flight request (CoAP: caller cancellation with the answer withheld or lost), time out; CoAP additionally: accessory counter skipped ahead by 1-3 / 7, NOT_FOUND reply,"
    " genuine / replayed / skipped / corrupted EVENT}: ALL histories of the bounded depth per transport, seeded random"
    " histories of depth 8-40, and (BLE) a cancellation sweep over every loop iteration of a request. After every history"
    " the AEAD log is checked per key. Distinct by (transport, history); non-trivial = history contains a fault action."
)
ASSUMPTIONS = [
    "a session that ends (fatal decrypt error, close) is followed by a NEW session with fresh keys: reuse of a counter under a"
    " new key is not nonce reuse",
    "CoAP findings are keyed by mechanism from monitor facts: a duplicate / out-of-order accept that happened after"
    " _decrypt_response moved the receive counter backwards = coap-response-rewind-replay; a send-nonce reuse after"
    " _decrypt_response moved the send counter backwards = coap-zero-reset-send-nonce-reuse; anything else is reported",
]
SHARDS = {"quick": 16, "thorough": 16}
TIMEOUT = {"quick": 900, "thorough": 7200}
MIN_CASES = {"quick": 3000, "thorough": 25000}
REQUIRED_COUNTERS = ["ip_encrypts_logged", "ip_accepts_logged", "ip_rejects_logged", "ble_encrypts_logged", "ble_accepts_logged", "ble_rejects_logged",
                     "coap_encrypts_logged", "coap_accepts_logged", "coap_rejects_logged", "coap_event_accepts_logged", "sessions_rekeyed", "ble_cancel_sweep_points", "coap_requests_cancelled_in_flight", "coap_concurrent_request_pairs", "ble_multi_fragment_requests"]


def report(ctx, transport, history, findings, replay, classify=None) -> None:
    seen = set()
    for f in findings:
        known = classify(f) if classify is not None else None  # (may refine f["kind"])
        key = known or f"{transport}-{f['kind']}"
        if key in seen:
            continue
        seen.add(key)
        detail = {k: v for k, v in f.items() if k not in ("key",)}
        ctx.violation(key, f"[{transport}] history {history!r}: {detail}", replay)


# ---------------------------------------------------------------------------------------------
# IP
# ---------------------------------------------------------------------------------------------

IP_ALPHABET = "123GRFXCTE"


async def ip_history(ctx, history: str, key) -> None:
    from vf import monitors, simnet, vloop

    rng = ctx.grng("C06.ip", key)
    mon = monitors.AeadMonitor().install()
    w = simnet.World(rng)
    outstanding = []  # (conn, request)
    sent_frames: dict[int, list[bytes]] = {}
    tasks = []
    counters = {}

    def responder(conn, req):
        if conn.secure and req["target"].startswith("/x/"):
            outstanding.append((conn, req))
            return True
        return False

    w.accessory.script_for = lambda host, attempt: simnet.ConnScript(responder=responder)
    replay = {"t": "ip", "history": history, "key": key}
    ctx.case("ip", history, nontrivial=any(c in history for c in "RFXCTE"), sample={"transport": "ip", "history": history}, kind="ip-rand" if len(history) > 7 else "ip")

    def current():
        for c in reversed(w.accessory.conns):
            if c.is_open and c.secure:
                return c
        return None

    def genuine_frames(conn, plain):
        keyb = conn.exchange.accessory_to_controller_key
        frames = conn.encoder.frames(plain)
        for fr in frames:
            idx = counters.get(conn.index, 0)
            counters[conn.index] = idx + 1
            mon.register_genuine(keyb, fr[2:], idx)
        return frames

    import zlib

    if zlib.crc32(repr((history, key)).encode()) % 3 == 0:
        # a connection that lets several requests be in flight at once (constructor parameter concurrency_limit): every one
        # of them is sealed under its own counter value
        w.connection._concurrency_limit = asyncio.Semaphore(3)
        ctx.count("ip_histories_with_several_requests_in_flight")
    try:
        await asyncio.wait_for(w.connection.ensure_connection(), 30)
        await vloop.settle()
        n = 0
        for a in history:
            conn = current()
            if a in "123":
                n += 1
                body = bytes(rng.randrange(32, 127) for _ in range({"1": 1, "2": 1024, "3": 1025}[a]))
                t = asyncio.ensure_future(w.connection.put(f"/x/{n}", body))
                t.add_done_callback(lambda f: f.cancelled() or f.exception())
                tasks.append(t)
            elif a == "G" and outstanding:
                c, req = outstanding.pop(0)
                if c.is_open:
                    frames = genuine_frames(c, c.http(200, json.dumps({"echo": req["target"]}).encode(), "application/hap+json"))
                    sent_frames.setdefault(c.index, []).extend(frames)
                    c.transport.write(b"".join(frames))
            elif a == "R" and conn is not None and sent_frames.get(conn.index):
                conn.transport.write(rng.choice(sent_frames[conn.index]))
            elif a == "R" and conn is not None:
                # nothing sent yet on this connection: produce one genuine event first, then replay it
                frames = genuine_frames(conn, conn.event(b'{"characteristics":[{"aid":1,"iid":9,"value":1}]}'))
                sent_frames.setdefault(conn.index, []).extend(frames)
                conn.transport.write(b"".join(frames))
                await vloop.settle()
                if conn.is_open:
                    conn.transport.write(frames[0])
            elif a == "F" and conn is not None:
                conn.encoder.counter += 1  # the accessory skips a counter value
                counters[conn.index] = counters.get(conn.index, 0) + 1
                frames = genuine_frames(conn, conn.event(b'{"characteristics":[{"aid":1,"iid":9,"value":2}]}'))
                conn.transport.write(b"".join(frames))
            elif a == "X" and conn is not None:
                frames = genuine_frames(conn, conn.event(b'{"characteristics":[{"aid":1,"iid":9,"value":3}]}'))
                fr = bytearray(frames[0])
                fr[rng.randrange(2, len(fr))] ^= 1 << rng.randrange(8)
                conn.transport.write(bytes(fr))
            elif a == "E" and conn is not None:
                # a genuine frame with ZERO plaintext bytes (length 0 + tag: it consumes a counter value like any other),
                # then the same bytes again: the replay must not authenticate
                keyb = conn.exchange.accessory_to_controller_key
                fr = conn.encoder.frame(b"", allow_empty=True)
                idx = counters.get(conn.index, 0)
                counters[conn.index] = idx + 1
                mon.register_genuine(keyb, fr[2:], idx)
                sent_frames.setdefault(conn.index, []).append(fr)
                conn.transport.write(fr)
                await vloop.settle()
                if conn.is_open:
                    conn.transport.write(fr)
                    ctx.count("ip_empty_frames_replayed")
            elif a == "C":
                for t in tasks:
                    if not t.done():
                        t.cancel()
                        break
            elif a == "T":
                await asyncio.sleep(31)
            await vloop.settle()
            if current() is None:
                for _ in range(4):
                    await asyncio.sleep(0.5)
                    await vloop.settle()
                    if w.connection.is_connected:
                        break
        findings, stats = mon.analyze()
        ctx.count("ip_encrypts_logged", stats["encrypts"])
        ctx.count("ip_accepts_logged", stats["decrypts_ok"])
        ctx.count("ip_rejects_logged", stats["decrypts_failed"])
        ctx.count("sessions_rekeyed", max(0, len([c for c in w.accessory.conns if c.secure]) - 1))
        report(ctx, "ip", history, findings, replay)
        # after a failed / cancelled request the connection must have been abandoned (counters cannot desynchronise)
    finally:
        for t in tasks:
            t.cancel()
        mon.remove()
        await w.close()


# ---------------------------------------------------------------------------------------------
# BLE
# ---------------------------------------------------------------------------------------------

BLE_ALPHABET = "rwLPUKctRD"


async def ble_history(ctx, history: str, key, cancel_at=None) -> None:
    from vf import monitors, sim_ble_acc, vloop

    rng = ctx.grng("C06.ble", key)
    mon = monitors.AeadMonitor().install()
    w = sim_ble_acc.BleWorld(rng)
    w.accessory.monitor = mon
    replay = {"t": "ble", "history": history, "cancel_at": cancel_at, "key": key}
    ctx.case("ble", history, cancel_at, nontrivial=any(c in history for c in "PUKctD") or cancel_at is not None,
             sample={"transport": "ble", "history": history, "cancel_at_loop_iteration": cancel_at}, kind="ble-sweep" if cancel_at is not None else ("ble-rand" if len(history) > 6 else "ble"))
    acc = w.accessory
    loop = asyncio.get_running_loop()
    long_value: dict = {}
    # second observation point, ABOVE the cipher: what the session's receive key object hands to the PDU layer. Whatever sits
    # between the two (a cache of recent reads, a retry wrapper) cannot make one ciphertext count as a message twice.
    from aiohomekit.controller.ble import key as keymod

    orig_key_decrypt = keymod.DecryptionKey.decrypt
    handed_up: dict = {}

    def key_decrypt(self_, data):
        out = orig_key_decrypt(self_, data)
        sig = (id(self_), bytes(data))
        if sig in handed_up and not handed_up.get("reported"):
            handed_up["reported"] = True
            ctx.violation("ble-accepted-twice", f"history {history!r}: the session's receive key handed the same {len(data)}-byte ciphertext to the PDU layer a second time (first as message #{handed_up[sig]}, now as #{len(handed_up)})", replay)
        handed_up.setdefault(sig, len(handed_up))
        ctx.count("ble_messages_handed_up_by_the_receive_key")
        return out

    keymod.DecryptionKey.decrypt = key_decrypt

    def arm(fault):
        def hook(client, handle, pending):
            acc.response_hook = None
            s = client.session
            if s is None or not pending:
                return pending
            out = list(pending)
            if fault == "P":
                older = [ct for ct in s.produced if ct not in out]
                if older:
                    out[0] = rng.choice(older)
            elif fault == "U":
                pt = s.plain.get(out[0])
                if pt is not None:
                    out[0] = s.encrypt_at(pt, s.sc + 1)
            elif fault == "K":
                b = bytearray(out[0])
                b[rng.randrange(len(b))] ^= 1 << rng.randrange(8)
                out[0] = bytes(b)
            elif fault == "D" and len(out) >= 3:
                # the link hands the controller a fragment it has just been given a second time, in place of the next one
                k = rng.choice([rng.randrange(0, len(out) - 1), len(out) - 2])
                out[k + 1] = out[k]
                ctx.count("ble_fragments_duplicated_in_place_of_the_next")
            elif fault == "D":
                # single-fragment response: the previous response once more
                older = [ct for ct in s.produced if ct not in out]
                if older:
                    out[0] = older[-1]
            return out

        acc.response_hook = hook

    async def op(kind):
        if kind == "w":
            return await w.pairing.put_characteristics([(1, 11, rng.randrange(100))])
        if kind == "L":
            # a request that needs several fragments (each fragment is sealed under its own counter value)
            ctx.count("ble_multi_fragment_requests")
            text = "".join(rng.choice("abcdefghijklmnopqrstuvwxyz0123456789") for _ in range(rng.choice([300, 400, 700, 296, 446, 594])))  # the last three: every response fragment is full (150 bytes)
            res = await w.pairing.put_characteristics([(1, 15, text)])
            if not res and acc.values.get(15) == ("raw", text.encode()):
                long_value["text"] = text
            return res
        if kind == "R":
            # ... and a RESPONSE of several fragments: reading the long value back. End-to-end oracle (independent of the
            # decryptor hook): a read returns what the accessory holds, or fails
            want = long_value.get("text")
            res = await w.pairing.get_characteristics([(1, 15)])
            got = res.get((1, 15), {}).get("value")
            if want is not None and acc.values.get(15) == ("raw", want.encode()):
                if "value" in res.get((1, 15), {}) and got != want:
                    d = next((i for i, (x, y) in enumerate(zip(got or "", want)) if x != y), min(len(got or ""), len(want)))
                    ctx.violation("ble-response-differs-from-what-the-accessory-sent", f"history {history!r}: read of a {len(want)}-character value returned {len(got or '')} characters, first difference at {d} (fragments of the response were not the ones sealed for it)", replay)
                elif got == want:
                    ctx.count("ble_multi_fragment_responses_read_back")
            return res
        return await w.pairing.get_characteristics([(1, rng.choice([11, 14]))])

    try:
        # establish the first session with one honest request
        try:
            await asyncio.wait_for(op("r"), 300)
        except Exception as ex:  # noqa: BLE001
            ctx.mark_inconclusive(f"BLE harness: honest first request failed: {ex!r}")
            return
        pending_fault = None
        for i, a in enumerate(history):
            if a in "PUKD":
                pending_fault = a
                continue
            if a in "rwLR":
                if pending_fault:
                    arm(pending_fault)
                    pending_fault = None
                t = asyncio.ensure_future(op(a))
                if cancel_at is not None and i == len(history) - 1:
                    loop.at_iteration[loop.iterations + cancel_at] = t.cancel
                try:
                    await asyncio.wait_for(t, 600)
                except BaseException:  # noqa: BLE001 - outcomes are judged by the monitor, not here
                    pass
            elif a == "c":
                # cancel a request that is blocked inside its GATT read
                gate = asyncio.Event()
                client = acc.clients[-1] if acc.clients and acc.clients[-1].is_connected else None
                if client is not None:
                    client.gate = gate
                t = asyncio.ensure_future(op("r"))
                for _ in range(12):
                    await asyncio.sleep(0)
                t.cancel()
                gate.set()
                try:
                    await t
                except BaseException:  # noqa: BLE001
                    pass
            elif a == "t":
                client = acc.clients[-1] if acc.clients and acc.clients[-1].is_connected else None
                if client is not None:
                    client.read_fault = asyncio.TimeoutError()
                try:
                    await asyncio.wait_for(op("r"), 600)
                except BaseException:  # noqa: BLE001
                    pass
            await vloop.settle()
        # a final honest request must work (fresh keys if the link was dropped)
        try:
            await asyncio.wait_for(op("r"), 600)
        except Exception as ex:  # noqa: BLE001
            ctx.count("ble_final_request_failed")
        findings, stats = mon.analyze()
        ctx.count("ble_encrypts_logged", stats["encrypts"])
        ctx.count("ble_accepts_logged", stats["decrypts_ok"])
        ctx.count("ble_rejects_logged", stats["decrypts_failed"])
        ctx.count("sessions_rekeyed", max(0, len(acc.sessions) - 1))
        if cancel_at is not None:
            ctx.count("ble_cancel_sweep_points")
        # two sessions must never share a key (counters restart only with fresh keys)
        keys = [s.c2a_key for s in acc.sessions] + [s.a2c_key for s in acc.sessions]
        if len(set(keys)) != len(keys):
            ctx.violation("ble-session-key-reused-across-sessions", f"history {history!r}: {len(acc.sessions)} sessions share a key", replay)
        report(ctx, "ble", history, findings, replay)
    finally:
        keymod.DecryptionKey.decrypt = orig_key_decrypt
        loop.at_iteration.clear()
        mon.remove()
        await w.close()


# ---------------------------------------------------------------------------------------------
# CoAP
# ---------------------------------------------------------------------------------------------

COAP_ALPHABET = "GRSFCNTXYPegscb"


class _Resp:
    def __init__(self, code, payload):
        self.code = code
        self.payload = payload


async def coap_history(ctx, history: str, key) -> None:
    from aiocoap.numbers.codes import Code
    from aiohomekit.controller.coap import connection as cmod
    from cryptography.hazmat.primitives.ciphers.aead import ChaCha20Poly1305
    from vf import sim_coap

    rng = ctx.grng("C06.coap", key)
    log = []
    kr, ks, ke = rng.randbytes(32), rng.randbytes(32), rng.randbytes(32)
    recv = sim_coap.RecordingAead(kr, "recv", log)
    send = sim_coap.RecordingAead(ks, "send", log)
    event = sim_coap.RecordingAead(ke, "event", log)
    # accessory side (independent objects, own counters)
    a_recv, a_send, a_event = ChaCha20Poly1305(ks), ChaCha20Poly1305(kr), ChaCha20Poly1305(ke)
    st = {"rc": 0, "sc": 0, "ec": 0, "produced": [], "events": [], "genuine": {}, "egenuine": {}}
    import hashlib

    def produce_response(payload=b"\x02\x00\x00\x00\x00"):
        ct = a_send.encrypt(sim_coap.nonce(st["sc"]), payload, b"")
        st["genuine"][hashlib.sha256(ct).digest()] = st["sc"]
        st["sc"] += 1
        st["produced"].append(ct)
        return ct

    def produce_event(iid=10, bad=False):
        plain = b"".join([b"\x04" + iid.to_bytes(2, "little") + (3).to_bytes(2, "little") + b"\x01\x01\x01"])
        if bad:
            plain += b"\x04" + (11).to_bytes(2, "little") + (3).to_bytes(2, "little") + b"\x02\x01\x01"
        ct = a_event.encrypt(sim_coap.nonce(st["ec"]), plain, b"")
        st["egenuine"][hashlib.sha256(ct).digest()] = st["ec"]
        st["ec"] += 1
        st["events"].append(ct)
        return ct

    behaviour = {"next": "G"}

    async def handler(msg):
        b = behaviour["next"]
        st["inflight"] = st.get("inflight", 0) + 1
        st["max_inflight"] = max(st.get("max_inflight", 0), st["inflight"])
        try:
            return await handler_inner(msg, b)
        finally:
            st["inflight"] -= 1

    async def handler_inner(msg, b):
        st.setdefault("wire", set()).add(hashlib.sha256(bytes(msg.payload)).digest())
        try:
            a_recv.decrypt(sim_coap.nonce(st["rc"]), bytes(msg.payload), b"")
            st["rc"] += 1
        except Exception:  # noqa: BLE001
            st.setdefault("acc_decrypt_errors", 0)
            st["acc_decrypt_errors"] += 1
        if b == "T":
            await asyncio.sleep(3600)
        if b == "L":
            produce_response()  # answered, but the answer never reaches the (cancelled) caller
            await asyncio.sleep(3600)
        if b == "H":
            # the network delays this answer: if ANOTHER request of the same session arrives meanwhile, its answer (sent later
            # by the accessory) is delivered first. Requests of one session are serialised by the controller, so on a correct
            # tree nothing arrives during the hold and the answers stay in order.
            r = produce_response()
            if st.get("hold") is None:
                st["hold"] = asyncio.Event()
                for _ in range(12):
                    if st["hold"].is_set():
                        break
                    await asyncio.sleep(0)
                st["hold"] = None
            else:
                st["hold"].set()
            return _Resp(Code.CHANGED, r)
        if b == "G":
            return _Resp(Code.CHANGED, produce_response())
        if b == "R":
            if st["produced"]:
                return _Resp(Code.CHANGED, rng.choice(st["produced"]))
            return _Resp(Code.CHANGED, produce_response())
        if b == "Z":
            # replay of the very first response of the session
            return _Resp(Code.CHANGED, st["produced"][0] if st["produced"] else produce_response())
        if b == "S":
            for _ in range(rng.randint(1, 3)):
                produce_response()  # responses the controller never saw
            return _Resp(Code.CHANGED, produce_response())
        if b == "F":
            for _ in range(7):
                produce_response()
            return _Resp(Code.CHANGED, produce_response())
        if b == "C":
            ct = bytearray(produce_response())
            ct[rng.randrange(len(ct))] ^= 1 << rng.randrange(8)
            return _Resp(Code.CHANGED, bytes(ct))
        if b == "N":
            return _Resp(Code.NOT_FOUND, produce_response())
        return _Resp(Code.CHANGED, produce_response())

    fake = sim_coap.FakeContext(handler)
    enc = cmod.EncryptionContext(recv, send, event, "coap://[fd00::1]:5683/", fake)
    # mechanism facts: how _decrypt_response moved the counters
    facts = []
    orig_dr = cmod.EncryptionContext._decrypt_response

    async def spy(self_, response):
        before = (self_.recv_ctr, self_.send_ctr, len(log))
        raised = True
        try:
            r = await orig_dr(self_, response)
            raised = False
            return r
        finally:
            facts.append({"recv_before": before[0], "send_before": before[1], "recv_after": self_.recv_ctr, "send_after": self_.send_ctr, "log_from": before[2], "log_to": len(log), "raised": raised})

    cmod.EncryptionContext._decrypt_response = spy
    delivered = []

    class Owner:
        def event_received(self, ev):
            delivered.append(ev)

    class Info:
        def find_characteristic_by_iid(self, iid):
            return None

    class Conn:
        pass

    conn = Conn()
    conn.enc_ctx = enc
    conn.owner = Owner()
    conn.info = Info()
    resource = cmod.EventResource(conn)
    replay = {"t": "coap", "history": history, "key": key}
    ctx.case("coap", history, nontrivial=any(c in history for c in "RSFCNTXYZPgscb"), sample={"transport": "coap", "history": history}, kind="coap-rand" if len(history) > 6 else "coap")
    ended = False
    try:
        for a in history:
            if a in "GRSFCNTZ":
                if enc.coap_ctx is None:
                    ended = True
                    break
                behaviour["next"] = a
                try:
                    await asyncio.wait_for(enc.post_bytes(b"\x00\x03\x00\x0a\x00\x00\x00"), 120)
                except Exception:  # noqa: BLE001 - the monitor judges
                    pass
            elif a == "P":
                # two callers at once on one session
                if enc.coap_ctx is None:
                    ended = True
                    break
                behaviour["next"] = "H"
                await asyncio.gather(enc.post_bytes(b"\x00\x03\x00\x0a\x00\x00\x00"), enc.post_bytes(b"\x00\x03\x00\x0b\x00\x00\x00"), return_exceptions=True)
                ctx.count("coap_concurrent_request_pairs")
            elif a in "XY":
                # the CALLER cancels the request while it is in flight (X: the accessory never answers it, Y: its answer is
                # lost); the session stays up, so the next request must not reuse the nonce
                if enc.coap_ctx is None:
                    ended = True
                    break
                behaviour["next"] = "T" if a == "X" else "L"
                t = asyncio.ensure_future(enc.post_bytes(b"\x00\x03\x00\x0a\x00\x00\x00"))
                for _ in range(rng.randint(2, 6)):
                    await asyncio.sleep(0)
                t.cancel()
                await asyncio.gather(t, return_exceptions=True)
                ctx.count("coap_requests_cancelled_in_flight")
            else:
                from aiocoap import Message

                if a == "b":
                    # a genuine event (authenticates at the current counter) whose SECOND entry is malformed, so that its
                    # processing fails after decryption and after the first entry was dispatched; then the same datagram
                    # again: it consumed its counter value and must not be accepted a second time
                    payload = produce_event(bad=True)
                    st.setdefault("bad_events", set()).add(payload)
                    try:
                        await resource.render_put(Message(code=Code.PUT, payload=payload))
                    except Exception:  # noqa: BLE001 - the failing entry is the accessory's fault; the replay is judged
                        ctx.count("coap_event_processing_failed_after_decrypt")
                elif a == "e":
                    payload = produce_event()
                elif a == "g":
                    payload = rng.choice(st["events"]) if st["events"] else produce_event()
                elif a == "s":
                    produce_event()
                    payload = produce_event()
                else:
                    payload = bytearray(produce_event())
                    payload[rng.randrange(len(payload))] ^= 1
                    payload = bytes(payload)
                try:
                    await resource.render_put(Message(code=Code.PUT, payload=payload))
                except Exception as ex:  # noqa: BLE001
                    if payload in st.get("bad_events", ()):
                        # the deliberately ill-formed event (action b), delivered when its counter happens to be current: its
                        # processing fails by construction; only what the AEAD log shows is judged
                        ctx.count("coap_event_processing_failed_after_decrypt")
                        continue
                    ctx.violation(f"coap-event-handler-raises-{type(ex).__name__}", f"history {history!r}: {ex!r}", replay)
                    return
        # ---- offline analysis of the AEAD log ----
        enc_seen = {}
        acc_seen = {"recv": {}, "event": {}}
        last = {"recv": -1, "event": -1}
        findings = []
        for i, ev in enumerate(log):
            if ev["op"] == "encrypt":
                ctx.count("coap_encrypts_logged")
                sig = (ev["key"], ev["nonce"])
                on_wire = ev["ct"] in st.get("wire", ())
                if sig in enc_seen and on_wire and enc_seen[sig][1]:
                    # both messages left the controller (a request sealed after the session destroyed itself and never handed
                    # to the network is a crash of that caller, not a second message under the nonce)
                    findings.append({"kind": "nonce-reuse", "log_index": i, "nonce": ev["nonce"].hex(), "keyname": ev["key"]})
                elif sig in enc_seen:
                    ctx.count("coap_sealed_but_never_sent")
                if sig not in enc_seen or on_wire:
                    enc_seen[sig] = (i, on_wire or (sig in enc_seen and enc_seen[sig][1]))
            elif ev.get("ok"):
                ctx.count("coap_event_accepts_logged" if ev["key"] == "event" else "coap_accepts_logged")
                gen = st["genuine"] if ev["key"] == "recv" else st["egenuine"]
                idx = gen.get(ev["ct"])
                seen = acc_seen[ev["key"]]
                if ev["key"] == "event" and idx is not None and ev["ct"] not in seen and idx > last["event"] + 1:
                    # events have no resynchronisation: the k-th event the accessory sealed is accepted k-th or not at all
                    findings.append({"kind": "event-accepted-ahead-of-an-undelivered-earlier-event", "log_index": i, "index": idx, "after": last["event"], "keyname": "event"})
                if ev["ct"] in seen:
                    findings.append({"kind": "accepted-twice", "log_index": i, "index": idx, "keyname": ev["key"]})
                elif idx is not None and idx < last[ev["key"]]:
                    findings.append({"kind": "accepted-out-of-order", "log_index": i, "index": idx, "after": last[ev["key"]], "keyname": ev["key"]})
                seen[ev["ct"]] = i
                if idx is not None:
                    last[ev["key"]] = max(last[ev["key"]], idx)
            else:
                ctx.count("coap_rejects_logged")

        def classify(f):
            li = f["log_index"]
            # which _decrypt_response calls had completed or were running when the offending AEAD call happened?
            upto = [fact for fact in facts if fact["log_from"] <= li]
            if f["keyname"] == "recv" and f["kind"] in ("accepted-twice", "accepted-out-of-order") and st.get("max_inflight", 0) > 1:
                # requests of one session overlapped (they are serialised on the unchanged tree): answers that cross on the
                # network are then accepted out of order - not the replay mechanism of the known finding
                f["kind"] += "-with-overlapping-requests"
                return None
            if f["keyname"] == "recv" and f["kind"] in ("accepted-twice", "accepted-out-of-order"):
                # the receive counter only ever moves backwards inside _decrypt_response (rewind-5 / reset-to-zero): a duplicate
                # or out-of-order accept is the known mechanism iff such a backward move happened before or during this call
                for fact in upto:
                    nonces = [int.from_bytes(log[j]["nonce"][4:], "little") for j in range(fact["log_from"], min(fact["log_to"], li + 1)) if log[j]["key"] == "recv"]
                    if fact["recv_after"] < fact["recv_before"] or any(n < fact["recv_before"] for n in nonces):
                        return "coap-response-rewind-replay"
                return None
            if f["keyname"] == "send" and f["kind"] == "nonce-reuse":
                for fact in upto:
                    if fact["log_to"] <= li and fact["send_after"] < fact["send_before"]:
                        if fact.get("raised"):
                            # every resynchronisation guess FAILED (the session must end there): encrypting again with the
                            # zeroed counter is not the known finding (whose zero guess decrypts the replayed first answer)
                            f["kind"] += "-after-failed-resynchronisation"
                            return None
                        if not (fact["send_after"] == 0 and fact["recv_after"] == 1):
                            # the known mechanism is the last-resort guess "both counters are zero" that DECRYPTS (send counter 0,
                            # receive counter 0 -> 1); a send counter pulled back to anything else is something new
                            f["kind"] += "-after-send-counter-moved-back"
                            return None
                        return "coap-zero-reset-send-nonce-reuse"
                return None
            return None

        report(ctx, "coap", history, findings, replay, classify)
        if ended:
            ctx.count("coap_history_ended_early")
    finally:
        cmod.EncryptionContext._decrypt_response = orig_dr


# ---------------------------------------------------------------------------------------------


def run(ctx) -> None:
    from vf import vloop

    async def main():
        idx = 0
        d_ip = ctx.pick(3, 5)
        for n in range(1, d_ip + 1):
            for h in itertools.product(IP_ALPHABET, repeat=n):
                idx += 1
                if ctx.mine(idx):
                    await ip_history(ctx, "1" + "".join(h), idx)
        d_ble = ctx.pick(3, 5)
        for n in range(1, d_ble + 1):
            for h in itertools.product(BLE_ALPHABET, repeat=n):
                idx += 1
                if ctx.mine(idx):
                    await ble_history(ctx, "".join(h) + "r", idx)
        d_coap = ctx.pick(3, 5)
        for n in range(1, d_coap + 1):
            for h in itertools.product(COAP_ALPHABET, repeat=n):
                idx += 1
                if ctx.mine(idx):
                    await coap_history(ctx, "GG" + "".join(h) + "G", idx)
        # directed CoAP histories: replay of the first response once the counter is far beyond the rewind window
        for h in ("GGGGGGGGZG", "GGGGGGGGGGGZGG", "GGGRG", "GGGGGGRGRG"):
            idx += 1
            if ctx.mine(idx):
                await coap_history(ctx, h, ("directed", h))
        # directed BLE histories: a long value is written, then read back (a response of several fragments) with and without
        # a fragment handed over twice
        for h in ("LR", "LDR", "LRDR", "LDRR", "wLDRr", "LRRDRPR", "LKR", "LUR", "LPR"):
            idx += 1
            if ctx.mine(idx):
                await ble_history(ctx, h, ("directed-ble", h))
        ctx.exhaustive_parts[f"all histories to depth {d_ip} (IP, 10 actions), {d_ble} (BLE, 10), {d_coap} (CoAP, 15)"] = True
        # BLE cancellation sweep: cancel at every loop iteration of a request (after 0-2 earlier requests)
        for pre in ("", "r", "wr"):
            for k in range(1, ctx.pick(60, 120)):
                idx += 1
                if ctx.mine(idx):
                    await ble_history(ctx, pre + "r", ("sweep", pre, k), cancel_at=k)
                    await ble_history(ctx, pre + "w", ("sweepw", pre, k), cancel_at=k)
        rng = ctx.rng("C06.random")
        for k in range(ctx.pick(1600, 120000) // ctx.nshards):
            t = k % 3
            n = rng.randint(8, 40)
            if t == 0:
                await ip_history(ctx, "1" + "".join(rng.choice("112233GGGGRFXCTE") for _ in range(n)), ("r", ctx.shard, k))
            elif t == 1:
                await ble_history(ctx, "".join(rng.choice("rrrwwLLPUKctRRD") for _ in range(min(n, 16))), ("r", ctx.shard, k))
            else:
                await coap_history(ctx, "".join(rng.choice("GGGGGRSFCNXYZPeeegscb") for _ in range(n)), ("r", ctx.shard, k))

    vloop.run(main())


def replay(ctx, d) -> None:
    from vf import vloop

    def tup(x):
        return tuple(tup(i) for i in x) if isinstance(x, (list, tuple)) else x

    key = tup(d.get("key", "replay"))

    async def main():
        if d["t"] == "ip":
            await ip_history(ctx, d["history"], key)
        elif d["t"] == "ble":
            await ble_history(ctx, d["history"], key, cancel_at=d.get("cancel_at"))
        else:
            await coap_history(ctx, d["history"], key)

    vloop.run(main())
