"""C01 key installs on BLE and CoAP (end-to-end through the transport simulators)."""

from __future__ import annotations


async def run_ble(ctx) -> None:
    from vf import sim_ble_acc

    await sim_ble_acc.c01_sessions(ctx)


async def run_coap(ctx) -> None:
    from vf import sim_coap

    await sim_coap.c01_sessions(ctx)
