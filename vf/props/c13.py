"""C13 Reads and writes report per-characteristic outcomes faithfully (IP, CoAP, BLE).

Real code: IpPairing.get_characteristics / put_characteristics / format_characteristic_list through simnet;
CoAP read/write result mapping and CoAPPairing.put_characteristics; BlePairing.put_characteristics through the
simulated BLE accessory. Oracle: the scripted accessory is the ground truth (per-item accept/reject with status).
Only unambiguous replies are judged (see ASSUMPTIONS).
"""

from __future__ import annotations

import asyncio
import itertools
import json

PROPERTY_ID = "C13"
LEVEL = "exploration"
RULE = (
    "cases = (request set, accessory reply). Request sets of 1..4 characteristics over 1..2 aids with permissions {pr+pw,"
    " pw only, pr+pw+tw}. Replies: EVERY status vector over {0, the 12 defined HAP codes, +70402 (positive-signed), -1, 7,"
    " 12345} for <= 2 items and a covering sample for 3-4; reads as 200 / 207; writes as 204 / 207 listing all items / 207"
    " listing only failures; request-wide status with full / partial / empty list; missing, duplicated, non-dict (true, 5,"
    " null, 'x') and id-less entries. IP through the simulated network; CoAP through the real result mapping with PDUs"
    " built by the reference encoder; BLE through the simulated GATT accessory with a per-iid status script (normal and"
    " timed write). Distinct by (transport, op, request ids, reply body); non-trivial = reply carries at least one"
    " non-zero status or a malformed entry."
)
ASSUMPTIONS = [
    "judged: items mentioned with a status, all items of a 204, unmentioned requested items under a request-wide status"
    " (reads); NOT judged: unmentioned items of a 207 without request-wide status, write entries lacking a status field",
    "for duplicated entries either duplicate's content is accepted; 'the call fails' is an accepted outcome for a rejected write",
    "status 0 on a mentioned item is reported by omission of the status key (documented behaviour of the formatter)",
]
SHARDS = {"quick": 16, "thorough": 16}
TIMEOUT = {"quick": 900, "thorough": 7200}
MIN_CASES = {"quick": 3000, "thorough": 12000}
REQUIRED_COUNTERS = ["ip_reads_judged", "ip_writes_judged", "notifications_checked", "malformed_entries_skipped", "global_status_applied", "coap_reads_judged", "coap_writes_judged", "ble_writes_judged"]
BLE_BUILT = True
COAP_BUILT = True

STATUSES = [0, -70401, -70402, -70403, -70404, -70405, -70406, -70407, -70408, -70409, -70410, -70411, -70412, 70402, -1, 7, 12345]
# (aid, iid) -> perms in the simulated accessory database (vf.simnet.default_db)
PERMS = {(a, i): p for a in (1, 2) for i, p in ((9, "prpw"), (10, "prpw"), (11, "pw"), (12, "prpwtw"), (13, "pr"))}
MALFORMED = [True, 5, None, "x", {"iid": 9, "value": 1}, {"aid": 1, "value": 1}, [], {"aid": 1}]



def _raising_listener():
    def bad(ev):
        raise RuntimeError("a consumer's callback fails")

    return bad

def status_vectors(n, rng, quick):
    if n <= 2 or (n == 3 and not quick):
        yield from itertools.product(STATUSES, repeat=n)
        return
    # covering sample: every status in every position + random
    for pos in range(n):
        for s in STATUSES:
            v = [0] * n
            v[pos] = s
            yield tuple(v)
    for _ in range(60 if quick else 600):
        yield tuple(rng.choice(STATUSES) for _ in range(n))


def id_sets(rng):
    keys = sorted(PERMS)
    sets = [[(1, 9)], [(1, 11)], [(1, 12)], [(1, 9), (1, 10)], [(1, 9), (2, 9)], [(1, 11), (1, 9)], [(1, 9), (1, 10), (2, 12)], [(1, 9), (1, 11), (2, 10), (2, 13)]]
    for _ in range(6):
        sets.append(rng.sample(keys, rng.randint(1, 4)))
    return sets


class IpCase:
    def __init__(self, ctx, w):
        self.ctx = ctx
        self.w = w
        self.notifications = []
        # other consumers share the pairing: some of them raise in their callbacks (before and after the one judged here)
        for _ in range(2):
            w.pairing.dispatcher_connect(_raising_listener())
        w.pairing.dispatcher_connect(lambda ev: self.notifications.append(ev) if ev else None)
        w.pairing.dispatcher_connect(_raising_listener())
        def fold_back(ev, pairing=w.pairing):
            # a realistic consumer (Home Assistant does this): fold every notified change into the pairing's model, so a later
            # write of the value the model already holds is still a write the accessory accepted
            try:
                if ev and pairing.accessories:
                    pairing.accessories.process_changes(ev)
            except Exception:  # noqa: BLE001 - ids unknown to the model
                pass

        w.pairing.dispatcher_connect(fold_back)
        self.reply = None
        w.accessory.script_for = lambda host, attempt: __import__("vf.simnet", fromlist=["x"]).ConnScript(responder=self.responder)

    def responder(self, conn, req):
        if conn.secure and req["target"].startswith("/characteristics") and self.reply is not None:
            code, doc = self.reply
            wire = conn.http(code) if doc is None else conn.http(code, json.dumps(doc, separators=(",", ":")).encode(), "application/hap+json")
            if getattr(self, "slow_reply", 0):
                # the accessory takes a moment: the operation is IN FLIGHT meanwhile
                async def later(delay=self.slow_reply):
                    await asyncio.sleep(delay)
                    conn.send(wire)

                return later()
            conn.send(wire)
            return True
        return False

    async def read(self, ids, code, doc, script, global_status, replay) -> None:
        """script: list of entries the accessory put in the reply (ground truth) in order."""
        ctx = self.ctx
        self.reply = (code, doc)
        try:
            res = await asyncio.wait_for(self.w.pairing.get_characteristics(ids), 60)
        except Exception as ex:  # noqa: BLE001
            malformed = any(not isinstance(e, dict) or "aid" not in e or "iid" not in e for e in script)
            key = "read-raises-on-malformed-entry" if malformed else f"read-raises-{type(ex).__name__}"
            ctx.violation(key, f"get_characteristics({ids}) with reply {code} {doc!r} raised {ex!r}", replay)
            return
        ctx.count("ip_reads_judged")
        mentioned: dict[tuple, list] = {}
        for e in script:
            if isinstance(e, dict) and "aid" in e and "iid" in e:
                mentioned.setdefault((e["aid"], e["iid"]), []).append(e)
            else:
                ctx.count("malformed_entries_skipped")
        for key, entries in mentioned.items():
            got = res.get(key)
            if got is None:
                ctx.violation("read-mentioned-characteristic-missing", f"reply {doc!r}: {key} absent from result {res!r}", replay)
                return
            ok = False
            for e in entries:
                want_status = e.get("status", 0)
                val_ok = ("value" not in e) or got.get("value") == e["value"]
                st_ok = got.get("status", 0) == want_status
                if val_ok and st_ok:
                    ok = True
            if not ok:
                ctx.violation("read-result-differs-from-reply", f"reply entries {entries!r} -> result {got!r}", replay)
                return
        if global_status:
            for key in set(ids):
                if key not in mentioned:
                    got = res.get(key)
                    if got is None or got.get("status") != global_status:
                        ctx.violation("request-wide-status-not-applied", f"request-wide status {global_status} with reply list {doc.get('characteristics')!r}: unmentioned {key} -> {got!r}", replay)
                        return
                    ctx.count("global_status_applied")

    async def write(self, writes, code, doc, script, replay) -> None:
        ctx = self.ctx
        self.reply = (code, doc)
        self.notifications.clear()
        mentioned: dict[tuple, list] = {}
        statusless = False
        for e in script or []:
            if isinstance(e, dict) and "aid" in e and "iid" in e:
                if "status" not in e:
                    statusless = True
                mentioned.setdefault((e["aid"], e["iid"]), []).append(e)
            else:
                ctx.count("malformed_entries_skipped")
        failed_call = None
        # how the caller hands the writes over: its list; a one-shot iterable (the parameter is an Iterable); or a list it
        # re-uses while the operation is in flight - during which another consumer also starts listening
        import zlib

        variant = zlib.crc32(repr((writes, code, doc)).encode()) % 4
        late_notifications = None
        try:
            if variant == 1:
                self.ctx.count("writes_handed_over_as_one_shot_iterables")
                res = await asyncio.wait_for(self.w.pairing.put_characteristics(w_ for w_ in list(writes)), 60)
            elif variant == 2:
                self.ctx.count("writes_with_caller_list_reused_in_flight")
                mine = list(writes)
                self.slow_reply = 0.2
                task = asyncio.ensure_future(self.w.pairing.put_characteristics(mine))
                await asyncio.sleep(0.05)
                mine[:] = [(a, i, "other") for a, i, _ in reversed(mine)][:1]
                late_notifications = []
                remove_late = self.w.pairing.dispatcher_connect(lambda ev: late_notifications.append(ev) if ev else None)
                try:
                    res = await asyncio.wait_for(task, 60)
                finally:
                    self.slow_reply = 0
                    remove_late()
            else:
                res = await asyncio.wait_for(self.w.pairing.put_characteristics(writes), 60)
        except Exception as ex:  # noqa: BLE001
            failed_call = ex
            res = None
            self.slow_reply = 0
        if statusless:
            ctx.count("statusless_entries_recorded")
            return
        rejected = {k for k, es in mentioned.items() if all(e["status"] != 0 for e in es)}
        accepted_mentioned = {k for k, es in mentioned.items() if all(e["status"] == 0 for e in es)}
        if failed_call is not None:
            if not rejected:
                malformed = any(not isinstance(e, dict) or "aid" not in e or "iid" not in e for e in (script or []))
                key = "write-raises-on-malformed-entry" if malformed else f"write-raises-{type(failed_call).__name__}"
                ctx.violation(key, f"put_characteristics({writes}) with reply {code} {doc!r} raised {failed_call!r}", replay)
            return
        ctx.count("ip_writes_judged")
        for k in rejected:
            got = res.get(k)
            sts = {e["status"] for e in mentioned[k]}
            if got is None or got.get("status") not in sts:
                ctx.violation("rejected-write-presented-as-written", f"accessory rejected {k} with {sorted(sts)}; result {res!r}", replay)
                return
        for k in accepted_mentioned:
            got = res.get(k)
            if got is not None and got.get("status", 0) != 0:
                ctx.violation("accepted-write-reported-as-failed", f"accessory accepted {k}; result {got!r}", replay)
                return
        # notifications: exactly accepted AND readable (over the judged items)
        notified = {}
        for ev in self.notifications:
            notified.update(ev)
        values = {(a, i): v for a, i, v in writes}
        if code == 204:
            judged_accept = set(values)
        else:
            judged_accept = accepted_mentioned & set(values)
        ctx.count("notifications_checked")
        for k in judged_accept:
            readable = "pr" in PERMS.get(k, "")
            if readable and notified.get(k) != {"value": values[k]}:
                ctx.violation("accepted-write-not-notified", f"accessory accepted readable {k}={values[k]!r} (reply {code} {doc!r}); listeners saw {notified!r}", replay)
                return
            if not readable and k in notified:
                ctx.violation("write-only-characteristic-notified", f"{k} is write-only but listeners saw {notified[k]!r}", replay)
                return
        for k in rejected & set(values):
            if k in notified:
                ctx.violation("rejected-write-notified", f"accessory rejected {k}; listeners saw {notified[k]!r}", replay)
                return
        if late_notifications is not None:
            late = {}
            for ev in late_notifications:
                late.update(ev)
            if late != notified:
                ctx.violation("accepted-write-not-notified", f"a consumer that started listening while the write was in flight saw {late!r}; the consumer registered before saw {notified!r} (reply {code} {doc!r})", replay)
                return
            ctx.count("late_listeners_checked")


async def write_unconfirmed(case, writes, code, replay) -> None:
    """The accessory answers a write with a status other than 204 No Content and NO body (500 / 503 with Content-Length 0, a
    207 whose list is missing): nothing says the values were written, so the call fails - it is never presented as written,
    and listeners are not told the new values."""
    ctx = case.ctx
    case.reply = (code, None)
    case.notifications.clear()
    try:
        res = await asyncio.wait_for(case.w.pairing.put_characteristics(writes), 60)
    except Exception:  # noqa: BLE001 - any failure of the call is in line with the statement
        ctx.count("unconfirmed_writes_failed")
        # the library hangs up on such a reply: let the session come back before the next case
        await asyncio.sleep(0.5)
        await asyncio.wait_for(case.w.connection.ensure_connection(), 60)
        return
    notified = {}
    for ev in case.notifications:
        notified.update(ev)
    ctx.violation("unconfirmed-write-presented-as-written", f"put_characteristics({writes}) answered with HTTP {code} and no body returned {res!r}; listeners saw {notified!r}", replay)


def read_replies(ids, vec, rng):
    """Yield (code, doc, script, global_status) for one status vector."""
    entries = []
    for (a, i), st in zip(ids, vec):
        e = {"aid": a, "iid": i}
        if st == 0:
            e["value"] = rng.choice([True, 0, 21.5, "txt", 100])
        else:
            e["status"] = st
        entries.append(e)
    any_err = any(vec)
    if not any_err:
        yield 200, {"characteristics": entries}, entries, 0
    full = [dict(e, status=e.get("status", 0)) for e in entries]
    yield 207, {"characteristics": full}, full, 0


def write_replies(writes, vec):
    ids = [(a, i) for a, i, _ in writes]
    entries = [{"aid": a, "iid": i, "status": st} for (a, i), st in zip(ids, vec)]
    if not any(vec):
        yield 204, None, None
    yield 207, {"characteristics": entries}, entries
    only_fail = [e for e in entries if e["status"] != 0]
    if only_fail and len(only_fail) != len(entries):
        yield 207, {"characteristics": only_fail}, only_fail


async def first_listener_in_flight(ctx, k: int) -> None:
    """Nobody listens when the write starts; the first consumer registers while it is in flight. Whoever listens when the
    accessory's acceptance arrives is told the accepted readable values."""
    from vf import simnet

    rng = ctx.grng("C13.ip.first-listener", k)
    w = simnet.World(rng)
    writes = [(1, 9, bool(k % 2)), (1, 10, 10 + k)][: 1 + k % 2]
    writes = [w_ for w_ in writes if "pw" in PERMS.get((w_[0], w_[1]), "")]
    ctx.case("ip-first-listener", k, sample={"transport": "ip", "op": "write", "writes": writes, "listeners_at_start": 0}, kind="ip-first-listener")
    if not writes:
        return

    def responder(conn, req):
        if conn.secure and req["target"].startswith("/characteristics") and req["method"] == "PUT":
            async def later():
                await asyncio.sleep(0.2)
                conn.send(conn.http(204))

            return later()
        return False

    w.accessory.script_for = lambda host, attempt: simnet.ConnScript(responder=responder)
    try:
        await asyncio.wait_for(w.connection.ensure_connection(), 30)
        await w.pairing.list_accessories_and_characteristics()
        task = asyncio.ensure_future(w.pairing.put_characteristics(writes))
        await asyncio.sleep(0.05)
        seen = []
        w.pairing.dispatcher_connect(lambda ev: seen.append(ev) if ev else None)
        try:
            res = await asyncio.wait_for(task, 60)
        except Exception as ex:  # noqa: BLE001
            ctx.violation(f"write-raises-{type(ex).__name__}", f"put_characteristics({writes}) answered 204: {ex!r}", {"t": "ip", "op": "first-listener", "k": k})
            return
        notified = {}
        for ev in seen:
            notified.update(ev)
        want = {(a, i): {"value": v} for a, i, v in writes if "pr" in PERMS.get((a, i), "")}
        if res or notified != want:
            ctx.violation("accepted-write-not-notified", f"no listener when the write started, one registered while it was in flight; accessory accepted {writes} (204); result {res!r}, that listener saw {notified!r}", {"t": "ip", "op": "first-listener", "k": k})
            return
        ctx.count("first_listeners_in_flight_checked")
    finally:
        await w.close()


async def ip_part(ctx) -> None:
    from vf import simnet

    rng = ctx.grng("C13.ip")
    w = simnet.World(rng)
    case = IpCase(ctx, w)
    try:
        await asyncio.wait_for(w.connection.ensure_connection(), 30)
        await w.pairing.list_accessories_and_characteristics()
        idx = 0
        for ids in id_sets(rng):
            ids = list(dict.fromkeys(ids))
            for vec in status_vectors(len(ids), rng, ctx.quick):
                idx += 1
                if not ctx.mine(idx):
                    continue
                # reads (only readable ids make sense to request, but the accessory may answer anything)
                for code, doc, script, gs in read_replies(ids, vec, rng):
                    nontrivial = any(vec)
                    ctx.case("ip-read", tuple(ids), json.dumps(doc, sort_keys=True), nontrivial=nontrivial,
                             sample={"transport": "ip", "op": "read", "ids": ids, "reply_code": code, "reply": doc}, kind="ip-read")
                    await case.read(ids, code, doc, script, gs, {"t": "ip", "op": "read", "ids": ids, "code": code, "doc": json.dumps(doc), "gs": gs})
                writes = [(a, i, rng.choice([True, 1, 50, 0])) for a, i in ids if "pw" in PERMS[(a, i)]]
                if writes:
                    wvec = tuple(v for (a, i), v in zip(ids, vec) if "pw" in PERMS[(a, i)])
                    for code, doc, script in write_replies(writes, wvec):
                        ctx.case("ip-write", tuple(writes), json.dumps(doc, sort_keys=True), nontrivial=any(wvec),
                                 sample={"transport": "ip", "op": "write", "writes": writes, "reply_code": code, "reply": doc}, kind="ip-write")
                        await case.write(writes, code, doc, script, {"t": "ip", "op": "write", "writes": writes, "code": code, "doc": json.dumps(doc)})
        for k in range(6):
            idx += 1
            if ctx.mine(idx):
                await first_listener_in_flight(ctx, k)
        for k, code in enumerate((500, 503, 207, 200, 202, 500, 207)):
            idx += 1
            if not ctx.mine(idx):
                continue
            writes = [[(1, 9, True)], [(1, 10, 50), (1, 9, False)]][k % 2]
            writes = [w_ for w_ in writes if "pw" in PERMS.get((w_[0], w_[1]), "")] or [next((a, i, 1) for (a, i), p in sorted(PERMS.items()) if "pw" in p)]
            ctx.case("ip-write-unconfirmed", code, tuple(writes), sample={"transport": "ip", "op": "write", "writes": writes, "reply_code": code, "reply": "<no body>"}, kind="ip-write-unconfirmed")
            await write_unconfirmed(case, writes, code, {"t": "ip", "op": "write-unconfirmed", "writes": writes, "code": code})
        # request-wide status x full / partial / empty lists, malformed / duplicated / missing entries
        for k in range(ctx.pick(600, 80000)):
            idx += 1
            if not ctx.mine(idx):
                continue
            r = ctx.grng("C13.ip.shape", k)
            ids = r.sample(sorted(PERMS), r.randint(1, 4))
            gs = r.choice([0, 0, -70402, -70409, 70402, -1, 12345])
            listed = [x for x in ids if r.random() < 0.6]
            entries = []
            for a, i in listed:
                st = r.choice([0, 0, -70410, -70402, 7])
                e = {"aid": a, "iid": i}
                if st:
                    e["status"] = st
                else:
                    e["value"] = r.choice([1, False, "v"])
                    if r.random() < 0.5:
                        e["status"] = 0
                entries.append(e)
            script = list(entries)
            for _ in range(r.choice([0, 0, 1, 2])):
                script.insert(r.randint(0, len(script)), r.choice(MALFORMED))
            if listed and r.random() < 0.3:
                script.append(dict(script[[j for j, e in enumerate(script) if isinstance(e, dict) and "aid" in e and "iid" in e][0]]))
            doc = {"characteristics": script}
            if gs:
                doc["status"] = gs
            if r.random() < 0.1:
                doc = {"status": gs} if gs else {"characteristics": []}
                script = []
            ctx.case("ip-read-shape", tuple(ids), json.dumps(doc, sort_keys=True), sample={"transport": "ip", "op": "read", "ids": ids, "reply": doc}, kind="ip-read-shape")
            await case.read(ids, 207 if gs or any("status" in e for e in script if isinstance(e, dict)) else 200, doc, script, gs,
                            {"t": "ip", "op": "read", "ids": ids, "code": 207, "doc": json.dumps(doc), "gs": gs})
            writes = [(a, i, r.choice([True, 3])) for a, i in ids if "pw" in PERMS[(a, i)]]
            if writes:
                wentries = []
                for a, i, _ in writes:
                    if r.random() < 0.8:
                        wentries.append({"aid": a, "iid": i, "status": r.choice([0, 0, -70410, -70404, 70402, 7])})
                for _ in range(r.choice([0, 0, 1, 2])):
                    wentries.insert(r.randint(0, len(wentries)), r.choice(MALFORMED + [{"aid": 1, "iid": 9}]))
                if wentries:
                    wdoc = {"characteristics": wentries}
                    ctx.case("ip-write-shape", tuple(writes), json.dumps(wdoc, sort_keys=True), sample={"transport": "ip", "op": "write", "writes": writes, "reply": wdoc}, kind="ip-write-shape")
                    await case.write(writes, 207, wdoc, wentries, {"t": "ip", "op": "write", "writes": writes, "code": 207, "doc": json.dumps(wdoc)})
    finally:
        await w.close()


def run(ctx) -> None:
    from vf import vloop

    async def main():
        await ip_part(ctx)
        ctx.exhaustive_parts["every status vector for <= 2 items (IP reads and writes)"] = True
        if COAP_BUILT:
            from vf import sim_coap

            await sim_coap.c13_part(ctx)
        if BLE_BUILT:
            from vf import sim_ble_acc

            await sim_ble_acc.c13_part(ctx)

    vloop.run(main())


def replay(ctx, d) -> None:
    from vf import simnet, vloop

    async def main():
        if d.get("t") != "ip":
            if d.get("t") == "coap":
                from vf import sim_coap

                await sim_coap.c13_replay(ctx, d)
            else:
                from vf import sim_ble_acc

                await sim_ble_acc.c13_replay(ctx, d)
            return
        rng = ctx.grng("C13.ip")
        w = simnet.World(rng)
        case = IpCase(ctx, w)
        try:
            await asyncio.wait_for(w.connection.ensure_connection(), 30)
            await w.pairing.list_accessories_and_characteristics()
            ctx.case("replay")
            if d["op"] == "first-listener":
                await first_listener_in_flight(ctx, d["k"])
                return
            if d["op"] == "write-unconfirmed":
                await write_unconfirmed(case, [tuple(x) for x in d["writes"]], d["code"], d)
                return
            doc = json.loads(d["doc"]) if d["doc"] != "null" else None
            if d["op"] == "read":
                script = doc.get("characteristics", []) if doc else []
                await case.read([tuple(x) for x in d["ids"]], d["code"], doc, script, d.get("gs", 0), d)
            else:
                script = doc.get("characteristics", []) if doc else None
                await case.write([tuple(x) for x in d["writes"]], d["code"], doc, script, d)
        finally:
            await w.close()

    vloop.run(main())
