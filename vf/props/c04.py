"""C04 An accessory error or out-of-sequence reply never completes as success.

Exhaustive cell table: step x error encoding x State value x subset of the step's other (valid) fields x item order x
feed mode, against the documented code -> exception mapping. Valid field values come from the reference accessories
(vf.ref.pairsetup / pairverify) so that "everything else looks fine". Add/remove pairing on a scripted IP accessory
(simnet) and on the simulated BLE accessory.
"""

from __future__ import annotations

import asyncio
import itertools

from vf import pairing_driver as drv
from vf.ref import pairsetup as refps
from vf.ref import pairverify as refpv
from vf.ref import tlv8 as reftlv

PROPERTY_ID = "C04"
LEVEL = "exploration"
EXHAUSTIVE_WHOLE = True
RULE = (
    "cells = step {setup M2,M4,M6; verify M2,M4; verify M2 answering a pair-resume request} x error encoding {0x01..0x07, 0x00, 0x08, 0xFF, empty, two-byte, none} x"
    " State {expected, every other value 0..7, 255, EMPTY item (06 00), two-byte values, absent} x EVERY subset of the step's other fields (valid values from the"
    " reference accessory of a real exchange) x item order {State,Error,others / State,others,Error} x feed mode"
    " (plus: a field the step does not expect - RetryDelay, Permissions, unknown type - before State/Error or between them)"
    " {ip: decode_bytes(expected=...), ble: decoded dict}; plus IP and BLE add-pairing / remove-pairing against a scripted"
    " /pairings reply over the same code x state x extra-field grid. A cell is judged when it carries an Error or a wrong"
    " State. Distinct by the cell tuple; non-trivial = judged cells."
)
ASSUMPTIONS = [
    "Error present and State absent or correct => exactly the mapped class; Error present and State wrong => mapped class or"
    " InvalidError; no Error and State wrong => any library HomeKitException; success is never acceptable",
    "mapping: 0x02 Authentication, 0x03 Backoff, 0x04 MaxPeers, 0x05 MaxTries, 0x06 Unavailable, 0x07 Busy, anything else Invalid",
    "add/remove pairing: any library HomeKitException is accepted, a normal return is not",
]
SHARDS = {"quick": 16, "thorough": 16}
TIMEOUT = {"quick": 900, "thorough": 3600}
MIN_CASES = {"quick": 3000, "thorough": 3000}
REQUIRED_COUNTERS = ["cells_judged", "mapped_class_raised", "wrong_state_rejected", "ip_pairings_cells", "ble_pairings_cells", "ble_transport_cells", "ip_transport_cells", "coap_transport_cells", "ip_cells_with_http_4xx", "ble_pairings_cells_on_settled_session", "ip_verify_cells"]
BLE_BUILT = True
if not BLE_BUILT:
    REQUIRED_COUNTERS = [c for c in REQUIRED_COUNTERS if not c.startswith("ble_")]

ERRORS = [None, b"\x01", b"\x02", b"\x03", b"\x04", b"\x05", b"\x06", b"\x07", b"\x00", b"\x08", b"\xff", b"", b"\x02\x00"]
STEPS = {
    # step: (expected state, other field types)
    "setup-M2": (2, [3, 2]),
    "setup-M4": (4, [4, 5]),
    "setup-M6": (6, [5]),
    "verify-M2": (2, [3, 5]),
    "verify-M4": (4, []),
    # pair-resume answer (BLE reconnect): Method, SessionID and the resume auth tag are valid for the requested session
    "verify-M2-resume": (2, [0, 14, 5]),
}


def mapped_class(err: bytes):
    from aiohomekit import exceptions as E

    return {
        b"\x02": E.AuthenticationError,
        b"\x03": E.BackoffError,
        b"\x04": E.MaxPeersError,
        b"\x05": E.MaxTriesError,
        b"\x06": E.UnavailableError,
        b"\x07": E.BusyError,
    }.get(bytes(err), E.InvalidError)


def state_bytes(st):
    """A state is an int (one byte) or explicit bytes: b"" = State item present but EMPTY, two bytes = over-long."""
    return bytes([st]) if isinstance(st, int) else bytes(st)


def wrong_states(exp_state):
    # every other step number, 0, 7, 255, the empty State item (06 00) and the expected number followed by a second byte
    return [s for s in range(0, 8) if s != exp_state] + [255, b"", bytes([exp_state, 0]), bytes([0, exp_state])]


def all_cells():
    cells = []
    for step, (exp_state, others) in STEPS.items():
        states = [exp_state] + wrong_states(exp_state) + [None]
        subsets = [c for r in range(len(others) + 1) for c in itertools.combinations(others, r)]
        for err in ERRORS:
            for st in states:
                if err is None and (st == exp_state or st is None):
                    continue  # not a C04 cell
                for sub in subsets:
                    for order in ("error-first", "error-last"):
                        if err is None and order == "error-last":
                            continue
                        if not sub and order == "error-last":
                            continue
                        for mode in ("ip", "ble"):
                            if step == "verify-M2-resume" and mode == "ip":
                                continue  # resumption is only requested by the BLE transport
                            cells.append((step, err, st, sub, order, mode))
        # fields the step does not expect at all (RetryDelay accompanies a Backoff error in the specification, Permissions,
        # an unknown type), placed BEFORE the State / Error items or between them: TLV items carry no order
        for err in ERRORS:
            if err is None:
                continue
            for st in (exp_state, None):
                for ftype in (8, 11, 0x42, (9, 255), (9, 510), (9, 256), (0x42, 254)):
                    for order in ("foreign-first", "foreign-after-state"):
                        for mode in ("ip", "ble"):
                            if step == "verify-M2-resume" and mode == "ip":
                                continue
                            cells.append((step, err, st, (ftype,), order, mode))
    return cells


def build_reply(genuine_items, err, st, sub, order):
    g = dict(genuine_items)
    others = [(t, g[t]) for t in sub if t in g]
    # a junk MFi blob when EncryptedData is requested at M4 but the accessory did not send one
    for t in sub:
        if t not in g:
            others.append((t, b"\xa5" * 40))
    head = [] if st is None else [(6, state_bytes(st))]
    e = [] if err is None else [(7, err)]
    if order.startswith("foreign"):
        # a short value, or (type, n): an n-byte value such as a certificate - 255 / 510 bytes end in a FULL fragment
        foreign = [(sub[0], b"\x05")] if isinstance(sub[0], int) else [(sub[0][0], (bytes(range(1, 256)) * 3)[: sub[0][1]])]
        return foreign + head + e if order == "foreign-first" else head + foreign + e
    if order == "error-first":
        return head + e + others
    return head + others + e


def judge(ctx, cell, out, target_stage) -> None:
    from aiohomekit.exceptions import HomeKitException, InvalidError

    step, err, st, sub, order, mode = cell
    exp_state = STEPS[step][0]
    replay = {"cell": [step, err, st, list(sub), order, mode]}
    ctx.count("cells_judged")
    desc = f"{step} error={None if err is None else err.hex() or '<empty>'} state={st} fields={list(sub)} order={order} feed={mode}"
    raised_here = out.exc is not None and out.stage in (target_stage, target_stage + "-decode")
    if not raised_here:
        what = "returned " + type(out.value).__name__ if out.returned and out.stage == target_stage else f"went on ({out.summary()})"
        if err is not None and st is None:
            key = "error-ignored-when-state-absent"
        elif err is not None and st == exp_state:
            key = "error-ignored"
        elif err is not None:
            key = "error-and-wrong-state-ignored"
        else:
            key = "wrong-state-accepted"
        ctx.violation(key, f"{desc}: the step completed as success ({what})", replay)
        return
    exc = out.exc
    if err is not None and (st is None or st == exp_state):
        want = mapped_class(err)
        if type(exc) is not want:
            # which mechanism? the ip feed stops at the first type missing from the step's expectation list
            key = f"wrong-exception-class-{step}-{mode}"
            ctx.violation(key, f"{desc}: raised {type(exc).__name__}, documented class {want.__name__}", replay)
            return
        ctx.count("mapped_class_raised")
        return
    if err is not None:
        want = mapped_class(err)
        if type(exc) not in (want, InvalidError):
            ctx.violation("wrong-exception-class-wrong-state", f"{desc}: raised {type(exc).__name__}, accepted {want.__name__} or InvalidError", replay)
            return
        ctx.count("wrong_state_rejected")
        return
    if not isinstance(exc, HomeKitException):
        ctx.violation("wrong-state-non-library-exception", f"{desc}: raised {type(exc).__name__}: {exc}", replay)
        return
    ctx.count("wrong_state_rejected")


def run_cell(ctx, cell, idx) -> None:
    step, err, st, sub, order, mode = cell
    rng = ctx.grng("C04", idx)
    ctx.case(*[repr(x) for x in cell], sample={"step": step, "error": err, "state": st, "other_fields": list(sub), "order": order, "feed": mode}, kind=step)
    target = step.split("-")[1]

    def mutate(stage, items, peer):
        if stage != target:
            return items
        return build_reply(items, err, st, sub, order)

    if step.startswith("setup"):
        code = f"{rng.randrange(1000):03d}-{rng.randrange(100):02d}-{rng.randrange(1000):03d}"
        acc = refps.SetupAccessory(code, b"AA:BB:CC:DD:EE:FF", rng.randbytes(32), rng.randbytes(16), rng.getrandbits(256) | 1)
        out = drv.run_pair_setup(acc, code, "c04-controller", mode, False, mutate)
    elif step == "verify-M2-resume":
        from vf.props.c01 import Record

        rec = Record(rng, idx)
        first = drv.run_pair_verify(refpv.VerifyExchange(rec.identity, rng.randbytes(32)), rec.pairing_data, mode)
        if not first.returned:
            ctx.mark_inconclusive(f"C04 harness: honest pair-verify before resume failed: {first.exc!r}")
            return
        session_id, derive = first.value
        ex = refpv.VerifyExchange(rec.identity, rng.randbytes(32), new_session_id=rng.randbytes(8))
        out = drv.run_pair_verify(ex, rec.pairing_data, mode, mutate, session_id=session_id, derive=derive)
        if not ex.resumed:
            ctx.mark_inconclusive("C04 harness: reference accessory did not resume")
            return
    else:
        from vf.props.c01 import Record

        rec = Record(rng, idx)
        ex = refpv.VerifyExchange(rec.identity, rng.randbytes(32))
        out = drv.run_pair_verify(ex, rec.pairing_data, mode, mutate)
    judge(ctx, cell, out, target)


# ---------------------------------------------------------------------------------------------
# add / remove pairing on IP
# ---------------------------------------------------------------------------------------------


def pairings_cells():
    cells = []
    for op in ("add", "remove"):
        for err in ERRORS:
            for st in [2] + wrong_states(2) + [None]:
                if err is None and (st is None or st == 2):
                    continue
                for extra in (False, True):
                    cells.append((op, err, st, extra))
    return cells


async def ip_pairings_cell(ctx, cell, idx) -> None:
    from aiohomekit.exceptions import HomeKitException
    from vf import simnet, vloop

    op, err, st, extra = cell
    rng = ctx.grng("C04.ip", idx)
    w = simnet.World(rng)
    # header names in lower / upper case (they are case-insensitive): throughout, or only in the reply under test
    w.accessory.header_case = [None, "lower", "upper", None, None][(idx // 2) % 5]
    reply_case = [None, "lower", "upper", "lower", "upper"][(idx // 2) % 5]
    replay = {"ip_cell": [op, err, st, extra]}
    ctx.case("ip", op, repr(err), st, extra, sample={"transport": "ip", "op": op, "error": err, "state": st, "extra_fields": extra}, kind="ip-" + op)
    try:
        await asyncio.wait_for(w.connection.ensure_connection(), 30)
        conn = w.accessory.conns[-1]
        items = ([] if st is None else [(6, state_bytes(st))]) + ([] if err is None else [(7, err)])
        if extra:
            items += [(1, b"other-controller"), (3, bytes(32)), (11, b"\x01")]

        # real accessories (and the repository's own test server) send a TLV error reply with an HTTP 4xx status as often as
        # with 200: the TLV body decides either way
        status = [200, 470, 400, 405, 429, 200][idx % 6] if (err is not None or st not in (2, None)) else 200

        def responder(c, req):
            if req["target"] == "/pairings":
                old_case, c.accessory.header_case = c.accessory.header_case, reply_case
                c.send(c.http(status, reftlv.encode(items), "application/pairing+tlv8"))
                c.accessory.header_case = old_case
                return True
            return False
        if status != 200:
            ctx.count("ip_cells_with_http_4xx")

        conn.script.responder = responder
        desc = f"ip {op}_pairing reply error={None if err is None else err.hex() or '<empty>'} state={st} extra={extra}"
        try:
            if op == "add":
                res = await asyncio.wait_for(w.pairing.add_pairing("other-controller", "11" * 32, "User"), 40)
            else:
                res = await asyncio.wait_for(w.pairing.remove_pairing("other-controller"), 40)
        except HomeKitException:
            ctx.count("ip_pairings_cells")
            return
        except Exception as ex:  # noqa: BLE001
            ctx.violation(f"ip-{op}-pairing-non-library-exception", f"{desc}: raised {type(ex).__name__}: {ex}", replay)
            return
        ctx.violation(f"ip-{op}-pairing-reported-done", f"{desc}: returned {res!r}", replay)
    finally:
        await w.close()


def run(ctx) -> None:
    cells = all_cells()
    for idx, cell in enumerate(cells):
        if ctx.mine(idx):
            run_cell(ctx, cell, idx)
    ctx.exhaustive_parts["protocol step cell table"] = True
    from vf import vloop

    async def pairings():
        for idx, cell in enumerate(pairings_cells()):
            if ctx.mine(idx):
                await ip_pairings_cell(ctx, cell, idx)
        ctx.exhaustive_parts["ip add/remove pairing cell table"] = True
        if BLE_BUILT:
            from vf import sim_ble_acc

            await sim_ble_acc.c04_pairings(ctx, pairings_cells())
            ctx.exhaustive_parts["ble add/remove pairing cell table"] = True

    vloop.run(pairings())

    # the same table through the transports' own pair-setup drivers (BleDiscovery, IpDiscovery, CoAP do_pair_setup)
    async def transport_cells():
        from vf import setup_transports

        j = 0
        for transport in ("ble", "ip", "coap"):
            for step in (2, 4, 6):
                for err in (b"\x01", b"\x02", b"\x03", b"\x04", b"\x05", b"\x06", b"\x07", b"\x00", b"\xff"):
                    for with_fields in (False, True):
                        j += 1
                        if (with_fields and err not in (b"\x02", b"\x06")) or not ctx.mine(j):
                            continue
                        await setup_transports.error_case(ctx, transport, step, err, with_fields, mapped_class(err), j)

    vloop.run(transport_cells())

    # pair-verify through the real IP connection: M2 / M4 answered with an error (HTTP 200 or 4xx) never opens a session
    async def ip_verify_cells():
        from vf import simnet

        j = 0
        for step in ("m2_err", "m4_err"):
            for code in (1, 2, 3, 4, 5, 6, 7, 0, 255):
                for http in (200, 470, 400, 405):
                    j += 1
                    if not ctx.mine(j):
                        continue
                    rng = ctx.grng("C04.ip-verify", step, code, http)
                    w = simnet.World(rng)
                    w.accessory.header_case = [None, "lower", "upper", None, None][j % 5]
                    ecase = [None, "lower", "upper", "lower", "upper"][j % 5]

                    def script_for(h, a, m=f"{step}:{code}:{http}", ecase=ecase):
                        sc = simnet.ConnScript(verify=m)
                        sc.error_header_case = ecase
                        return sc

                    w.accessory.script_for = script_for
                    ctx.case("ip-verify", step, code, http, sample={"transport": "ip", "step": "verify-" + step[:2].upper(), "error": code, "http_status": http}, kind="ip-verify")
                    try:
                        t = asyncio.ensure_future(w.connection.ensure_connection())
                        t.add_done_callback(lambda f: f.cancelled() or f.exception())
                        await asyncio.sleep(2.0)
                        await vloop.settle()
                        if w.connection.is_connected or any(c.secure for c in w.accessory.conns):
                            ctx.violation("ip-verify-error-ignored", f"pair-verify {step} error {code} sent with HTTP {http}: the connection reports an open session", {"ip_verify_cell": [step, code, http]})
                        else:
                            ctx.count("ip_verify_cells")
                        t.cancel()
                    finally:
                        await w.close()

    vloop.run(ip_verify_cells())
    ctx.exhaustive_parts["transport-level pair-setup: step x error code x {BLE, IP, CoAP}"] = True
    ctx.notes["cells_total"] = len(cells) + len(pairings_cells()) * (2 if BLE_BUILT else 1)


def replay(ctx, d) -> None:
    from vf import vloop

    if "cell" in d:
        step, err, st, sub, order, mode = d["cell"]
        cell = (step, err, st, tuple(sub), order, mode)
        run_cell(ctx, cell, all_cells().index(cell))
    elif "transport_cell" in d:
        from vf import setup_transports

        t, step, err, wf = d["transport_cell"]
        vloop.run(setup_transports.error_case(ctx, t, step, err, wf, mapped_class(err), 0))
    elif "ip_cell" in d:
        op, err, st, extra = d["ip_cell"]
        cell = (op, err, st, extra)
        vloop.run(ip_pairings_cell(ctx, cell, pairings_cells().index(cell)))
    else:
        from vf import sim_ble_acc

        vloop.run(sim_ble_acc.c04_pairings(ctx, [tuple(d["ble_cell"])]))
