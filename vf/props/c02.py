"""C02 SRP-6a client values equal those of a spec-conformant accessory.

Real code: aiohomekit.crypto.srp.SrpClient driven exactly as perform_pair_setup_part2 drives it.
Oracle: vf.ref.srp (integers + hashlib, validated against RFC 5054 Appendix B in the self-test).
"""

from __future__ import annotations

PROPERTY_ID = "C02"
LEVEL = "exploration"
RULE = (
    "cases = SRP exchanges (setup code, 16-byte salt, client secret a, server secret b). Random exchanges plus a DIRECTED"
    " SEARCH (brute force over a / b / salt with the reference) for the 1-in-256 classes: A, B, S, K, M1, M2 starting"
    " with 0x00, all-zero salt and salts with 1..15 leading zero bytes. Each exchange compares A, M1, K byte-for-byte with"
    " the reference accessory, requires the accessory to accept M1 and the client to accept the genuine M2, tries ALL 512"
    " single-bit flips of M2 (must be rejected) and a wrong setup code (accessory must reject M1', client must reject M2)."
    " PROTOCOL LEVEL: full pair-setup exchanges (real perform_pair_setup_part1/2) of the K / S / A / M2 leading-zero classes against the reference accessory, which must accept M5 (K is used as bytes, no integer round trip). Distinct by (code, salt, a, b); non-trivial = every exchange (each exercises modexp, padding and both proofs)."
)
ASSUMPTIONS = [
    "conformant accessory = fixed-width PAD() for A, B, S (384 bytes) and the 16 salt bytes as sent; g hashed as 0x05 in M1",
    "the client's ephemeral secret is injected by overriding the generate_private_key staticmethod (as the repo's own tests do)",
]
SHARDS = {"quick": 16, "thorough": 16}
TIMEOUT = {"quick": 900, "thorough": 7200}
MIN_CASES = {"quick": 150, "thorough": 3000}
REQUIRED_COUNTERS = [
    "exchanges_compared", "m2_bitflips_rejected", "wrong_code_rejected",
    "class_A_leading_zero", "class_B_leading_zero", "class_S_leading_zero", "class_K_leading_zero",
    "class_M1_leading_zero", "class_M2_leading_zero", "class_salt_all_zero", "class_salt_leading_zero",
    "protocol_level_leading_zero_K",
]

USER = b"Pair-Setup"


def make_client(code: str, a: int):
    from aiohomekit.crypto.srp import SrpClient

    class InjectedClient(SrpClient):
        @staticmethod
        def generate_private_key() -> int:
            return a

    return InjectedClient("Pair-Setup", code)


def random_code(rng) -> str:
    r = rng.random()
    if r < 0.8:
        return f"{rng.randrange(1000):03d}-{rng.randrange(100):02d}-{rng.randrange(1000):03d}"
    if r < 0.9:
        return "".join(rng.choice("0123456789") for _ in range(8))
    return rng.choice(["", "pässwörd", "000-00-000", "x" * 40, "123-45-678 "])


def one_exchange(ctx, code: str, salt: bytes, a: int, b: int, tag: str) -> None:
    from vf.ref import srp as ref

    grp = ref.HOMEKIT
    replay = {"code": code, "salt": salt, "a": a, "b": b, "tag": tag}
    ctx.case(code, salt, a, b, sample={"class": tag, "code": code, "salt": salt, "a_bits": a.bit_length(), "b_bits": b.bit_length()}, kind=tag)
    srv = ref.Server(grp, USER, code.encode(), salt, b)
    try:
        cl = make_client(code, a)
        cl.set_salt(bytearray(salt))
        cl.set_server_public_key(bytearray(grp.pad(srv.B)))
        A_b = bytes(cl.get_public_key_bytes())
        M1 = bytes(cl.get_proof_bytes())
        K = bytes(cl.get_session_key_bytes())
    except Exception as ex:  # noqa: BLE001
        ctx.violation(f"client-raises-{type(ex).__name__}", f"[{tag}] {ex!r}", replay)
        return
    want_A = grp.pad(pow(grp.g, a, grp.N))
    if A_b != want_A:
        ctx.violation("public-value-differs", f"[{tag}] client A has {len(A_b)} bytes, reference PAD(A) 384; leading byte {want_A[0]:02x}", replay)
        return
    if not srv.set_A(A_b):
        return
    if K != srv.K:
        ctx.violation("session-key-differs", f"[{tag}] K differs (S leading byte {grp.pad(srv.S)[0]:02x})", replay)
        return
    if M1 != srv.expected_M1() or not srv.verify_M1(M1):
        ctx.violation("client-proof-differs", f"[{tag}] M1 differs from the accessory's expectation", replay)
        return
    M2 = srv.M2()
    try:
        ok = cl.verify_servers_proof_bytes(M2)
    except Exception as ex:  # noqa: BLE001
        ctx.violation(f"verify-raises-{type(ex).__name__}", f"[{tag}] {ex!r}", replay)
        return
    if not ok:
        ctx.violation("genuine-accessory-proof-rejected", f"[{tag}] client rejected the correct M2 (leading byte {M2[0]:02x})", replay)
        return
    # the integer flavour of the same API (SrpClient.verify_servers_proof): same verdicts
    try:
        if not cl.verify_servers_proof(int.from_bytes(M2, "big")):
            ctx.violation("genuine-accessory-proof-rejected", f"[{tag}] verify_servers_proof(int) rejected the correct M2", replay)
            return
        if cl.verify_servers_proof(int.from_bytes(M2, "big") ^ 1) or cl.verify_servers_proof(0):
            ctx.violation("corrupted-accessory-proof-accepted", f"[{tag}] verify_servers_proof(int) accepted a wrong proof", replay)
            return
    except Exception as ex:  # noqa: BLE001
        ctx.violation(f"verify-raises-{type(ex).__name__}", f"[{tag}] verify_servers_proof(int): {ex!r}", replay)
        return
    ctx.count("exchanges_compared")
    # classes actually observed
    padS = grp.pad(srv.S)
    for name, val in (("A", A_b), ("B", grp.pad(srv.B)), ("S", padS), ("K", K), ("M1", M1), ("M2", M2)):
        if val[0] == 0:
            ctx.count(f"class_{name}_leading_zero")
    if salt == bytes(16):
        ctx.count("class_salt_all_zero")
    elif salt[0] == 0:
        ctx.count("class_salt_leading_zero")
    # every single-bit corruption of the accessory proof must be rejected
    for bit in range(len(M2) * 8):
        m = bytearray(M2)
        m[bit // 8] ^= 1 << (bit % 8)
        if cl.verify_servers_proof_bytes(bytes(m)):
            ctx.violation("corrupted-accessory-proof-accepted", f"[{tag}] M2 with bit {bit} flipped accepted", replay)
            return
        ctx.count("m2_bitflips_rejected")
    # proofs of another length - also the ones that are NUMERICALLY equal to the correct proof (a zero byte prepended; the
    # leading zero bytes of a proof that starts with 0x00 removed): the correct proof is exactly these 64 bytes
    for bad in (b"", M2[:-1], M2 + b"\x00", bytes(64), b"\x00" + M2, bytes(3) + M2, M2[1:], M2.lstrip(b"\x00")):
        if bad != M2 and cl.verify_servers_proof_bytes(bad):
            same_number = int.from_bytes(bad, "big") == int.from_bytes(M2, "big")
            ctx.violation("malformed-accessory-proof-accepted" + ("-numerically-equal" if same_number else ""), f"[{tag}] accepted a proof of {len(bad)} bytes (the correct one has 64; first byte {M2[0]:02x})", replay)
            return
        ctx.count("malformed_proofs_rejected")
    # wrong setup code: one digit changed
    digits = [i for i, ch in enumerate(code) if ch.isdigit()]
    if digits:
        i = digits[(a + b) % len(digits)]
        wrong = code[:i] + str((int(code[i]) + 1 + (a % 9)) % 10) + code[i + 1 :]
        if wrong == code:
            wrong = code[:i] + str((int(code[i]) + 1) % 10) + code[i + 1 :]
        wc = make_client(wrong, a)
        wc.set_salt(bytearray(salt))
        wc.set_server_public_key(bytearray(grp.pad(srv.B)))
        wM1 = bytes(wc.get_proof_bytes())
        if srv.verify_M1(wM1):
            ctx.violation("wrong-code-proof-accepted", f"[{tag}] accessory accepts M1 computed with code {wrong!r} != {code!r}", replay)
            return
        if wc.verify_servers_proof_bytes(M2):
            ctx.violation("wrong-code-client-accepts-m2", f"[{tag}] client with wrong code accepted the accessory proof", replay)
            return
        ctx.count("wrong_code_rejected")


def directed(ctx, rng, klass: str):
    """Brute-force (with the reference only) an exchange of the wanted leading-zero class."""
    from vf.ref import srp as ref

    grp = ref.HOMEKIT
    code = random_code(rng)
    salt = rng.randbytes(16)
    a = rng.getrandbits(128) | 1
    b = rng.getrandbits(128) | 1
    if klass == "A":
        while grp.pad(pow(grp.g, a, grp.N))[0] != 0:
            a = rng.getrandbits(128) | 1
        return code, salt, a, b
    if klass == "B":
        x = ref.compute_x(grp, salt, USER, code.encode())
        kv = grp.k * pow(grp.g, x, grp.N)
        while grp.pad((kv + pow(grp.g, b, grp.N)) % grp.N)[0] != 0:
            b = rng.getrandbits(128) | 1
        return code, salt, a, b
    if klass == "salt0":
        return code, bytes(16), a, b
    if klass.startswith("saltlz"):
        nz = int(klass[6:])
        return code, bytes(nz) + bytes([rng.randrange(1, 256)]) + rng.randbytes(15 - nz), a, b
    # S / K / M1 / M2: vary b, reference server computes everything (small exponent -> cheap)
    A_b = grp.pad(pow(grp.g, a, grp.N))
    x = ref.compute_x(grp, salt, USER, code.encode())
    while True:
        srv = ref.Server(grp, USER, code.encode(), salt, b)
        srv.set_A(A_b)
        val = {"S": grp.pad(srv.S), "K": srv.K, "M1": srv.expected_M1() if klass == "M1" else b"\x01", "M2": srv.M2() if klass == "M2" else b"\x01"}[klass]
        if val[0] == 0:
            return code, salt, a, b
        b = rng.getrandbits(96) | 1


def run(ctx) -> None:
    classes = ["A", "B", "S", "K", "M1", "M2", "salt0"] + [f"saltlz{n}" for n in range(1, 16)]
    per_class = ctx.pick(3, 80)
    jobs = []
    for klass in classes:
        n = per_class if not klass.startswith("saltlz") else max(1, per_class // 3)
        for i in range(n):
            jobs.append(("directed", klass, i))
    for i in range(ctx.pick(200, 12000)):
        jobs.append(("random", None, i))
    for j, (kind, klass, i) in enumerate(jobs):
        if not ctx.mine(j):
            continue
        rng = ctx.grng("C02", kind, klass, i)
        if kind == "directed":
            code, salt, a, b = directed(ctx, rng, klass)
            one_exchange(ctx, code, salt, a, b, f"directed-{klass}")
        else:
            code = random_code(rng)
            salt = rng.randbytes(16)
            a = rng.getrandbits(128)
            b = rng.getrandbits(rng.choice([128, 256, 384]))
            one_exchange(ctx, code, salt, a or 1, b or 1, "random")
    protocol_level(ctx)


def protocol_level(ctx) -> None:
    """The byte-level use of K inside pair-setup (anchor: protocol/__init__.py): full M1..M6 exchanges against the reference
    accessory for the classes where an int round trip of K / S / A / M2 would lose a leading zero byte."""
    from vf.props import c03

    j = 0
    for klass in ("K", "K", "S", "A", "M2"):
        for k in range(ctx.pick(2, 24)):
            j += 1
            if ctx.mine(j):
                before = ctx.counters.get("honest_accepted", 0)
                c03.check_honest(ctx, ctx.grng("C02.protocol", klass, k, j), 20_000 + j, directed=klass)
                if ctx.counters.get("honest_accepted", 0) > before:
                    ctx.count(f"protocol_level_leading_zero_{klass}")
    # the values of ONE exchange stay with that exchange: after a failed attempt (wrong code, damaged proof) the next attempt on
    # the same transport object negotiates fresh salt / B and the right code pairs (CoAP keeps the object between attempts)
    from vf import setup_transports, vloop

    async def retries():
        for k, sc in enumerate(("wrong-then-right", "bad-proof-then-right")):
            j2 = 1000 + k
            if ctx.mine(j2):
                await setup_transports.coap_case(ctx, 500 + k, sc)

    vloop.run(retries())


def replay(ctx, d) -> None:
    if d.get("kind") == "honest":
        ctx.mark_inconclusive("protocol-level directed cases are re-run by the whole check")
        return
    one_exchange(ctx, d["code"], d["salt"], d["a"], d["b"], d["tag"])
