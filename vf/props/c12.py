"""C12 Subscriptions survive reconnects and every event reaches every listener once.

Real code: IpPairing.subscribe/unsubscribe/_update_subscriptions/connection_made/event_received, HomeKitConnection
event path, AbstractPairing._callback_listeners/dispatcher_connect - on real transports (vf.simnet), virtual time.
Oracle: the simulated accessory records ev:true/false registrations per accessory-side connection and numbers every
event it sends (unique values), so each listener's log can be checked offline for loss, duplication, reordering and
wrong keys against the events sent while that listener was registered.
"""

from __future__ import annotations

import asyncio
import itertools
import json

PROPERTY_ID = "C12"
LEVEL = "exploration"
RULE = (
    "cases = histories over {a subscribe{1.9,1.10}, b subscribe{2.9,1.9,3.13} (overlapping, 3 aids), c subscribe to 8 ids of 3"
    " aids given in interleaved order, O a 12 s network outage during which the next subscribe call cannot connect, u unsubscribe{1.9},"
    " v unsubscribe{2.9,1.10}, l add listener, x add raising listener, r remove oldest listener, D peer drops the idle"
    " connection, S peer drops mid-subscribe (next subscription request is cut off), Z peer resets with a request in flight,"
    " e one event, t 3 events in one write, p one event in 3 pieces, f event spanning 16-byte frames, m one EVENT carrying"
    " two characteristics, n EVENT with empty body, j EVENT with non-JSON body, q read request whose response shares a write"
    " with an event}: ALL histories of the bounded depth after a fixed prefix (listener + subscription), plus seeded random"
    " histories of depth 10-40. After every action the loop runs to quiescence. Distinct by history; non-trivial = history"
    " contains a drop or an event action."
)
ASSUMPTIONS = [
    "an event counts as sent when it was written completely on a connection that stayed up until the next quiescent point",
    "after a subscription request was cut off by a disconnection the library falls back to polling by design"
    " (supports_subscribe off): such histories are judged for event delivery only",
    "listeners are registered/removed between events, not re-entrantly from inside a callback",
]
SHARDS = {"quick": 16, "thorough": 16}
TIMEOUT = {"quick": 900, "thorough": 7200}
MIN_CASES = {"quick": 4000, "thorough": 80000}
REQUIRED_COUNTERS = ["events_sent", "listener_logs_checked", "reconnects_checked", "resubscriptions_verified", "raising_listener_isolated", "polling_fallback_histories", "connection_back_events", "reads_with_complete_and_partial_frame", "subscribe_answered_207", "chunked_events_sent", "coap_event_entries_delivered", "ble_handle_lookups_checked"]

ALPHABET = "abcwuvlxrDSZOetpfmnjq"
SUB_A = [(1, 9), (1, 10)]
SUB_B = [(2, 9), (1, 9), (3, 13)]
# includes a characteristic the accessory does not have: the request is answered 207 with a per-item status, the ids stay
# the caller's subscriptions and are asked for again after every reconnect
SUB_W = [(1, 10), (1, 99), (2, 9)]
# interleaved accessory ids, as a caller may well pass them
SUB_C = [(1, 9), (2, 9), (1, 10), (3, 13), (2, 10), (1, 13), (3, 9), (2, 13)]


class Listener:
    def __init__(self, lid, raising, step):
        self.lid = lid
        self.raising = raising
        self.start = step
        self.end = None
        self.events = []
        self.empties = []
        self.step_of = lambda: 0
        self.remove = None

    def __call__(self, ev):
        if ev:
            self.events.append(dict(ev))
        else:
            self.empties.append(self.step_of())
        if self.raising:
            raise RuntimeError(f"listener {self.lid} raises")

    def __hash__(self):
        return hash(self.lid)

    def __eq__(self, other):
        return self is other


class History:
    def __init__(self, ctx, actions: str, key):
        self.ctx = ctx
        self.actions = actions
        self.rng = ctx.grng("C12", key)
        self.listeners: list[Listener] = []
        self.sent: list[tuple[int, dict]] = []  # (step, expected listener payload)
        self.reconnect_steps: list[int] = []
        self.step = 0
        self.value = 7000
        self.fallback = False
        self.bad = False
        self.cut_subscribe = False
        self.replay = {"actions": actions}

    def violation(self, key, msg):
        self.bad = True
        self.ctx.violation(key, f"history {self.actions!r} step {self.step}: {msg}", self.replay)

    # ---- accessory ---------------------------------------------------------------------------
    def responder(self, conn, req):
        if conn.secure and req["method"] == "PUT" and req["target"] == "/characteristics" and b'"ev"' in req["body"] and self.cut_subscribe:
            self.cut_subscribe = False
            self.fallback = True
            conn.close()
            return True
        if conn.secure and req["target"].startswith("/x/"):
            return True
        return False

    def current_conn(self):
        for c in reversed(self.w.accessory.conns):
            if c.is_open and c.secure:
                return c
        return None

    def next_value(self):
        self.value += 1
        return self.value

    def event_for(self, keys):
        """Return (plaintext EVENT message, expected listener payload)."""
        changes = [(a, i, self.next_value()) for a, i in keys]
        conn = self.current_conn()
        body = conn.event_body(changes)
        chunks = None
        if self.rng.random() < 0.3:
            chunks = self.rng.choice([[len(body)], [7], [1, 30], [16, 3, 200]])
            self.ctx.count("chunked_events_sent")
        return conn.event(body, chunks), {(a, i): {"value": v} for a, i, v in changes}

    def pick_key(self):
        subs = sorted(self.w.pairing.subscriptions) or [(1, 9)]
        return self.rng.choice(subs)

    async def do(self, a: str) -> None:
        from vf import vloop

        w = self.w
        p = w.pairing
        conn = self.current_conn()
        n_conns = len([c for c in w.accessory.conns if c.secure])
        if a == "O":
            # outage: the accessory drops the connection and is unreachable; a subscribe call made now cannot connect (its
            # own 10 s wait expires, no subscription request is ever sent); then the accessory comes back
            self.outage = True
            if conn is not None:
                conn.close()
            await vloop.settle()
            self.expected_subs = getattr(self, "expected_subs", set()) | set(SUB_A)
            try:
                await asyncio.wait_for(p.subscribe(SUB_A), 60)
            except Exception:  # noqa: BLE001
                pass
            await asyncio.sleep(2.5)
            self.outage = False
            for _ in range(40):
                await asyncio.sleep(0.5)
                await vloop.settle()
                if w.connection.is_connected:
                    break
            self.ctx.count("outages_with_subscribe")
        if a in "abcwuv":
            from aiohomekit.exceptions import AccessoryDisconnectedError

            # lower bound of what the pairing must remember: everything subscribed and not (attempted to be) unsubscribed since
            self.expected_subs = getattr(self, "expected_subs", set())
            if a in "abcw":
                self.expected_subs |= set({"a": SUB_A, "b": SUB_B, "c": SUB_C, "w": SUB_W}[a])
            else:
                self.expected_subs -= set([(1, 9)] if a == "u" else [(2, 9), (1, 10)])
            try:
                if a == "a":
                    await asyncio.wait_for(p.subscribe(SUB_A), 60)
                elif a == "c":
                    await asyncio.wait_for(p.subscribe(SUB_C), 60)
                elif a == "b":
                    await asyncio.wait_for(p.subscribe(SUB_B), 60)
                elif a == "w":
                    await asyncio.wait_for(p.subscribe(SUB_W), 60)
                    self.ctx.count("subscribe_answered_207")
                elif a == "u":
                    await asyncio.wait_for(p.unsubscribe([(1, 9)]), 60)
                else:
                    await asyncio.wait_for(p.unsubscribe([(2, 9), (1, 10)]), 60)
            except AccessoryDisconnectedError:
                # the request was cut off by a disconnection: a legitimate outcome for the caller
                self.ctx.count("api_calls_cut_off")
        elif a in "lx":
            lst = Listener(len(self.listeners), a == "x", self.step)
            lst.step_of = lambda: self.step
            lst.remove = p.dispatcher_connect(lst)
            self.listeners.append(lst)
        elif a == "r":
            for lst in self.listeners:
                if lst.end is None:
                    lst.remove()
                    lst.end = self.step
                    break
        elif a == "D" and conn is not None:
            conn.close()
        elif a == "S":
            self.cut_subscribe = True
        elif a == "Z" and conn is not None:
            conn.transport.pause_reading()
            t = asyncio.ensure_future(w.connection.get("/x/1"))
            t.add_done_callback(lambda f: f.cancelled() or f.exception())
            await vloop.settle()
            conn.transport.abort()
        elif a in "etpfmnjq" and conn is not None:
            if a == "e":
                msg, exp = self.event_for([self.pick_key()])
                conn.send(msg)
                self.sent.append((self.step, exp))
            elif a == "t":
                if self.rng.random() < 0.5:
                    wire = b""
                    for _ in range(3):
                        msg, exp = self.event_for([self.pick_key()])
                        wire += conn.wire(msg)
                        self.sent.append((self.step, exp))
                else:
                    # the accessory packs its outgoing STREAM into frames: frame boundaries fall anywhere - inside a body with the
                    # next event's head right behind it in the following frame, inside a status line, ...
                    plain, ends = b"", []
                    for _ in range(self.rng.choice([2, 3])):
                        msg, exp = self.event_for([self.pick_key()])
                        plain += msg
                        ends.append(len(plain))
                        self.sent.append((self.step, exp))
                    inside_first_body = max(1, ends[0] - self.rng.randrange(1, 12))
                    sizes = self.rng.choice([[inside_first_body, 1024], [inside_first_body, 5, 1024], [self.rng.randrange(1, len(plain))], [16], [ends[0] + 3, 1024], [100]])
                    wire = conn.wire(plain, sizes)
                    self.ctx.count("events_packed_across_frames")
                conn.transport.write(wire)
            elif a == "p":
                # events split across reads; half the time a read carries COMPLETE frame(s) followed by the beginning of the
                # next frame (several events, or one event in 16-byte frames, cut strictly inside a later frame)
                style = self.rng.randrange(4)
                if style < 2:
                    msg, exp = self.event_for([self.pick_key()])
                    wire = conn.wire(msg, [16] if style == 1 else None)
                    self.sent.append((self.step, exp))
                    first = (2 + 16 + 16) if style == 1 else 0
                else:
                    wire, first = b"", 0
                    for _ in range(style):
                        msg, exp = self.event_for([self.pick_key()])
                        wire += conn.wire(msg)
                        first = first or len(wire)
                        self.sent.append((self.step, exp))
                cuts = {self.rng.randrange(1, len(wire))}
                if not conn.secure or style == 0:
                    cuts.add(len(wire) - self.rng.choice([1, 2, 3]))  # just before / inside the message's final CRLF
                if first and first + 1 < len(wire):
                    cuts.add(self.rng.randrange(first + 1, len(wire)))
                    self.ctx.count("reads_with_complete_and_partial_frame")
                else:
                    cuts.add(self.rng.randrange(1, len(wire)))
                await conn.send_pieces(wire, sorted(cuts))
            elif a == "f":
                msg, exp = self.event_for([self.pick_key()])
                # the accessory's own frame boundaries: 16-byte frames, or one frame that ends 1-3 bytes before the end of the
                # message (inside / right before its final CRLF), the rest in a second frame
                k = self.rng.choice([0, 1, 2, 3])
                conn.send(msg, frame_sizes=[16] if k == 0 or len(msg) - k > 1024 else [len(msg) - k])
                self.sent.append((self.step, exp))
            elif a == "m":
                keys = sorted(w.pairing.subscriptions)[:2] or [(1, 9)]
                if len(keys) == 1:
                    keys = keys + [(1, 13)]
                msg, exp = self.event_for(keys)
                conn.send(msg)
                self.sent.append((self.step, exp))
            elif a == "n":
                conn.send(conn.event(b""))
            elif a == "j":
                conn.send(conn.event(b"this is {not json"))
            elif a == "q":
                msg, exp = self.event_for([self.pick_key()])

                def resp(c, req, msg=msg):
                    if c.secure and req["target"].startswith("/characteristics?id="):
                        body = json.dumps({"characteristics": [{"aid": 1, "iid": 3, "value": "Sim 1"}]}, separators=(",", ":")).encode()
                        wire = c.wire(msg + c.http(200, body, "application/hap+json"))
                        cut = self.rng.randrange(1, len(wire))
                        c.spawn(c.send_pieces(wire, [cut]))
                        c.script.responder = self.responder
                        return True
                    return self.responder(c, req)

                conn.script.responder = resp
                try:
                    res = await asyncio.wait_for(p.get_characteristics([(1, 3)]), 60)
                    if res != {(1, 3): {"value": "Sim 1"}}:
                        self.violation("read-result-corrupted-by-event", f"get_characteristics returned {res!r}")
                except Exception as ex:  # noqa: BLE001
                    self.violation("read-fails-next-to-event", f"{ex!r}")
                self.sent.append((self.step, exp))
        await vloop.settle()
        # a lost connection is re-established by the pairing itself; give it (virtual) time
        if a in "DSZ" or (a in "abcwuv" and self.current_conn() is None):
            for _ in range(6):
                if w.connection.is_connected:
                    break
                await asyncio.sleep(0.5)
                await vloop.settle()
        now_conns = len([c for c in w.accessory.conns if c.secure])
        if now_conns > n_conns:
            self.reconnect_steps += [self.step] * (now_conns - n_conns)
        self.check_quiescent(a)

    def check_quiescent(self, a) -> None:
        ctx = self.ctx
        w = self.w
        conn = self.current_conn()
        if conn is None or not w.connection.is_connected:
            return
        if not w.pairing.supports_subscribe:
            # the polling fallback is legitimate only if a subscription request was really cut off by a disconnection -
            # decided by the simulated accessory (it received such a request and closed instead of answering), not by the flag
            if not self.fallback:
                self.violation("polling-fallback-without-cut-off-subscription",
                               f"after {a!r}: supports_subscribe is off although no subscription request was ever cut off by a disconnection")
            return
        want = set(w.pairing.subscriptions)
        if not want <= conn.asked:
            self.violation(
                "subscriptions-not-registered-on-connection",
                f"after {a!r}: caller is subscribed to {sorted(want)} but connection {conn.index} was asked for {sorted(conn.asked)}",
            )
            return
        if not getattr(self, "expected_subs", set()) <= want:
            self.violation("subscription-forgotten", f"after {a!r}: the caller subscribed to {sorted(getattr(self, 'expected_subs', set()))} (and did not unsubscribe) but the pairing only remembers {sorted(want)}")
            return
        if want and conn.index > 0:
            ctx.count("resubscriptions_verified")

    async def run(self) -> None:
        from vf import simnet, vloop

        ctx = self.ctx
        self.outage = False
        w = self.w = simnet.World(self.rng, behaviour=lambda host, attempt: "refuse" if self.outage else "accept")
        w.accessory.script_for = lambda host, attempt: simnet.ConnScript(responder=self.responder)
        loop = asyncio.get_running_loop()
        loop.captured.clear()
        try:
            await asyncio.wait_for(w.connection.ensure_connection(), 30)
            await w.pairing.list_accessories_and_characteristics()
            await vloop.settle()
            for a in self.actions:
                self.step += 1
                await self.do(a)
                if self.bad:
                    return
            self.step += 1
            self.final_checks()
        finally:
            await w.close()

    def final_checks(self) -> None:
        ctx = self.ctx
        ctx.count("events_sent", len(self.sent))
        if self.fallback:
            ctx.count("polling_fallback_histories")
        for lst in self.listeners:
            end = lst.end if lst.end is not None else self.step + 1
            expected = [exp for (st, exp) in self.sent if lst.start < st < end or (st == lst.start and False)]
            got = lst.events
            ctx.count("listener_logs_checked")
            if got != expected:
                missing = [e for e in expected if e not in got]
                extra = [e for e in got if e not in expected]
                if len(got) > len(set(map(repr, got))):
                    key = "event-duplicated"
                elif missing:
                    key = "event-lost" + ("-after-raising-listener" if any(o.raising for o in self.listeners) else "")
                elif extra:
                    key = "event-unexpected-or-wrong-key"
                else:
                    key = "event-reordered"
                self.violation(key, f"listener {lst.lid} (raising={lst.raising}, registered steps {lst.start}..{end}) got {got} expected {expected}")
                return
            if lst.raising and expected:
                ctx.count("raising_listener_isolated")
            # told that the connection is back
            recon = [s for s in self.reconnect_steps if lst.start < s < end]
            ctx.count("reconnects_checked", len(recon))
            if len(lst.empties) < len(recon):
                self.violation("no-connection-back-event", f"listener {lst.lid} saw {len(lst.empties)} 'connection is back' events for {len(recon)} reconnections")
                return
            ctx.count("connection_back_events", len(lst.empties))
        for cap in asyncio.get_running_loop().captured:
            et = cap["exception_type"]
            if et not in (None, "ConnectionResetError"):
                self.violation(f"exception-escapes-into-loop-{et}", f"{cap['message']}: {cap['exception']!r}")
                return


def nontrivial(actions: str) -> bool:
    return any(ch in actions for ch in "DSZOetpfmq")


async def run_one(ctx, actions: str, key) -> None:
    ctx.case(actions, nontrivial=nontrivial(actions), sample={"history": actions}, kind="rand" if len(actions) > 9 else "enum")
    await History(ctx, actions, key).run()


async def ble_handle_part(ctx) -> None:
    """BLE: notifications are enabled per GATT handle, and the handle for a subscribed characteristic is looked up through the
    real AIOHomeKitBleakClient.get_characteristic (service uuid, characteristic uuid, instance id). Accessories with several
    services of one type (a double outlet, a multi-button remote) have several handles with the SAME two uuids: each
    subscribed instance id must resolve to ITS handle, in every order of asking and on repeated asking (the per-connection
    look-up cache), or one characteristic's events are never enabled while another's are enabled twice."""
    from aiohomekit.controller.ble.bleak import CHAR_DESCRIPTOR_UUID, AIOHomeKitBleakClient

    class Desc:
        def __init__(self, handle):
            self.uuid = str(CHAR_DESCRIPTOR_UUID)
            self.handle = handle

    class Char:
        def __init__(self, uuid, handle, iid):
            self.uuid, self.handle, self.iid = uuid, handle, iid
            self.max_write_without_response_size = None
            self._desc = Desc(handle + 1)

        def get_descriptor(self, uuid):
            return self._desc if str(uuid).lower() == self._desc.uuid.lower() else None

    class Svc:
        def __init__(self, uuid, chars):
            self.uuid, self.characteristics = uuid, chars

    class Services:
        def __init__(self, svcs):
            self.services = dict(enumerate(svcs))

    class Client(AIOHomeKitBleakClient):
        def __init__(self, svcs):  # no radio: only the look-up helpers of the real class are used
            self._AIOHomeKitBleakClient__name = "sim"
            self._char_cache = {}
            self._iid_cache = {}
            self._sim = Services(svcs)
            self._by_desc = {c._desc.handle: c for s_ in svcs for c in s_.characteristics}

        services = property(lambda self: self._sim)

        async def read_gatt_descriptor(self, handle):
            return bytearray(self._by_desc[handle].iid.to_bytes(2, "little"))

    OUTLET, ON, INUSE = "00000047-0000-1000-8000-0026BB765291", "00000025-0000-1000-8000-0026BB765291", "00000026-0000-1000-8000-0026BB765291"
    for k in range(ctx.pick(40, 2000)):
        if not ctx.mine(k):
            continue
        rng = ctx.grng("C12.ble-handles", k)
        n_svc = rng.choice([1, 2, 2, 3, 4])
        svcs, chars, handle, iid = [], [], 30, 10
        for _ in range(n_svc):
            cs = []
            for uuid in (ON, INUSE):
                cs.append(Char(uuid if rng.random() < 0.5 else uuid.lower(), handle, iid))
                handle += 3
                iid += rng.choice([1, 1, 2, 250])
            svcs.append(Svc(OUTLET if rng.random() < 0.5 else OUTLET.lower(), cs))
            chars += cs
        client = Client(svcs)
        asks = [c for c in chars for _ in range(rng.choice([1, 2]))]
        rng.shuffle(asks)
        ctx.case("ble-handles", k, sample={"transport": "ble", "services_of_one_type": n_svc, "lookups": [c.iid for c in asks]}, kind="ble-handles")
        replay = {"t": "ble-handles", "k": k}
        for c in asks:
            spelling = rng.choice([str.upper, str.lower, lambda x: x])
            try:
                got = await client.get_characteristic(spelling(OUTLET), spelling(c.uuid), c.iid)
            except Exception as ex:  # noqa: BLE001
                ctx.violation(f"ble-handle-lookup-raises-{type(ex).__name__}", f"{n_svc} services of one type; instance id {c.iid}: {ex!r}", replay)
                return
            if got is not c:
                ctx.violation("ble-events-enabled-on-wrong-handle", f"{n_svc} services of one type, look-ups {[x.iid for x in asks]}: instance id {c.iid} resolved to handle {got.handle} (instance id {got.iid}), its own handle is {c.handle}", replay)
                return
        ctx.count("ble_handle_lookups_checked", len(asks))


async def ble_notify_part(ctx) -> None:
    """BLE events while connected: the accessory pokes the controller with an (empty) GATT notification on a subscribed
    characteristic's handle, the controller reads the value and tells the listeners. Notifications for SEVERAL characteristics
    arrive while the first read is still in flight (a scene switching three lights): every one of them reaches every listener
    (a storm on ONE characteristic may be coalesced - the read returns the latest value anyway - but not across characteristics)."""
    from vf import sim_ble_acc

    for k in range(ctx.pick(6, 80)):
        if not ctx.mine(k):
            continue
        rng = ctx.grng("C12.ble-notify", k)
        w = sim_ble_acc.BleWorld(rng)
        replay = {"t": "ble-notify", "k": k}
        try:
            got_a, got_b = [], []
            w.pairing.dispatcher_connect(lambda ev: got_a.append(ev))
            w.pairing.dispatcher_connect(lambda ev: got_b.append(ev))
            p = w.pairing
            try:
                await asyncio.wait_for(p.get_characteristics([(1, 11)]), 120)
                iids = rng.sample([10, 11, 13, 14], rng.choice([2, 3, 3, 4]))
                iids = [i for i in iids if "ev" in w.accessory.chars[i][3] or True]
                async with p._operation_lock:
                    for iid in iids:
                        await p._async_start_notify(iid)
            except Exception as ex:  # noqa: BLE001
                ctx.mark_inconclusive(f"C12 BLE notify slice: set-up failed: {ex!r}")
                return
            client = w.accessory.clients[-1]
            ctx.case("ble-notify", k, tuple(iids), sample={"transport": "ble", "notified_characteristics": iids}, kind="ble-notify")
            got_a.clear()
            got_b.clear()
            gate = asyncio.Event()
            client.gate = gate
            order = list(iids)
            rng.shuffle(order)
            for iid in order:
                client.notify_callbacks[iid](iid, b"")
                for _ in range(rng.choice([0, 0, 1, 3])):
                    await asyncio.sleep(0)
            for _ in range(10):
                await asyncio.sleep(0)
            gate.set()
            for _ in range(600):
                await asyncio.sleep(0)
            for name, got in (("first listener", got_a), ("second listener", got_b)):
                seen = [key for ev in got for key in ev]
                missing = [(1, i) for i in iids if (1, i) not in seen]
                if missing or len(seen) != len(set(seen)):
                    ctx.violation("event-lost" if missing else "event-duplicated", f"BLE: GATT notifications for characteristics {order} while the first read was in flight; {name} saw {seen} (missing {missing})", replay)
                    return
            ctx.count("ble_notifications_delivered", len(iids))
        finally:
            await w.close()


async def catch_up_part(ctx) -> None:
    """Events while NOT connected (BLE accessories, sleepy devices) announce themselves through the state number in the
    advertisement: every advertisement whose state number DIFFERS from the last one seen - it is a wrapping 16-bit counter,
    65535 is followed by 1, a rebooted accessory starts again low - makes the pairing catch up (poll the subscribed
    characteristics); the same number again does not. Observed at the hook the shared pairing code calls
    (`_process_disconnected_events`, which the BLE pairing turns into the catch-up poll)."""
    import dataclasses

    from vf import sim_ble_acc

    for k in range(ctx.pick(6, 60)):
        if not ctx.mine(k):
            continue
        rng = ctx.grng("C12.catch-up", k)
        w = sim_ble_acc.BleWorld(rng)
        try:
            p = w.pairing
            calls = []
            p._process_disconnected_events = lambda: calls.append(p.description.state_num if p.description else None)
            start = rng.choice([5, 300, 65533, 65534])
            seq, cur = [], start
            for _ in range(rng.randint(4, 12)):
                step = rng.choice(["same", "next", "next", "jump", "wrap", "restart"])
                cur = {"same": cur, "next": cur + 1 if cur < 65535 else 1, "jump": min(65535, cur + rng.randint(2, 50)), "wrap": 1 if cur >= 65000 else cur + 1, "restart": rng.randint(1, 3)}[step]
                seq.append(cur)
            ctx.case("catch-up", k, sample={"transport": "ble", "advertised_state_numbers": [start] + seq}, kind="catch-up")
            base = p.description
            p._async_description_update(dataclasses.replace(base, state_num=start))
            calls.clear()
            last, want = start, 0
            for n in seq:
                before = len(calls)
                p._async_description_update(dataclasses.replace(base, state_num=n))
                triggered = len(calls) - before
                expect = 1 if n != last else 0
                if triggered != expect:
                    ctx.violation("catch-up-poll-not-triggered" if expect else "catch-up-poll-for-unchanged-state", f"advertised state numbers {[start] + seq}: after {last} came {n}; catch-up triggered {triggered} time(s), expected {expect}", {"t": "catch-up", "k": k})
                    return
                last = n
                want += expect
            ctx.count("catch_up_triggers_checked", want)
        finally:
            await w.close()


def run(ctx) -> None:
    from vf import vloop

    depth = ctx.pick(3, 4)

    async def main():
        idx = 0
        for prefix in ("la", "xlb", "lc"):
            for tail in itertools.product(ALPHABET, repeat=depth):
                idx += 1
                if ctx.mine(idx):
                    await run_one(ctx, prefix + "".join(tail) + "e", idx)
        ctx.exhaustive_parts[f"all histories of depth {depth} after each of 3 prefixes"] = True
        rng = ctx.rng("C12.random")
        for k in range(ctx.pick(3000, 200000) // ctx.nshards):
            n = rng.randint(10, 40)
            actions = "".join(rng.choice("aabcwuvllxrDDSZOeeetpfmnjq") for _ in range(n))
            await run_one(ctx, actions, ("rand", ctx.shard, k))
        # the delivery clause on the CoAP transport: notifications with several entries (a characteristic may repeat)
        from vf import sim_coap

        await sim_coap.c12_part(ctx)
        await ble_handle_part(ctx)
        await catch_up_part(ctx)
        await ble_notify_part(ctx)

    vloop.run(main())


def replay(ctx, d) -> None:
    from vf import vloop

    if d.get("t") == "coap-events":
        from vf import sim_coap

        ctx.shard, ctx.nshards = 0, 1
        vloop.run(sim_coap.c12_part(ctx))
        return
    if d.get("t") == "ble-notify":
        ctx.shard, ctx.nshards = 0, 1
        vloop.run(ble_notify_part(ctx))
        return
    if d.get("t") == "catch-up":
        ctx.shard, ctx.nshards = 0, 1
        vloop.run(catch_up_part(ctx))
        return
    if d.get("t") == "ble-handles":
        ctx.shard, ctx.nshards = 0, 1
        vloop.run(ble_handle_part(ctx))
        return
    vloop.run(run_one(ctx, d["actions"], "replay"))
