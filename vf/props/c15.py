"""C15 Pairing TLV encoding round-trips and is the canonical TLV8 wire format.

Oracle: vf.ref.tlv8 (independent codec).  Real code under test: aiohomekit.protocol.tlv.TLV and
aiohomekit.controller.ble.client._pairing_char_write (fragment reassembly on top of the codec).
"""

from __future__ import annotations

import asyncio
import itertools

from vf.ref import tlv8 as ref

PROPERTY_ID = "C15"
LEVEL = "exploration"
RULE = (
    "cases = (A) item lists: every pair/triple of boundary lengths {0,1,2,254,255,256,257,509,510,511,765,766} over"
    " types incl. equal-typed neighbours kept apart by separators, plus random lists (1-8 items, len<=2000), each"
    " through encode_list + decode_bytes + decode_bytearray with bytes and bytearray values; (B) decoder totality:"
    " every byte string of length<=2, every string of length 3-6 over {0,1,2,3,6,7,254,255}, random strings and"
    " truncation/bit-flip/length-edit mutants of valid encodings; (C) 'expected' filter over random lists x type"
    " subsets; (D) BLE pairing fragment reassembly with 1..50 pieces (also with an EMPTY closing FragmentLast) through the real _pairing_char_write."
    " A case is distinct by (part, input bytes / item list, mode); non-trivial = the input is non-empty."
)
ASSUMPTIONS = [
    "canonical TLV8 = maximal 255-byte fragments, zero-length item encoded 'T 00', join only after a full fragment",
    "round-trip precondition: adjacent items never share a type (equal-typed neighbours are separated by a separator item)",
    "'expected' filter: both stop-at-first-unlisted and skip-unlisted semantics satisfy the statement",
]
SHARDS = {"quick": 8, "thorough": 16}
TIMEOUT = {"quick": 600, "thorough": 3600}
MIN_CASES = {"quick": 50_000, "thorough": 500_000}
REQUIRED_COUNTERS = ["roundtrip_checked", "totality_checked", "filter_checked", "ble_reassembly_checked", "ble_reassembly_empty_last_fragment", "ble_reassembly_via_state_machine_driver", "parse_errors_seen"]

BOUNDARY = [0, 1, 2, 254, 255, 256, 257, 509, 510, 511, 765, 766]
ALPHABET = [0, 1, 2, 3, 6, 7, 254, 255]
SEP = 255


def _tlv():
    from aiohomekit.protocol.tlv import TLV, TlvParseException

    return TLV, TlvParseException


def _pattern(n: int, salt: int) -> bytes:
    # content is irrelevant to framing, but make every byte position distinguishable
    return bytes(((i * 7 + salt * 13 + (i >> 8)) & 0xFF) for i in range(n))


def _norm(result):
    return [(int(k), bytes(v)) for k, v in result]


# ---------------------------------------------------------------------------------------------
# part A: round trip / canonical
# ---------------------------------------------------------------------------------------------


def check_roundtrip(ctx, items, mode: str, origin) -> None:
    TLV, TlvParseException = _tlv()
    conv = bytearray if mode == "bytearray" else bytes
    given = [(t, conv(v)) for t, v in items]
    plain = [(t, bytes(v)) for t, v in items]
    desc = {"part": "roundtrip", "items": [(t, len(v)) for t, v in items], "mode": mode}
    ctx.case("A", tuple((t, bytes(v)) for t, v in items), mode, sample=desc, kind="A")
    ctx.count("roundtrip_checked")
    replay = {"part": "A", "items": plain, "mode": mode}
    try:
        enc = TLV.encode_list(given)
    except Exception as ex:
        ctx.violation(f"encode-raises-{type(ex).__name__}", f"encode_list raised {ex!r} for {desc}", replay)
        return
    if [(t, bytes(v)) for t, v in given] != plain:
        ctx.violation("encode-mutates-input", f"encode_list mutated its argument for {desc}", replay)
    want = ref.encode(plain)
    if bytes(enc) != want:
        zero = any(len(v) == 0 and t != SEP for t, v in plain)
        key = "encode-drops-zero-length-item" if zero and len(enc) < len(want) else "encode-not-canonical"
        ctx.violation(key, f"encode_list produced {len(enc)} bytes, reference {len(want)} for {desc}", replay)
        return
    if ref.decode(bytes(enc)) != plain:
        ctx.violation("reference-peer-rejects-encoding", f"reference decoder does not return the list for {desc}", replay)
        return
    for fn_name in ("decode_bytes", "decode_bytearray"):
        arg = bytes(enc) if fn_name == "decode_bytes" else bytearray(enc)
        before = bytes(arg)
        try:
            got = getattr(TLV, fn_name)(arg)
        except Exception as ex:
            ctx.violation(
                f"decode-of-own-encoding-raises-{type(ex).__name__}",
                f"{fn_name}(encode_list(L)) raised {ex!r} for {desc}",
                replay,
            )
            continue
        if bytes(arg) != before:
            ctx.violation("decode-mutates-input", f"{fn_name} changed its argument for {desc}", replay)
        if _norm(got) != plain:
            ctx.violation("roundtrip-mismatch", f"{fn_name}(encode_list(L)) != L for {desc}: got {[(k, len(v)) for k, v in got]}", replay)


def gen_roundtrip(ctx):
    idx = 0
    # all pairs of boundary lengths: different types / same type with separator
    for a, b in itertools.product(BOUNDARY, BOUNDARY):
        for shape in ("diff", "same-sep", "sep-first"):
            idx += 1
            if not ctx.mine(idx):
                continue
            if shape == "diff":
                items = [(1, _pattern(a, 1)), (5, _pattern(b, 2))]
            elif shape == "same-sep":
                items = [(3, _pattern(a, 3)), (SEP, b""), (3, _pattern(b, 4))]
            else:
                items = [(SEP, b""), (6, _pattern(a, 5)), (SEP, b""), (0, _pattern(b, 6))]
            yield items, ("bytes" if (idx // ctx.nshards) % 2 else "bytearray"), ("pair", a, b, shape)
    # every type 0..254 x a few lengths (type validity / names table in the debug formatter)
    for t in range(0, 255):
        for ln in (0, 1, 255, 256):
            idx += 1
            if not ctx.mine(idx):
                continue
            yield [(t, _pattern(ln, t))], "bytes", ("type", t, ln)
    # all triples over a reduced boundary set, same type separated
    red = [0, 1, 255, 256, 510, 511] if ctx.quick else BOUNDARY
    for a, b, c in itertools.product(red, red, red):
        idx += 1
        if not ctx.mine(idx):
            continue
        yield [(9, _pattern(a, 7)), (SEP, b""), (9, _pattern(b, 8)), (10, _pattern(c, 9))], "bytearray", ("triple", a, b, c)
    ctx.exhaustive_parts["A.boundary_pairs_triples_types"] = True
    # random lists
    rng = ctx.rng("A.random")
    n = ctx.pick(4000, 300000) // ctx.nshards
    for k in range(n):
        items = []
        last = None
        for _ in range(rng.randint(1, 8)):
            t = rng.choice([0, 1, 2, 3, 4, 5, 6, 7, 9, 10, 11, 12, 13, 14, 100, 254, rng.randrange(0, 255)])
            if t == last:
                items.append((SEP, b""))
            r = rng.random()
            if r < 0.35:
                ln = rng.choice(BOUNDARY)
            elif r < 0.9:
                ln = rng.randrange(0, 600)
            else:
                ln = rng.randrange(0, 2001)
            items.append((t, rng.randbytes(ln)))
            last = t
        yield items, rng.choice(["bytes", "bytearray"]), ("random", k)


# ---------------------------------------------------------------------------------------------
# part B: totality on arbitrary bytes
# ---------------------------------------------------------------------------------------------


def check_totality(ctx, data: bytes, fn_name: str, origin) -> None:
    TLV, TlvParseException = _tlv()
    ctx.case("B", data, fn_name, nontrivial=len(data) > 0, sample={"part": "totality", "bytes": data, "fn": fn_name, "origin": origin}, kind="B")
    ctx.count("totality_checked")
    replay = {"part": "B", "data": data, "fn": fn_name}
    try:
        frags = ref.fragments(data)
        truncated = False
    except ref.RefTlvError:
        frags = None
        truncated = True
    arg = bytes(data) if fn_name == "decode_bytes" else bytearray(data)
    try:
        got = getattr(TLV, fn_name)(arg)
    except TlvParseException:
        ctx.count("parse_errors_seen")
        if not truncated:
            ctx.violation("decode-rejects-wellformed", f"{fn_name}({data.hex()}) raised TlvParseException on a well-formed fragment stream", replay)
        return
    except Exception as ex:
        where = "truncated" if truncated else "wellformed"
        ctx.violation(
            f"decode-raises-{type(ex).__name__}-on-{where}",
            f"{fn_name}({data[:40].hex()}{'...' if len(data) > 40 else ''}) raised {type(ex).__name__}: {ex}",
            replay,
        )
        return
    if truncated:
        ctx.violation(
            "decode-accepts-truncated",
            f"{fn_name}({data[:40].hex()}) returned {[(k, len(v)) for k, v in got]} although a declared length exceeds the data",
            replay,
        )
        return
    ctx.count("wellformed_decoded")
    # no payload byte lost, type sequence preserved (merge-semantics agnostic)
    want_payload = b"".join(p for _, p in frags)
    got_payload = b"".join(bytes(v) for _, v in got)
    want_types = [k for k, _ in itertools.groupby(t for t, _ in frags)]
    got_types = [k for k, _ in itertools.groupby(int(t) for t, _ in got)]
    if want_payload != got_payload or want_types != got_types:
        ctx.violation("decode-loses-or-reorders-data", f"{fn_name}({data[:40].hex()}) -> {[(k, bytes(v).hex()[:20]) for k, v in got]}", replay)


def gen_totality(ctx):
    idx = 0
    for ln in (0, 1, 2):
        for tup in itertools.product(range(256), repeat=ln):
            idx += 1
            if ctx.mine(idx):
                yield bytes(tup), ("decode_bytes" if idx & 16 else "decode_bytearray"), "exhaustive<=2"
    maxlen = 6
    for ln in range(3, maxlen + 1):
        for tup in itertools.product(ALPHABET, repeat=ln):
            idx += 1
            if ctx.mine(idx):
                yield bytes(tup), "decode_bytes", f"alphabet-len{ln}"
    ctx.exhaustive_parts[f"B.all_strings_len<=2_and_alphabet_len<={maxlen}"] = True
    rng = ctx.rng("B.random")
    for k in range(ctx.pick(60000, 6000000) // ctx.nshards):
        ln = rng.choice([3, 4, 5, 8, 16, 40, 300, 600])
        b = bytearray(rng.randbytes(ln))
        if rng.random() < 0.7:
            # bias length bytes towards plausible values so that deep parses happen
            i = 1
            while i < len(b):
                b[i] = rng.choice([0, 1, 2, 3, 255, b[i] % 8])
                i += 2 + b[i]
        yield bytes(b), rng.choice(["decode_bytes", "decode_bytearray"]), "random"
    # mutants of valid encodings
    for k in range(ctx.pick(300, 20000) // ctx.nshards):
        items = []
        last = None
        for _ in range(rng.randint(1, 5)):
            t = rng.choice([0, 1, 2, 3, 5, 6, 7, 10, 14])
            if t == last:
                items.append((SEP, b""))
            items.append((t, rng.randbytes(rng.choice([1, 1, 2, 8, 32, 64, 255, 256, 300]))))
            last = t
        enc = ref.encode(items)
        for cut in range(len(enc) + 1) if len(enc) < 90 else sorted(rng.sample(range(len(enc) + 1), 40)):
            yield enc[:cut], "decode_bytes", "truncate"
        for _ in range(12):
            m = bytearray(enc)
            pos = rng.randrange(len(m))
            kind = rng.random()
            if kind < 0.5:
                m[pos] ^= 1 << rng.randrange(8)
            elif kind < 0.8:
                m[pos] = rng.choice([0, 1, 254, 255])
            else:
                del m[pos]
            yield bytes(m), "decode_bytearray", "mutate"


# ---------------------------------------------------------------------------------------------
# part C: expected filter
# ---------------------------------------------------------------------------------------------


def check_filter(ctx, items, expected, origin) -> None:
    TLV, TlvParseException = _tlv()
    plain = [(t, bytes(v)) for t, v in items]
    enc = ref.encode(plain)
    ctx.case("C", enc, tuple(expected), sample={"part": "filter", "items": [(t, len(v)) for t, v in plain], "expected": list(expected)}, kind="C")
    ctx.count("filter_checked")
    replay = {"part": "C", "items": plain, "expected": list(expected)}
    try:
        got = _norm(TLV.decode_bytes(enc, expected=list(expected)))
    except Exception as ex:
        ctx.violation(f"filter-raises-{type(ex).__name__}", f"decode_bytes(expected={expected}) raised {ex!r}", replay)
        return
    first_unlisted = next((i for i, (t, _) in enumerate(plain) if t not in expected), len(plain))
    if any(t not in expected for t, _ in got):
        ctx.violation("filter-returns-unlisted-type", f"expected={expected} got types {[t for t, _ in got]}", replay)
        return
    if got[:first_unlisted] != plain[:first_unlisted]:
        ctx.violation("filter-loses-leading-item", f"expected={expected}: items before the first unlisted type differ: {[(t, len(v)) for t, v in got]}", replay)
        return
    # every returned item must be an unaltered item of L, in order
    it = iter(plain)
    for g in got:
        for cand in it:
            if cand == g:
                break
        else:
            ctx.violation("filter-alters-item", f"expected={expected}: returned item ({g[0]}, len {len(g[1])}) is not an item of the input", replay)
            return


def gen_filter(ctx):
    rng = ctx.rng("C")
    types = [0, 1, 2, 3, 4, 5, 6, 7, 10, 14]
    for k in range(ctx.pick(4000, 400000) // ctx.nshards):
        items = []
        last = None
        for _ in range(rng.randint(1, 6)):
            t = rng.choice([x for x in types if x != last])
            items.append((t, rng.randbytes(rng.choice([1, 1, 2, 32, 255, 256, 384, 600]))))
            last = t
        expected = rng.sample(types, rng.randint(1, len(types)))
        yield items, expected, k
    # the pairing protocol's own expectation lists against a full reply
    full = [(6, b"\x02"), (7, b"\x02"), (3, b"k" * 384), (2, b"s" * 16), (4, b"p" * 64), (5, b"e" * 300)]
    for expected in ([6, 7, 3, 2], [6, 7, 4, 5], [6, 7, 5], [6, 3, 5], [6, 7]):
        for perm in itertools.permutations(full, 3):
            yield list(perm), expected, "protocol"


# ---------------------------------------------------------------------------------------------
# part D: BLE pairing fragment reassembly through the real _pairing_char_write
# ---------------------------------------------------------------------------------------------


def run_ble_reassembly(ctx, response_items, pieces: int, negotiated: int, request_items, empty_last: bool = False, abort_after: int | None = None) -> None:
    from aiohomekit.controller.ble import client as ble_client
    from vf.sim_ble import FakeGattClient, FakeHandle, GattEndpointSim

    TLV, _ = _tlv()
    plain = [(t, bytes(v)) for t, v in response_items]
    payload = ref.encode(plain)
    # split into `pieces` non-empty chunks (last = FragmentLast); pieces == 1 -> unfragmented reply
    n = max(1, min(pieces, len(payload)))
    size = len(payload) // n
    chunks = [payload[i * size : (i + 1) * size] for i in range(n - 1)] + [payload[(n - 1) * size :]]
    if empty_last and n < 50:  # 50 = the library's documented MAX_REASSEMBLY
        # the payload is an exact multiple of the accessory's fragment size: every byte travels in FragmentData items and
        # the closing FragmentLast item is EMPTY (0d 00)
        chunks.append(b"")
        n += 1
        ctx.count("ble_reassembly_empty_last_fragment")
    state = {"i": 0, "acks": []}
    replay = {"part": "D", "items": plain, "pieces": pieces, "negotiated": negotiated, "request": [(t, bytes(v)) for t, v in request_items], "empty_last": empty_last, "abort_after": abort_after}
    # the accessory gives up on its fragmented reply after `abort_after` FragmentData items and answers the next
    # acknowledgement with a plain, complete message (State + Error) instead
    abort_reply = [(6, b"\x02"), (7, b"\x03")]
    if abort_after is not None and not (1 <= abort_after < n - 1):
        abort_after = None
    if abort_after is not None:
        ctx.count("ble_reassembly_aborted_by_accessory")
    # how the accessory cuts each reply PDU into GATT reads: varies per case (short tails after several continuation packets included)
    cut_style = (len(payload) * 7 + pieces * 3 + negotiated) % 6

    def responder(opcode, tid, iid, body):
        outer = dict(ref.decode(body or b""))
        state["acks"].append(outer)
        i = state["i"]
        state["i"] += 1
        if n == 1:
            inner = payload
        elif abort_after is not None and i == abort_after:
            inner = ref.encode(abort_reply)
        elif i < n - 1:
            inner = ref.encode([(12, chunks[i])])
        else:
            inner = ref.encode([(13, chunks[i])])
        rbody = ref.encode([(1, inner)])
        L = len(rbody)
        if L <= 12:
            cuts = None
        elif cut_style == 0:
            cuts = [40, 90] if L > 100 else None
        elif cut_style == 1:
            cuts = [L // 3, 2 * L // 3, L - 1]  # three continuation packets, the last carries ONE byte
        elif cut_style == 2:
            cuts = [L // 2, L - 2]
        elif cut_style == 3:
            cuts = list(range(10, L, 10)) + [L - 1]
        elif cut_style == 4:
            cuts = [0, L - 3]  # header-only first packet
        else:
            cuts = [L - 4, L - 2, L - 1]
        return 0, rbody, cuts, None

    handle = FakeHandle("0000004C-0000-1000-8000-0026BB765291", 10)
    client = FakeGattClient(negotiated)
    client.endpoints[handle] = GattEndpointSim(responder)
    ctx.case("D", payload, pieces, negotiated, empty_last, sample={"part": "ble-reassembly", "response_types": [(t, len(v)) for t, v in plain], "pieces": n, "fragment_size": negotiated, "empty_last_fragment": empty_last}, kind="D")
    ctx.count("ble_reassembly_checked")
    via_driver = (len(payload) + pieces + negotiated) % 2 == 1
    try:
        if via_driver:
            # the way every BLE pairing step really runs: drive_pairing_state_machine with a state machine that names the
            # item types it expects (FragmentData / FragmentLast are never among them)
            from aiohomekit.model.characteristics import CharacteristicsTypes

            def machine():
                resp = yield [(t, bytes(v)) for t, v in request_items], sorted({t for t, _ in plain} | {6, 7})
                return resp

            ctx.count("ble_reassembly_via_state_machine_driver")
            got = asyncio.run(ble_client.drive_pairing_state_machine(client, CharacteristicsTypes.PAIR_SETUP, machine()))
        else:
            got = asyncio.run(ble_client._pairing_char_write(client, handle, 11, [(t, bytes(v)) for t, v in request_items]))
    except Exception as ex:
        ctx.violation(f"ble-reassembly-raises-{type(ex).__name__}", f"_pairing_char_write raised {ex!r} with {n} pieces", replay)
        return
    got_n = {int(k): bytes(v) for k, v in got.items()}
    if abort_after is not None:
        # the last thing the accessory said is a complete message of its own: that is the reply (never a message put
        # together from the abandoned pieces, which nobody sent)
        if got_n != dict(abort_reply):
            ctx.violation("ble-reassembly-returns-message-nobody-sent", f"accessory abandoned its fragmented reply after {abort_after} of {n} pieces and answered {abort_reply}; controller returned {[(k, len(v)) for k, v in got_n.items()]}", replay)
        return
    if got_n != dict(plain):
        ctx.violation("ble-reassembly-mismatch", f"{n} pieces: got {[(k, len(v)) for k, v in got_n.items()]} want {[(k, len(v)) for k, v in plain]}", replay)
        return
    # the controller's first write carries the request, every later write acknowledges with an empty FragmentData
    first = state["acks"][0]
    if first.get(9) != b"\x01" or first.get(1) != ref.encode([(t, bytes(v)) for t, v in request_items]):
        ctx.violation("ble-pairing-request-not-canonical", f"accessory decoded first write as {first}", replay)
    for ack in state["acks"][1:]:
        if ack.get(1) != bytes([12, 0]):
            ctx.violation("ble-fragment-ack-wrong", f"accessory decoded ack as {ack}", replay)
            break
    if len(state["acks"]) != n:
        ctx.violation("ble-reassembly-write-count", f"{len(state['acks'])} writes for {n} pieces", replay)


def run_ble_reassembly_concurrent(ctx, k: int) -> None:
    """Two accessories are being paired at the same time (two BLE links, two tasks): each exchange reassembles the reply ITS
    accessory sent, whatever the other one is doing between its radio round trips."""
    from aiohomekit.controller.ble import client as ble_client
    from vf.sim_ble import FakeGattClient, FakeHandle, GattEndpointSim

    rng = ctx.grng("C15.ble-concurrent", k)
    n_tasks = rng.choice([2, 2, 3])
    jobs = []
    for j in range(n_tasks):
        plain = [(6, bytes([2 + 2 * j])), (3, bytes(rng.randrange(256) for _ in range(rng.choice([32, 384, 600])))), (2, bytes(rng.randrange(256) for _ in range(16)))]
        payload = ref.encode(plain)
        pieces = rng.choice([1, 2, 3, 5, 9])
        n = max(1, min(pieces, len(payload)))
        size = len(payload) // n
        chunks = [payload[i * size : (i + 1) * size] for i in range(n - 1)] + [payload[(n - 1) * size :]]
        state = {"i": 0}

        def responder(opcode, tid, iid, body, chunks=chunks, n=n, payload=payload, state=state):
            i = state["i"]
            state["i"] += 1
            inner = payload if n == 1 else ref.encode([(12 if i < n - 1 else 13, chunks[i])])
            return 0, ref.encode([(1, inner)]), None, None

        handle = FakeHandle("0000004C-0000-1000-8000-0026BB765291", 10)
        client = FakeGattClient(rng.choice([23, 64, 200]), address=f"AA:BB:CC:DD:EE:0{j}")
        client.cooperative = True
        client.endpoints[handle] = GattEndpointSim(responder)
        jobs.append((client, handle, plain, n))
    ctx.case("D-concurrent", k, sample={"part": "ble-reassembly, concurrent exchanges", "exchanges": [(len(ref.encode(p)), n) for _, _, p, n in jobs]}, kind="D-concurrent")
    replay = {"part": "D-concurrent", "k": k}

    async def go():
        return await asyncio.gather(*[ble_client._pairing_char_write(c, h, 11, [(6, b"\x01"), (0, b"\x00")]) for c, h, _, _ in jobs], return_exceptions=True)

    results = asyncio.run(go())
    for (c, h, plain, n), got in zip(jobs, results):
        if isinstance(got, BaseException):
            ctx.violation(f"ble-reassembly-raises-{type(got).__name__}", f"{len(jobs)} exchanges at the same time ({[x[3] for x in jobs]} pieces): {got!r}", replay)
            return
        if {int(t): bytes(v) for t, v in got.items()} != dict(plain):
            ctx.violation("ble-reassembly-mismatch", f"{len(jobs)} exchanges at the same time ({[x[3] for x in jobs]} pieces): one of them got {[(int(t), len(v)) for t, v in got.items()]}, its accessory sent {[(t, len(v)) for t, v in plain]}", replay)
            return
    ctx.count("ble_reassembly_concurrent_exchanges", len(jobs))


def gen_ble(ctx):
    rng = ctx.rng("D")
    m2_setup = [(6, b"\x02"), (3, _pattern(384, 1)), (2, _pattern(16, 2))]
    m4_mfi = [(6, b"\x04"), (4, _pattern(64, 3)), (5, _pattern(1100, 4))]
    m2_verify = [(6, b"\x02"), (3, _pattern(32, 5)), (5, _pattern(120, 6))]
    request = [(6, b"\x01"), (0, b"\x00")]
    idx = 0
    for resp in (m2_setup, m4_mfi, m2_verify):
        for pieces in range(1, 51):
            idx += 1
            if ctx.mine(idx):
                yield resp, pieces, (23 if idx % 3 else 200), request, False, None
                yield resp, pieces, (23 if idx % 3 else 200), request, True, None
                if pieces >= 3:
                    yield resp, pieces, (23 if idx % 3 else 200), request, False, 1 + idx % (pieces - 2)
    ctx.exhaustive_parts["D.pieces_1..50_x_3_messages"] = True
    for k in range(ctx.pick(60, 1500) // ctx.nshards):
        items = []
        used = set()
        for _ in range(rng.randint(1, 5)):
            t = rng.choice([x for x in (0, 1, 2, 3, 4, 5, 6, 7, 9, 10, 14) if x not in used])
            used.add(t)
            items.append((t, rng.randbytes(rng.choice([1, 16, 32, 64, 255, 256, 384, 700]))))
        yield items, rng.randint(1, 50), rng.choice([23, 64, 155, 244, 512]), request, rng.random() < 0.3, None


# ---------------------------------------------------------------------------------------------


def run(ctx) -> None:
    for items, mode, origin in gen_roundtrip(ctx):
        check_roundtrip(ctx, items, mode, origin)
    for data, fn, origin in gen_totality(ctx):
        check_totality(ctx, data, fn, origin)
    for items, expected, origin in gen_filter(ctx):
        check_filter(ctx, items, expected, origin)
    for resp, pieces, negotiated, request, empty_last, abort_after in gen_ble(ctx):
        run_ble_reassembly(ctx, resp, pieces, negotiated, request, empty_last, abort_after)
    for k in range(ctx.pick(40, 600)):
        if ctx.mine(k):
            run_ble_reassembly_concurrent(ctx, k)


def replay(ctx, d) -> None:
    part = d["part"]
    if part == "A":
        check_roundtrip(ctx, [tuple(x) for x in d["items"]], d["mode"], "replay")
    elif part == "B":
        check_totality(ctx, d["data"], d["fn"], "replay")
    elif part == "C":
        check_filter(ctx, [tuple(x) for x in d["items"]], d["expected"], "replay")
    elif part == "D-concurrent":
        run_ble_reassembly_concurrent(ctx, d["k"])
    elif part == "D":
        run_ble_reassembly(ctx, [tuple(x) for x in d["items"]], d["pieces"], d["negotiated"], [tuple(x) for x in d["request"]], d.get("empty_last", False), d.get("abort_after"))
