"""C08 Every request gets its own response or a prompt disconnection error.

Real code: HomeKitConnection.request / InsecureHomeKitProtocol._send_lines / data_received / connection_lost and the
IpPairing read path, on real asyncio transports (vf.simnet) in virtual time (vf.vloop).
Oracle: unique ids. Every request carries a fresh id in its target; the simulated accessory echoes (id, connection
index) in the response body, so a completed request identifies exactly which response it consumed.
"""

from __future__ import annotations

import asyncio
import itertools
import json

PROPERTY_ID = "C08"
LEVEL = "exploration"
RULE = (
    "cases = schedules over the alphabet {R issue request (new concurrent caller), A answer oldest outstanding request"
    " whole, P answer it in 3 pieces, H answer only headers+half body, E send EVENT, F EVENT+response in one write,"
    " G response+EVENT in one write, C cancel oldest live caller, T advance virtual time 31 s, X peer closes, U"
    " unsolicited response while idle, Z request sent into a connection the peer then resets (no EOF, connection_lost"
    " with an error), K cancel the oldest in-flight caller and deliver its response in the SAME loop iteration (cancel first)}: ALL sequences of the bounded depth that start with R, plus seeded random"
    " schedules of depth 8-30; through HomeKitConnection.get (default concurrency limit 1, and 'pipelined': a connection"
    " constructed with concurrency limit 3 so that several requests are in flight on one protocol) and"
    " IpPairing.get_characteristics. After each"
    " action the loop is run to quiescence; at the end virtual time advances 30 s x (requests+1). Distinct by (schedule,"
    " api); non-trivial = the schedule contains at least one fault/interleaving action besides R/A."
)
ASSUMPTIONS = [
    "an unsolicited response is injected only while no request is outstanding on that connection (with one outstanding it"
    " is indistinguishable from the answer by construction of HTTP/1.1)",
    "acceptable completions: own response (echoed id and connection match), an AccessoryDisconnectedError-family error,"
    " or CancelledError for a caller the schedule cancelled",
    "bounded progress: done within 30 s x (requests ahead + 1) + 11 s of virtual time, and at the final horizon",
]
SHARDS = {"quick": 16, "thorough": 16}
TIMEOUT = {"quick": 900, "thorough": 7200}
MIN_CASES = {"quick": 5000, "thorough": 100000}
REQUIRED_COUNTERS = ["requests_completed_with_own_response", "requests_failed_disconnected", "callers_cancelled", "events_delivered", "timeouts_fired", "stale_answers_dropped", "reconnects", "connections_abandoned", "peer_resets", "cancel_races_response"]

ALPHABET = "RAPHEFGCTXUZKWQV"


class Scenario:
    def __init__(self, ctx, schedule: str, api: str, seed_key):
        self.ctx = ctx
        self.schedule = schedule
        self.api = api
        self.rng = ctx.grng("C08", seed_key)
        self.next_id = 100
        self.reqs: dict[int, dict] = {}  # id -> {task, issued, done, result, exc, cancelled}
        self.received: list[dict] = []  # accessory side, in arrival order
        self.events_sent: list[int] = []
        self.events_got: list = []
        self.next_event = 5000
        self.problems: list[tuple[str, str]] = []

    # ---- accessory side ------------------------------------------------------------------------
    def responder(self, conn, req):
        t = req["target"]
        if not conn.secure:
            return False
        uid = None
        if t.startswith("/x/"):
            uid = int(t[3:])
        elif t.startswith("/characteristics?id=1."):
            uid = int(t.split("1.", 1)[1])
        if uid is None:
            return False
        self.received.append({"id": uid, "conn": conn, "answered": 0, "wire": None, "t": asyncio.get_running_loop().time()})
        return True

    def response_plain(self, conn, uid):
        if self.api == "pairing":
            body = json.dumps({"characteristics": [{"aid": 1, "iid": uid, "value": f"conn{conn.index}"}]}, separators=(",", ":")).encode()
        else:
            body = json.dumps({"id": uid, "conn": conn.index, "kind": "response"}, separators=(",", ":")).encode()
        mode = self.rng.choice(["cl", "cl", "chunked"])
        return conn.http(200, body, "application/hap+json", mode=mode)

    def event_plain(self, conn):
        v = self.next_event
        self.next_event += 1
        self.events_sent.append(v)
        return conn.event(json.dumps({"characteristics": [{"aid": 1, "iid": 9, "value": v}]}, separators=(",", ":")).encode())

    def oldest_unanswered(self):
        for r in self.received:
            if r["answered"] < 2:
                return r
        return None

    def newest_open_secure(self):
        for c in reversed(self.w.accessory.conns):
            if c.is_open and c.secure:
                return c
        return None

    async def act(self, a: str) -> None:
        from vf import vloop

        ctx = self.ctx
        must_abandon = []
        must_fail = []
        just_answered = None
        pending_before = False
        if a == "R":
            self.issue()
        elif a in "APHFG":
            r = self.oldest_unanswered()
            if r is None:
                if a in "FG":
                    a = "E"
                else:
                    return
            if r is not None:
                conn = r["conn"]
                if not conn.is_open:
                    r["answered"] = 2
                    ctx.count("stale_answers_dropped")
                    return
                if r["wire"] is None:
                    plain = self.response_plain(conn, r["id"])
                    first_len = len(plain)
                    if a == "F":
                        ev = self.event_plain(conn)
                        first_len = len(ev)
                        plain = ev + plain
                    elif a == "G":
                        plain = plain + self.event_plain(conn)
                    # the accessory's frame sizes; one choice ends a frame exactly between the CR and the LF of a header line
                    # or of the blank line (the decrypted pieces reach the HTTP layer separately)
                    crlf = [i + 1 for i in range(min(len(plain), 1000) - 1) if plain[i : i + 2] == b"\r\n"]
                    tail_cuts = [[n] for n in (first_len - 1, first_len - 2, len(plain) - 1, len(plain) - 2) if 0 < n <= 1024]
                    if a == "G" and conn.secure and self.rng.random() < 0.5:
                        # response and event in 64-byte frames, one frame per read with the loop running in between: some read
                        # completes the response AND carries the beginning of the event, whose rest arrives after the caller
                        # of the request has been resumed
                        r["wire"] = conn.wire(plain, [64])
                        r["frame_by_frame"] = True
                    else:
                        r["wire"] = conn.wire(plain, self.rng.choice([None, [64], [1024], [7, 300]] + ([[self.rng.choice(crlf)]] * 2 if crlf else []) + ([self.rng.choice(tail_cuts)] * 2 if tail_cuts else [])))
                    r["sent"] = 0
                wire = r["wire"]
                if a == "H" and r["answered"] == 0:
                    half = max(1, len(wire) * 2 // 3)
                    conn.transport.write(wire[:half])
                    r["sent"] = half
                    r["answered"] = 1
                elif a == "P":
                    rest = wire[r["sent"] :]
                    r["answered"] = 2
                    just_answered = r
                    pending_before = not self.reqs[r["id"]]["task"].done()
                    await conn.send_pieces(rest, sorted({len(rest) // 3, 2 * len(rest) // 3, max(1, len(rest) - self.rng.randint(1, 17))}))
                elif a == "G" and r["sent"] == 0 and r.get("frame_by_frame"):
                    r["answered"] = 2
                    just_answered = r
                    pending_before = not self.reqs[r["id"]]["task"].done()
                    ctx.count("responses_and_events_delivered_frame_by_frame")
                    await conn.send_pieces(wire, list(range(82, len(wire), 82)))
                else:
                    conn.transport.write(wire[r["sent"] :])
                    r["answered"] = 2
                    just_answered = r
                    pending_before = not self.reqs[r["id"]]["task"].done()
        if a == "E":
            conn = self.newest_open_secure()
            # messages are never byte-interleaved: no event while a response is half-written on this connection
            if conn is not None and not any(r["conn"] is conn and r["answered"] == 1 for r in self.received):
                conn.send(self.event_plain(conn))
        elif a == "K":
            # response for the oldest outstanding request is written; exactly when its bytes are about to be dispatched
            # (reader callback queued behind us in this iteration) the caller is cancelled
            r = self.oldest_unanswered()
            if r is not None and r["conn"].is_open and r["answered"] == 0 and not self.reqs[r["id"]]["task"].done():
                conn = r["conn"]
                r["wire"] = conn.wire(self.response_plain(conn, r["id"]))
                r["answered"] = 2
                conn.transport.write(r["wire"])
                await asyncio.sleep(0)
                rq = self.reqs[r["id"]]
                rq["cancelled"] = True
                rq["task"].cancel()
                must_abandon = [conn]
                ctx.count("cancel_races_response")
        elif a == "C":
            for uid, rq in self.reqs.items():
                if not rq["task"].done():
                    rq["cancelled"] = True
                    rq["task"].cancel()
                    must_abandon = [r["conn"] for r in self.received if r["id"] == uid and r["answered"] < 2 and r["conn"].is_open]
                    break
        elif a == "Q":
            # the YOUNGEST pending caller gives up - with one request at a time on the wire that is a caller still queued
            # behind the others, of whose request not a byte has been written
            for uid in sorted(self.reqs, reverse=True):
                rq = self.reqs[uid]
                if not rq["task"].done():
                    rq["cancelled"] = True
                    rq["task"].cancel()
                    must_abandon = [r["conn"] for r in self.received if r["id"] == uid and r["answered"] < 2 and r["conn"].is_open]
                    if not any(r["id"] == uid for r in self.received):
                        ctx.count("queued_callers_cancelled")
                    break
        elif a == "W":
            await asyncio.sleep(12)  # time passes, no timer of a fresh request expires: later requests are YOUNGER than earlier ones
        elif a == "T":
            must_abandon = [r["conn"] for r in self.received if r["answered"] < 2 and r["conn"].is_open and not self.reqs[r["id"]]["task"].done()]
            siblings = {}
            sent_at = {}
            for r in self.received:
                if r["answered"] < 2 and r["conn"].is_open and not self.reqs[r["id"]]["task"].done():
                    siblings.setdefault(r["conn"].index, []).append(r["id"])
                    sent_at[r["id"]] = r["t"]  # the 30 s run from when the request went out (a queued caller waits first)
            await asyncio.sleep(31)
            ctx.count("time_jumps")
            # several requests outstanding on ONE connection: when the oldest one's 30 s timer abandons the connection, the
            # younger ones fail with it - not each at its own timer
            for ci, uids in siblings.items():
                if len(uids) > 1:
                    t_first = min(sent_at[u] for u in uids) + 30
                    late = [(u, round(self.reqs[u]["done"] - t_first, 2)) for u in uids if self.reqs[u]["done"] is None or self.reqs[u]["done"] > t_first + 0.5]
                    if late:
                        self.ctx.violation("outstanding-request-not-failed-when-sibling-timed-out", f"schedule {self.schedule}: connection {ci} was abandoned when its oldest request timed out; requests {late} (id, seconds late) on the same connection failed only at their own timers", {"schedule": self.schedule, "api": self.api})
                    else:
                        ctx.count("siblings_failed_with_timed_out_request")
        elif a == "Z":
            conn = self.newest_open_secure()
            if conn is not None and not any(r["conn"] is conn and r["answered"] == 1 for r in self.received):
                conn.transport.pause_reading()
                before = set(self.reqs)
                idle = not any(not rq["task"].done() for rq in self.reqs.values())
                self.issue()
                await vloop.settle()
                conn.transport.abort()
                ctx.count("peer_resets")
                if idle:
                    # nothing was queued ahead, so the new request was written to this very connection
                    must_fail = [u for u in self.reqs if u not in before]
        elif a == "X":
            conn = self.newest_open_secure()
            if conn is not None:
                must_fail = [r["id"] for r in self.received if r["conn"] is conn and r["answered"] < 2 and not self.reqs[r["id"]]["task"].done()]
                conn.close()
        elif a == "V":
            # the peer hangs up; while the connector is busy re-establishing the session (anywhere between the TCP connect and
            # the answer to the last pair-verify step) another caller arrives
            conn = self.newest_open_secure()
            if conn is not None:
                must_fail = [r["id"] for r in self.received if r["conn"] is conn and r["answered"] < 2 and not self.reqs[r["id"]]["task"].done()]
                conn.close()
                if self.api == "pipelined":
                    # (a connection built with concurrency_limit > 1 - which nothing in the library does - lets a caller's
                    # request through in the middle of pair-verify; not a configuration any property speaks about: here
                    # the caller arrives when the session is back)
                    await vloop.settle()
                else:
                    for _ in range(self.rng.randint(1, 70)):
                        await asyncio.sleep(0)
                    ctx.count("requests_issued_while_reconnecting")
                self.issue()
        elif a == "U":
            conn = self.newest_open_secure()
            if conn is not None and not any(r["conn"] is conn and r["answered"] < 2 for r in self.received):
                body = json.dumps({"id": -1, "conn": conn.index, "kind": "unsolicited"}).encode()
                conn.send(conn.http(200, body, "application/hap+json"))
                ctx.count("unsolicited_sent")
        await vloop.settle()
        if just_answered is not None and pending_before and not just_answered["conn"].closed_by_accessory:
            # the accessory has written the COMPLETE response on a healthy connection and did nothing else: the caller gets it
            rq = self.reqs[just_answered["id"]]
            if not rq["task"].done():
                self.ctx.violation("answered-request-still-pending", f"after action {a} in schedule {self.schedule}: the response for request {just_answered['id']} was written completely, the request is still pending", {"schedule": self.schedule, "api": self.api})
            elif rq["exc"] is not None and not rq["cancelled"]:
                self.ctx.violation("answered-request-failed", f"after action {a} in schedule {self.schedule}: the response for request {just_answered['id']} was written completely on a healthy connection, the request failed with {rq['exc']!r}", {"schedule": self.schedule, "api": self.api})
            else:
                ctx.count("answered_requests_completed")
                if a == "G" and just_answered.get("frame_by_frame"):
                    # ... and the event written right behind that response, on the same healthy connection, reached the listeners
                    v = self.events_sent[-1]
                    seen = [ev[(1, 9)].get("value") for ev in self.events_got if ev and (1, 9) in ev]
                    if v not in seen:
                        self.ctx.violation("event-lost", f"after action G in schedule {self.schedule}: the event written right behind the response for request {just_answered['id']} (frame by frame, healthy connection) never reached the listeners", {"schedule": self.schedule, "api": self.api})
                    else:
                        ctx.count("events_behind_responses_delivered")
        # the connection dropped: every request outstanding on it fails at once (not after its own 30 s timer)
        for uid in must_fail:
            if not self.reqs[uid]["task"].done():
                self.ctx.violation(
                    "outstanding-request-not-failed-on-connection-loss",
                    f"after action {a} in schedule {self.schedule}: request {uid} is still pending at the quiescent point after the connection was lost",
                    {"schedule": self.schedule, "api": self.api},
                )
            else:
                ctx.count("failed_promptly_on_loss")
        # a request that timed out / was cancelled while in flight: its connection must have been abandoned
        for conn in must_abandon:
            if conn.is_open:
                self.ctx.violation(
                    "connection-not-abandoned-after-" + ("timeout" if a == "T" else "cancel"),
                    f"after action {a} in schedule {self.schedule}: accessory still sees connection {conn.index} open",
                    {"schedule": self.schedule, "api": self.api},
                )
            else:
                ctx.count("connections_abandoned")

    # ---- controller side ---------------------------------------------------------------------------
    def issue(self):
        uid = self.next_id
        self.next_id += 1
        loop = asyncio.get_running_loop()
        rec = {"issued": loop.time(), "done": None, "result": None, "exc": None, "cancelled": False, "ahead": sum(1 for r in self.reqs.values() if not r["task"].done())}

        async def caller():
            try:
                if self.api == "pairing":
                    rec["result"] = await self.w.pairing.get_characteristics([(1, uid)])
                else:
                    rec["result"] = await self.w.connection.get(f"/x/{uid}")
            except BaseException as ex:  # noqa: BLE001 - recorded, judged by the oracle
                rec["exc"] = ex
            finally:
                rec["done"] = loop.time()

        rec["task"] = asyncio.ensure_future(caller())
        self.reqs[uid] = rec

    async def run(self) -> None:
        from aiohomekit.exceptions import AccessoryDisconnectedError
        from vf import simnet, vloop

        ctx = self.ctx
        w = self.w = simnet.World(self.rng)
        w.accessory.script_for = lambda host, attempt: simnet.ConnScript(responder=self.responder)
        replay = {"schedule": self.schedule, "api": self.api}
        asyncio.get_running_loop().captured.clear()
        if self.api == "pipelined":
            # a connection constructed with concurrency_limit=3 (the constructor parameter; the pairing uses the default 1)
            w.connection._concurrency_limit = asyncio.Semaphore(3)
        try:
            await asyncio.wait_for(w.connection.ensure_connection(), 30)
            if self.api == "pairing":
                await w.pairing.list_accessories_and_characteristics()
            w.pairing.dispatcher_connect(lambda ev: self.events_got.append(ev))
            await vloop.settle()
            for a in self.schedule:
                await self.act(a)
            # horizon: nothing more is answered; everything must complete by itself
            await asyncio.sleep(30 * (len(self.reqs) + 1) + 15)
            await vloop.settle()
            loop = asyncio.get_running_loop()
            by_id = {r["id"]: r for r in self.received}
            for uid, rq in self.reqs.items():
                if rq["done"] is None:
                    ctx.violation("request-hangs", f"request {uid} still pending {loop.time() - rq['issued']:.0f} virtual seconds after it was issued", replay)
                    rq["task"].cancel()
                    continue
                dur = rq["done"] - rq["issued"]
                if dur > 30 * (rq["ahead"] + 1) + 11:
                    ctx.violation("request-not-prompt", f"request {uid} took {dur:.1f} virtual s with {rq['ahead']} requests ahead", replay)
                if rq["exc"] is not None:
                    if isinstance(rq["exc"], asyncio.CancelledError):
                        if not rq["cancelled"]:
                            ctx.violation("request-cancelled-spuriously", f"request {uid} raised CancelledError although its caller was not cancelled", replay)
                        else:
                            ctx.count("callers_cancelled")
                    elif isinstance(rq["exc"], AccessoryDisconnectedError):
                        ctx.count("requests_failed_disconnected")
                    else:
                        ctx.violation(f"request-fails-with-{type(rq['exc']).__name__}", f"request {uid}: {rq['exc']!r}", replay)
                    continue
                # completed with a response: must be its own
                got_id = got_conn = None
                try:
                    if self.api == "pairing":
                        res = rq["result"]
                        if list(res.keys()) == [(1, uid)]:
                            got_id = uid
                            got_conn = int(str(res[(1, uid)].get("value"))[4:])
                        else:
                            got_id = list(res.keys())
                    else:
                        doc = json.loads(bytes(rq["result"].body).decode())
                        if doc.get("kind") == "response":
                            got_id, got_conn = doc.get("id"), doc.get("conn")
                        else:
                            got_id = doc
                except Exception as ex:  # noqa: BLE001
                    got_id = f"unparseable: {ex!r}"
                rcv = by_id.get(uid)
                if got_id != uid:
                    ctx.violation("response-misattributed", f"request {uid} completed with the response for {got_id!r}", replay)
                elif rcv is None or rcv["conn"].index != got_conn:
                    ctx.violation("response-from-other-connection", f"request {uid} was received on connection {rcv['conn'].index if rcv else None} but consumed a response produced on {got_conn}", replay)
                else:
                    ctx.count("requests_completed_with_own_response")
            # events: only genuine EVENT payloads reach listeners, none twice, order kept
            vals = []
            for ev in self.events_got:
                if not ev:
                    continue
                if list(ev.keys()) != [(1, 9)] or "value" not in ev[(1, 9)]:
                    ctx.violation("non-event-reaches-listeners", f"listener got {ev!r}", replay)
                    continue
                vals.append(ev[(1, 9)]["value"])
            ctx.count("events_delivered", len(vals))
            if any(v not in self.events_sent for v in vals) or len(set(vals)) != len(vals) or vals != sorted(vals):
                ctx.violation("event-stream-corrupted", f"listener values {vals} vs sent {self.events_sent}", replay)
            # ground truth on the accessory side: nothing in these schedules damages what the controller sends, so every frame
            # that arrives must authenticate at the accessory's own counter (a request sealed but never sent, or sent out of
            # turn, shows up here - and costs the next caller its request)
            for c in w.accessory.conns:
                if c.decode_errors:
                    ctx.violation("request-stream-rejected-by-accessory", f"schedule {self.schedule}: connection {c.index}: the reference accessory could not accept a frame the controller sent: {c.decode_errors[0]}", replay)
                    break
            else:
                ctx.count("request_streams_accepted_by_accessory", len([c for c in w.accessory.conns if c.secure]))
            ctx.count("reconnects", max(0, len([c for c in w.accessory.conns if c.secure]) - 1))
            if "T" in self.schedule:
                ctx.count("timeouts_fired", sum(1 for rq in self.reqs.values() if rq["exc"] is not None and "Timeout while waiting" in str(rq["exc"])))
            for cap in asyncio.get_running_loop().captured:
                ctx.count("loop_exception_" + str(cap["exception_type"]))
                ctx.notes.setdefault("loop_exception_examples", {}).setdefault(str(cap["exception_type"]), f"{cap['message']}: {cap['exception']!r}")
        finally:
            for rq in self.reqs.values():
                rq["task"].cancel()
            await w.close()


def nontrivial(schedule: str) -> bool:
    return any(ch in schedule for ch in "PHEFGCTXUZKQV")


async def run_one(ctx, schedule: str, api: str, key) -> None:
    ctx.case(schedule, api, nontrivial=nontrivial(schedule), sample={"schedule": schedule, "api": api}, kind=("rand" if len(schedule) > 7 else "enum") + api)
    try:
        await Scenario(ctx, schedule, api, key).run()
    except Exception as ex:  # noqa: BLE001
        from vf.vloop import HangError

        if isinstance(ex, HangError):
            ctx.violation("system-hangs", f"schedule {schedule} [{api}]: {ex}", {"schedule": schedule, "api": api})
        else:
            raise


# ---------------------------------------------------------------------------------------------
# immediate retries, on the plain connection too (pair-setup and every reconnect's pair-verify phase run on it)
# ---------------------------------------------------------------------------------------------


async def retry_case(ctx, secure: bool, end: str, answer_retry: bool, idx: int) -> None:
    """A request ends by its caller's timeout / cancellation / the 30 s timer, or is cut off by the peer; its caller retries AT
    ONCE (same task, no await in between: before the loop has delivered connection_lost). The retry either fails with the
    library's disconnection error or completes with ITS OWN response - nothing else, and never with the first one's."""
    from aiohomekit.controller.ip.connection import HomeKitConnection
    from aiohomekit.exceptions import AccessoryDisconnectedError

    from vf import simnet, vloop

    replay = {"part": "retry", "secure": secure, "end": end, "answer_retry": answer_retry, "idx": idx}
    ctx.case("retry", secure, end, answer_retry, sample={"part": "immediate retry", "session": "secure" if secure else "plain", "first_request_ends_by": end, "retry_answered": answer_retry}, kind="retry")
    rng = ctx.grng("C08.retry", secure, end, answer_retry, idx)
    w = simnet.World(rng)
    got = []

    def responder(c, req):
        t = req["target"]
        if not t.startswith("/x/"):
            return False
        uid = int(t[3:])
        got.append((uid, c))
        body = json.dumps({"id": uid, "conn": c.index, "kind": "response"}, separators=(",", ":")).encode()
        if uid == 1:
            if end == "peer-close":
                c.close()
            elif end == "late-answer":
                # the answer to the first request arrives when its caller has already given up
                asyncio.get_running_loop().call_later(1.5, lambda: c.is_open and c.send(c.http(200, body, "application/hap+json")))
            return True
        if answer_retry:
            c.send(c.http(200, body, "application/hap+json"))
        return True

    w.accessory.script_for = lambda host, attempt: simnet.ConnScript(verify="ok", responder=responder)
    conn = w.connection if secure else HomeKitConnection(None, ["10.0.0.5"], 51826)
    out = {"first": None, "retry": None}
    try:
        await conn.ensure_connection()
        await vloop.settle()

        async def caller():
            try:
                if end in ("own-timeout", "late-answer"):
                    out["first"] = await asyncio.wait_for(conn.get("/x/1"), 1.0)
                else:
                    out["first"] = await conn.get("/x/1")
            except BaseException as ex:  # noqa: BLE001
                out["first"] = ex
                if isinstance(ex, asyncio.CancelledError):
                    asyncio.current_task().uncancel()
            try:
                out["retry"] = await conn.get("/x/2")
            except BaseException as ex:  # noqa: BLE001
                out["retry"] = ex

        task = asyncio.ensure_future(caller())
        if end == "cancel":
            await asyncio.sleep(0.5)
            task.cancel()
        await asyncio.sleep(75)
        await vloop.settle()
        if not task.done():
            ctx.violation("request-hangs", f"immediate retry after {end} on a {'secure' if secure else 'plain'} connection: the caller is still pending after 75 virtual seconds", replay)
            task.cancel()
            return
        r = out["retry"]
        label = f"{'secure' if secure else 'plain'} connection, first request ended by {end} ({type(out['first']).__name__}), retried at once"
        if isinstance(r, BaseException):
            if isinstance(r, AccessoryDisconnectedError):
                ctx.count("immediate_retries_refused_with_disconnection_error")
            else:
                ctx.violation(f"request-fails-with-{type(r).__name__}", f"{label}: the retry raised {r!r}", replay)
            return
        try:
            doc = json.loads(bytes(r.body).decode())
        except Exception:  # noqa: BLE001
            doc = None
        if not doc or doc.get("id") != 2:
            ctx.violation("response-misattributed", f"{label}: the retry completed with {bytes(r.body)[:80]!r}", replay)
            return
        ctx.count("immediate_retries_completed_with_own_response")
    finally:
        if not secure:
            try:
                await conn.close()
            except Exception:  # noqa: BLE001
                pass
        await w.close()


async def retry_part(ctx) -> None:
    idx = 0
    for secure in (False, True):
        for end in ("own-timeout", "cancel", "timer", "peer-close", "late-answer"):
            for answer_retry in (True, False):
                idx += 1
                if ctx.mine(idx):
                    await retry_case(ctx, secure, end, answer_retry, idx)


def run(ctx) -> None:
    from vf import vloop

    depth = ctx.pick(5, 6)

    async def main():
        idx = 0
        for tail in itertools.product(ALPHABET, repeat=depth - 1):
            idx += 1
            if not ctx.mine(idx):
                continue
            schedule = "R" + "".join(tail)
            await run_one(ctx, schedule, ("pairing", "connection", "pipelined", "connection", "pipelined")[idx % 5], idx)
        ctx.exhaustive_parts[f"all schedules of depth {depth} starting with R"] = True
        await retry_part(ctx)
        rng = ctx.rng("C08.random")
        for k in range(ctx.pick(4000, 300000) // ctx.nshards):
            n = rng.randint(6, 30)
            schedule = "R" + "".join(rng.choice("RRRAAPHEFGCTXUZKWQV") for _ in range(n))
            await run_one(ctx, schedule, rng.choice(["connection", "pipelined", "pipelined", "pairing"]), ("rand", ctx.shard, k))

    vloop.run(main())


def replay(ctx, d) -> None:
    from vf import vloop

    if d.get("part") == "retry":
        vloop.run(retry_case(ctx, d["secure"], d["end"], d["answer_retry"], d["idx"]))
        return
    vloop.run(run_one(ctx, d["schedule"], d["api"], "replay"))
