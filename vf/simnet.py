"""Simulated IP network + HAP IP accessory for the real aiohomekit IP stack.

* `Net` replaces aiohappyeyeballs.start_connection (looked up as a module attribute at call time by the repo) with
  a scripted fake that returns one end of a socket.socketpair(); the repo then runs loop.create_connection(sock=)
  itself, so the controller side is a genuine asyncio selector transport (close/EOF/fatal-error semantics real).
* `RecordingTransport` logs every write/writelines/write_eof/close/abort of controller-side transports.
* `HapIpAccessory` / `AccessoryConn` are the accessory end (asyncio.Protocol on the same loop), built on vf.ref:
  strict HTTP request parser, reference pair-verify, reference session framing. It is the ground truth for
  "open connection", "what was sent", "which subscriptions were registered on which connection".
"""

from __future__ import annotations

import asyncio
import json
import socket
from asyncio import selector_events

from vf.ref import http as refhttp
from vf.ref import pairverify as refpv
from vf.ref import session as refsession
from vf.ref import tlv8 as reftlv


# ---------------------------------------------------------------------------------------------
# transports / sockets
# ---------------------------------------------------------------------------------------------


class PeerSocket(socket.socket):
    """A socketpair end that reports a scripted peer address."""

    _peer = ("0.0.0.0", 0)

    def getpeername(self):
        return self._peer

    def getsockname(self):
        # the controller's OWN end has another address than the accessory (same family): mixing the two up must show
        host, port = self._peer[0], self._peer[1]
        return ("fd00::c0:ffee" if ":" in str(host) else "10.0.0.222", 40000 + (port % 1000), *self._peer[2:])


class RecordingTransport(selector_events._SelectorSocketTransport):
    def __init__(self, loop, sock, protocol, waiter=None, extra=None, server=None):
        self.vf_log: list[tuple] = []
        self.vf_loop = loop
        self.vf_net = getattr(loop, "vf_net", None)
        self.vf_controller_side = isinstance(sock, PeerSocket)
        super().__init__(loop, sock, protocol, waiter, extra, server)
        if self.vf_net is not None and self.vf_controller_side:
            self.vf_net.controller_transports.append(self)

    def _rec(self, *ev):
        self.vf_log.append((self.vf_loop.time(), *ev))

    def write(self, data):
        self._rec("write", bytes(data))
        return super().write(data)

    def writelines(self, list_of_data):
        items = [bytes(x) for x in list_of_data]
        self._rec("writelines", items)
        # the real 3.12 implementation sends all lines with one sendmsg and never calls self.write()
        return super().writelines(items)

    def write_eof(self):
        self._rec("write_eof")
        return super().write_eof()

    def close(self):
        self._rec("close")
        return super().close()

    def abort(self):
        self._rec("abort")
        return super().abort()


def _transport_factory(loop, sock, protocol, waiter, extra, server):
    return RecordingTransport(loop, sock, protocol, waiter, extra, server)


class Attempt:
    __slots__ = ("t_start", "t_end", "hosts", "outcome", "connected_host", "index")

    def __init__(self, index, t_start, hosts):
        self.index = index
        self.t_start = t_start
        self.t_end = None
        self.hosts = hosts
        self.outcome = None
        self.connected_host = None

    def as_dict(self):
        return {"i": self.index, "t0": round(self.t_start - 1000.0, 6), "t1": None if self.t_end is None else round(self.t_end - 1000.0, 6),
                "hosts": self.hosts, "outcome": self.outcome, "host": self.connected_host}


class Net:
    """Scripted network. behaviour(host, attempt_index) -> 'refuse' | 'blackhole' | 'accept'."""

    def __init__(self, behaviour, accept):
        self.behaviour = behaviour
        self.accept = accept  # accept(host, attempt) -> asyncio.Protocol for the accessory end
        self.attempts: list[Attempt] = []
        self.in_progress = 0
        self.max_in_progress = 0
        self.controller_transports: list[RecordingTransport] = []
        self._orig = None

    # -- install / remove ----------------------------------------------------------------------
    def install(self):
        import aiohappyeyeballs

        loop = asyncio.get_running_loop()
        loop.vf_net = self
        loop.transport_factory = _transport_factory
        self._mod = aiohappyeyeballs
        self._orig = aiohappyeyeballs.start_connection
        aiohappyeyeballs.start_connection = self.start_connection
        return self

    def remove(self):
        self._mod.start_connection = self._orig
        loop = asyncio.get_running_loop()
        loop.transport_factory = None

    # -- the fake ----------------------------------------------------------------------------------
    async def start_connection(self, addr_infos, *, local_addr_infos=None, happy_eyeballs_delay=None, interleave=None, loop=None, socket_factory=None):
        loop = asyncio.get_running_loop()
        hosts = [ai[4][0] for ai in addr_infos]
        # interleave by address family like aiohappyeyeballs does (first family first, alternating)
        if interleave:
            fams: dict[int, list] = {}
            for ai in addr_infos:
                fams.setdefault(ai[0], []).append(ai[4][0])
            order = []
            lists = list(fams.values())
            while any(lists):
                for lst in lists:
                    if lst:
                        order.append(lst.pop(0))
        else:
            order = list(hosts)
        att = Attempt(len(self.attempts), loop.time(), list(order))
        self.attempts.append(att)
        self.in_progress += 1
        self.max_in_progress = max(self.max_in_progress, self.in_progress)
        try:
            blackholed = False
            errors = []
            for host in order:
                what = self.behaviour(host, att.index)
                if what == "accept":
                    a, b = socket.socketpair()
                    ctl = PeerSocket(a.family, a.type, a.proto, fileno=a.detach())
                    ctl._peer = (host, addr_infos[0][4][1]) + ((0, 0) if ":" in host else ())
                    ctl.setblocking(False)
                    b.setblocking(False)
                    proto = self.accept(host, att.index)
                    try:
                        await loop.create_connection(lambda: proto, sock=b)
                    except BaseException:
                        # cancelled while the accessory end was being set up: the connection never existed
                        ctl.close()
                        if proto.transport is not None:
                            proto.transport.abort()
                        else:
                            b.close()
                        raise
                    att.outcome = "accept"
                    att.connected_host = host
                    return ctl
                if what == "blackhole":
                    blackholed = True
                    await asyncio.sleep(happy_eyeballs_delay or 0.25)
                    continue
                errors.append(ConnectionRefusedError(111, f"Connect call failed ({host!r})"))
            if blackholed:
                att.outcome = "blackhole"
                await loop.create_future()  # hangs until the caller's timeout cancels us
            att.outcome = "refused"
            if len(errors) == 1:
                raise errors[0]
            raise OSError(f"Multiple exceptions: {', '.join(str(e) for e in errors)}")
        except asyncio.CancelledError:
            if att.outcome in (None, "blackhole"):
                att.outcome = "timeout"
            raise
        finally:
            att.t_end = loop.time()
            self.in_progress -= 1


# ---------------------------------------------------------------------------------------------
# accessory
# ---------------------------------------------------------------------------------------------


def default_db():
    """Entity map of the simulated accessory (independent of the repo's fixtures)."""
    def info(aid):
        return {
            "iid": 1,
            "type": "0000003E-0000-1000-8000-0026BB765291",
            "characteristics": [
                {"iid": 2, "type": "00000014-0000-1000-8000-0026BB765291", "perms": ["pw"], "format": "bool"},
                {"iid": 3, "type": "00000023-0000-1000-8000-0026BB765291", "perms": ["pr"], "format": "string", "value": f"Sim {aid}"},
                {"iid": 4, "type": "00000020-0000-1000-8000-0026BB765291", "perms": ["pr"], "format": "string", "value": "vf"},
                {"iid": 5, "type": "00000021-0000-1000-8000-0026BB765291", "perms": ["pr"], "format": "string", "value": "model"},
                {"iid": 6, "type": "00000030-0000-1000-8000-0026BB765291", "perms": ["pr"], "format": "string", "value": "0001"},
                {"iid": 7, "type": "00000052-0000-1000-8000-0026BB765291", "perms": ["pr"], "format": "string", "value": "1.0"},
            ],
        }

    def bulb():
        return {
            "iid": 8,
            "type": "00000043-0000-1000-8000-0026BB765291",
            "characteristics": [
                {"iid": 9, "type": "00000025-0000-1000-8000-0026BB765291", "perms": ["pr", "pw", "ev"], "format": "bool", "value": False},
                {"iid": 10, "type": "00000008-0000-1000-8000-0026BB765291", "perms": ["pr", "pw", "ev"], "format": "int", "value": 0,
                 "minValue": 0, "maxValue": 100, "minStep": 1, "unit": "percentage"},
                {"iid": 11, "type": "0000FF11-0000-1000-8000-0026BB765291", "perms": ["pw"], "format": "uint8"},
                {"iid": 12, "type": "0000FF12-0000-1000-8000-0026BB765291", "perms": ["pr", "pw", "tw"], "format": "uint8", "value": 0},
                {"iid": 13, "type": "0000FF13-0000-1000-8000-0026BB765291", "perms": ["pr", "ev"], "format": "float", "value": 21.5},
            ],
        }

    return [{"aid": 1, "services": [info(1), bulb()]}, {"aid": 2, "services": [info(2), bulb()]}, {"aid": 3, "services": [info(3), bulb()]}]


class HapIpAccessory:
    """Ground-truth accessory. One instance per scenario; connections numbered in accept order."""

    def __init__(self, rng, pairing_id: str = "AA:BB:CC:00:11:22", ios_pairing_id: str = "decc6fa3-de3e-41c9-adba-ef7409821bfc"):
        self.rng = rng
        self.identity = refpv.AccessoryIdentity(pairing_id.encode(), rng.randbytes(32))
        from cryptography.hazmat.primitives.asymmetric import ed25519

        self.ios_ltsk_seed = rng.randbytes(32)
        ios_ltsk = ed25519.Ed25519PrivateKey.from_private_bytes(self.ios_ltsk_seed)
        self.ios_ltpk = refpv.raw_pub(ios_ltsk)
        self.ios_pairing_id = ios_pairing_id
        self.identity.controllers[ios_pairing_id.encode()] = self.ios_ltpk
        self.other_identity = refpv.AccessoryIdentity(b"99:88:77:66:55:44", rng.randbytes(32))
        self.other_identity.controllers[ios_pairing_id.encode()] = self.ios_ltpk
        self.conns: list[AccessoryConn] = []
        self.db = default_db()
        self.script_for = lambda host, attempt: ConnScript()
        self.event_seq = 0
        self.log: list[tuple] = []

    # pairing data as the controller stores it
    def pairing_data(self, hosts, port=51826) -> dict:
        return {
            "AccessoryPairingID": self.identity.pairing_id.decode(),
            "AccessoryLTPK": self.identity.ltpk.hex(),
            "iOSPairingId": self.ios_pairing_id,
            "iOSDeviceLTSK": self.ios_ltsk_seed.hex(),
            "iOSDeviceLTPK": self.ios_ltpk.hex(),
            "AccessoryIP": hosts[0],
            "AccessoryIPs": list(hosts),
            "AccessoryPort": port,
            "Connection": "IP",
        }

    def accept(self, host, attempt) -> "AccessoryConn":
        conn = AccessoryConn(self, self.script_for(host, attempt), len(self.conns), host, attempt)
        self.conns.append(conn)
        return conn

    @property
    def open_conns(self) -> list["AccessoryConn"]:
        return [c for c in self.conns if c.is_open]

    def find_char(self, aid, iid):
        for acc in self.db:
            if acc["aid"] == aid:
                for svc in acc["services"]:
                    for ch in svc["characteristics"]:
                        if ch["iid"] == iid:
                            return ch
        return None


class ConnScript:
    """Per-connection behaviour of the accessory."""

    def __init__(self, verify: str = "ok", responder=None, m2_segments: int = 1):
        self.verify = verify
        self.responder = responder  # async or sync callable(conn, req) -> handled?  (None = default handler)
        self.m2_segments = m2_segments


class AccessoryConn(asyncio.Protocol):
    def __init__(self, accessory: HapIpAccessory, script: ConnScript, index: int, host: str, attempt: int):
        self.accessory = accessory
        self.script = script
        self.index = index
        self.host = host
        self.attempt = attempt
        self.transport = None
        self.is_open = False
        self.opened_at = None
        self.closed_at = None
        self.closed_by_accessory = False  # ground truth: who ended this connection (False at closed_at = the controller did)
        self.eof = False
        self.secure = False
        self.parser = refhttp.RequestParser()
        self.decoder = None
        self.encoder = None
        self.exchange = None
        self.requests: list[dict] = []  # every request received (plain + secure), in order
        self.raw_in = b""
        self.subscriptions: set[tuple[int, int]] = set()
        self.asked: set[tuple[int, int]] = set()  # every id this connection was ASKED to send events for (existing or not)
        self.subscribe_log: list[tuple] = []
        self.frames_sent = 0
        self.decode_errors: list[str] = []
        self.tasks: list[asyncio.Task] = []
        self.sent_events: list = []

    # -- asyncio.Protocol ------------------------------------------------------------------------
    def connection_made(self, transport):
        self.transport = transport
        self.is_open = True
        self.opened_at = asyncio.get_running_loop().time()
        if self.script.verify == "reset_m1":
            # the accessory never reads and resets the connection while the controller's M1 is unread: the controller sees
            # ECONNRESET (connection_lost with an exception, no EOF first) in the middle of pair-verify
            transport.pause_reading()
            asyncio.get_running_loop().call_later(0.05, self.abort)

    def eof_received(self):
        self.eof = True
        return False  # close our side too

    def connection_lost(self, exc):
        self.is_open = False
        self.closed_at = asyncio.get_running_loop().time()
        for t in self.tasks:
            t.cancel()

    def data_received(self, data):
        self.raw_in += data
        if self.secure:
            try:
                frames = self.decoder.feed(data)
            except refsession.DecodeError as ex:
                self.decode_errors.append(str(ex))
                self.transport.close()
                return
            reqs = []
            for fr in frames:
                reqs += self.parser.feed(fr)
        else:
            reqs = self.parser.feed(data)
        for req in reqs:
            req["secure"] = self.secure
            req["t"] = asyncio.get_running_loop().time()
            req["n"] = len(self.requests)
            self.requests.append(req)
            self._dispatch(req)

    # -- sending -----------------------------------------------------------------------------------
    def http(self, code: int, body: bytes = b"", content_type: str | None = None, mode: str | None = None, extra=()) -> bytes:
        headers = list(extra)
        if mode is None:
            mode = "cl" if (body or code not in (204,)) else "none"
        if content_type and mode != "none":
            headers.append(("Content-Type", " " + content_type))
        if mode == "cl":
            headers.append(("Content-Length", " " + str(len(body))))
        elif mode == "chunked":
            headers.append(("Transfer-Encoding", " chunked"))
        # header names are case-insensitive (RFC 9110): some accessories write them in lower or upper case throughout
        case = getattr(self.accessory, "header_case", None)
        if case:
            headers = [(getattr(n, case)(), v) for n, v in headers]
        return refhttp.serialize_message("HTTP", code, headers, body, mode)

    def event(self, body: bytes, chunks=None) -> bytes:
        if chunks:
            # Transfer-Encoding: chunked (real accessories send events either way)
            return refhttp.serialize_message("EVENT", 200, [("Content-Type", " application/hap+json"), ("Transfer-Encoding", " chunked")], body, "chunked", chunks=chunks)
        return refhttp.serialize_message(
            "EVENT", 200, [("Content-Type", " application/hap+json"), ("Content-Length", " " + str(len(body)))], body, "cl"
        )

    def wire(self, plaintext: bytes, frame_sizes=None) -> bytes:
        """Bytes to put on the wire for a plaintext message in the current phase."""
        if not self.secure:
            return plaintext
        frames = self.encoder.frames(plaintext, frame_sizes)
        self.frames_sent += len(frames)
        return b"".join(frames)

    def send(self, plaintext: bytes, frame_sizes=None) -> None:
        if self.transport is None or self.transport.is_closing():
            return
        self.transport.write(self.wire(plaintext, frame_sizes))

    async def send_pieces(self, wire_bytes: bytes, cuts) -> None:
        """Write wire bytes in pieces, letting the controller consume each piece before the next."""
        bounds = [0, *[c for c in cuts if 0 < c < len(wire_bytes)], len(wire_bytes)]
        for a, b in zip(bounds, bounds[1:]):
            if self.transport is None or self.transport.is_closing():
                return
            if a != b:
                self.transport.write(wire_bytes[a:b])
            for _ in range(3):
                await asyncio.sleep(0)

    def close(self):
        if self.is_open:
            self.closed_by_accessory = True
        if self.transport is not None:
            self.transport.close()

    def abort(self):
        if self.is_open:
            self.closed_by_accessory = True
        if self.transport is not None:
            self.transport.abort()

    def spawn(self, coro):
        t = asyncio.ensure_future(coro)
        self.tasks.append(t)
        return t

    # -- request handling -----------------------------------------------------------------------------
    def _dispatch(self, req):
        if self.script.responder is not None:
            r = self.script.responder(self, req)
            if asyncio.iscoroutine(r):
                self.spawn(r)
                return
            if r:
                return
        self.default_handle(req)

    def default_handle(self, req):
        target = req["target"]
        path = target.split("?")[0]
        if path == "/pair-verify" and req["method"] == "POST":
            return self._pair_verify(req)
        if not self.secure:
            self.send(self.http(470, b"", None))
            return None
        if path == "/accessories":
            body = json.dumps({"accessories": self.accessory.db}, separators=(",", ":")).encode()
            return self.send(self.http(200, body, "application/hap+json"))
        if path == "/characteristics" and req["method"] == "GET":
            return self._get_chars(req)
        if path == "/characteristics" and req["method"] == "PUT":
            return self._put_chars(req)
        if path == "/pairings":
            return self.send(self.http(200, reftlv.encode([(6, b"\x02")]), "application/pairing+tlv8"))
        if path == "/resource":
            return self.send(self.http(200, b"\xff\xd8JPEG", "image/jpeg"))
        return self.send(self.http(404, b"", None))

    def _get_chars(self, req):
        ids = req["target"].split("id=", 1)[1].split("&")[0]
        out = []
        for part in ids.split(","):
            aid, iid = part.split(".")
            ch = self.accessory.find_char(int(aid), int(iid))
            if ch is None:
                out.append({"aid": int(aid), "iid": int(iid), "status": -70409})
            else:
                out.append({"aid": int(aid), "iid": int(iid), "value": ch.get("value")})
        code = 207 if any("status" in o for o in out) else 200
        if code == 207:
            for o in out:
                o.setdefault("status", 0)
        body = json.dumps({"characteristics": out}, separators=(",", ":")).encode()
        self.send(self.http(code, body, "application/hap+json"))

    def _put_chars(self, req):
        doc = json.loads(req["body"].decode())
        statuses = []
        for item in doc.get("characteristics", []):
            key = (item["aid"], item["iid"])
            known = self.accessory.find_char(*key) is not None
            statuses.append({"aid": key[0], "iid": key[1], "status": 0 if known else -70409})
            if "ev" in item:
                (self.asked.add if item["ev"] else self.asked.discard)(key)
            if "ev" in item and not known:
                # asked for, but the accessory has no such characteristic: answered per item in a 207 multi-status reply
                self.subscribe_log.append((asyncio.get_running_loop().time(), key, item["ev"], req["n"]))
                continue
            if "ev" in item:
                self.subscribe_log.append((asyncio.get_running_loop().time(), key, item["ev"], req["n"]))
                if item["ev"]:
                    self.subscriptions.add(key)
                else:
                    self.subscriptions.discard(key)
            if "value" in item:
                ch = self.accessory.find_char(*key)
                if ch is not None:
                    ch["value"] = item["value"]
        if any(st["status"] for st in statuses) and any("ev" in it for it in doc.get("characteristics", [])):
            body = json.dumps({"characteristics": statuses}, separators=(",", ":")).encode()
            return self.send(self.http(207, body, "application/hap+json"))
        self.send(self.http(204))

    # -- pair verify --------------------------------------------------------------------------------
    def _tlv_reply(self, items, code=200):
        return self.http(code, reftlv.encode(items), "application/pairing+tlv8")

    def _tlv_error_reply(self, items, code=200):
        """An error reply; its header names may be spelt differently from the accessory's ordinary replies (a separate routine
        in the firmware): script.error_header_case in (None, "lower", "upper")."""
        acc = self.accessory
        old = getattr(acc, "header_case", None)
        acc.header_case = getattr(self.script, "error_header_case", old)
        try:
            return self._tlv_reply(items, code)
        finally:
            acc.header_case = old

    def _pair_verify(self, req):
        mode = self.script.verify
        try:
            items = reftlv.decode(req["body"])
        except reftlv.RefTlvError:
            self.send(self._tlv_reply([(6, b"\x02"), (7, b"\x01")], 400))
            return
        d = dict(items)
        state = d.get(6)
        acc = self.accessory
        if state == b"\x01":
            if mode == "close_m2":
                return self.close()
            if mode == "hang":
                return None
            if mode == "garbage":
                return self.send(b"this is not http\r\n\r\n")
            if mode.startswith("http_"):
                code = int(mode.split("_")[1])
                return self.send(self._tlv_reply([(6, b"\x02"), (7, b"\x02")], code))
            if mode.startswith("m2_errc:"):
                # error reply and hang-up back to back (reply and FIN reach the controller together)
                self.send(self._tlv_error_reply([(6, b"\x02"), (7, bytes([int(mode.split(":")[1])]))]))
                return self.close()
            if mode.startswith("m2_err:"):
                # m2_err:<error code>[:<http status>] - the TLV error reply may travel with an HTTP 4xx status
                parts = mode.split(":")
                return self.send(self._tlv_error_reply([(6, b"\x02"), (7, bytes([int(parts[1])]))], int(parts[2]) if len(parts) > 2 else 200))
            identity = acc.identity
            if mode == "wrong_id":
                identity = acc.other_identity
            self.exchange = refpv.VerifyExchange(identity, acc.rng.randbytes(32))
            reply = self.exchange.m1(items)
            if mode == "bad_sig":
                # right identifier, signature by a key that is not the stored LTPK
                ex = self.exchange
                forged = acc.other_identity.ltsk.sign(ex.acc_pk + identity.pairing_id + ex.ios_pk)
                sub = reftlv.encode([(1, identity.pairing_id), (10, forged)])
                reply = [(6, b"\x02"), (3, ex.acc_pk), (5, refpv.seal(ex.session_key, b"PV-Msg02", sub))]
            elif mode == "bad_tag":
                reply = [(t, (v[:-1] + bytes([v[-1] ^ 1])) if t == 5 else v) for t, v in reply]
            elif mode == "missing_field":
                reply = [(t, v) for t, v in reply if t != 5]
            elif mode == "wrong_state":
                reply = [(t, b"\x03" if t == 6 else v) for t, v in reply]
            elif mode == "bad_key_len":
                reply = [(t, v[:31] if t == 3 else v) for t, v in reply]
            wire = self._tlv_reply(reply)
            if self.script.m2_segments > 1:
                n = self.script.m2_segments
                cuts = [len(wire) * k // n for k in range(1, n)]
                self.spawn(self.send_pieces(wire, cuts))
            else:
                self.send(wire)
            return None
        if state == b"\x03":
            if mode == "close_m4":
                return self.close()
            if mode == "hang_m4":
                return None
            if mode.startswith("m4_errc:"):
                self.send(self._tlv_error_reply([(6, b"\x04"), (7, bytes([int(mode.split(":")[1])]))]))
                return self.close()
            if mode.startswith("m4_err:"):
                parts = mode.split(":")
                return self.send(self._tlv_error_reply([(6, b"\x04"), (7, bytes([int(parts[1])]))], int(parts[2]) if len(parts) > 2 else 200))
            if self.exchange is None:
                return self.send(self._tlv_reply([(6, b"\x04"), (7, b"\x02")]))
            reply = self.exchange.m3(items)
            self.send(self._tlv_reply(reply))
            if mode == "ok_reset_after_m4" and self.exchange.verified:
                # the session is established; the accessory stops reading and resets the connection a moment later, while the
                # controller's first request of the session is unread (abortive close: ECONNRESET, no EOF first)
                self.secure = True
                self.transport.pause_reading()
                asyncio.get_running_loop().call_later(0.05, self.abort)
                return None
            if mode == "ok_close_after_m4" and self.exchange.verified:
                # the session is established (M4 sent) and the accessory hangs up at once
                return self.close()
            if self.exchange.verified:
                self.secure = True
                self.decoder = refsession.Decoder(self.exchange.controller_to_accessory_key)
                self.encoder = refsession.Encoder(self.exchange.accessory_to_controller_key)
                self.parser = refhttp.RequestParser()
            return None
        self.send(self._tlv_reply([(6, b"\x02"), (7, b"\x01")]))
        return None

    # -- events ------------------------------------------------------------------------------------------
    def event_body(self, changes) -> bytes:
        return json.dumps({"characteristics": [{"aid": a, "iid": i, "value": v} for (a, i, v) in changes]}, separators=(",", ":")).encode()


# ---------------------------------------------------------------------------------------------
# controller-side helpers
# ---------------------------------------------------------------------------------------------


class World:
    """One scenario world: accessory + network + real IpPairing. Use inside a VirtualLoop coroutine."""

    def __init__(self, rng, hosts=("10.0.0.5",), behaviour=None, port=51826, ios_pairing_id=None):
        from aiohomekit.characteristic_cache import CharacteristicCacheMemory
        from aiohomekit.controller.ip.controller import IpController
        from aiohomekit.controller.ip.pairing import IpPairing

        self.rng = rng
        self.hosts = list(hosts)
        self.accessory = HapIpAccessory(rng) if ios_pairing_id is None else HapIpAccessory(rng, ios_pairing_id=ios_pairing_id)
        self.behaviour = behaviour or (lambda host, attempt: "accept")
        self.net = Net(lambda h, a: self.behaviour(h, a), self.accessory.accept).install()
        self.controller = IpController(char_cache=CharacteristicCacheMemory(), zeroconf_instance=None)
        self.pairing = IpPairing(self.controller, self.accessory.pairing_data(self.hosts, port))
        self.controller.pairings[self.pairing.id] = self.pairing
        self.connection = self.pairing.connection

    def description(self, addresses, port=51826, config_num=1, state_num=1):
        from aiohomekit.model import Categories
        from aiohomekit.model.feature_flags import FeatureFlags
        from aiohomekit.model.status_flags import StatusFlags
        from aiohomekit.zeroconf import HomeKitService

        return HomeKitService(
            name="Sim",
            id=self.pairing.id,
            model="sim",
            feature_flags=FeatureFlags(0),
            status_flags=StatusFlags(0),
            config_num=config_num,
            state_num=state_num,
            category=Categories(5),
            protocol_version="1.1",
            type="_hap._tcp.local.",
            address=addresses[0],
            addresses=list(addresses),
            port=port,
        )

    async def close(self):
        try:
            await self.pairing.shutdown()
        except Exception:
            pass
        for c in self.accessory.conns:
            c.close()
        for _ in range(5):
            await asyncio.sleep(0)
        self.net.remove()


async def scenario_corrupt_frame(ctx, rng, t) -> None:
    """C05 real-transport slice: a frame that fails authentication on a real transport."""
    from aiohomekit.exceptions import AccessoryDisconnectedError

    from vf import vloop

    w = World(rng)
    delivered = []
    try:
        await w.connection.ensure_connection()
        await vloop.settle()
        conn = w.accessory.conns[-1]
        n_frames = rng.choice([1, 2, 3])
        k = rng.randrange(n_frames)
        body = bytes(rng.randrange(32, 127) for _ in range(rng.choice([10, 700, 1500, 2500])))
        plaintext = conn.http(200, body, "application/hap+json")
        sizes = [max(1, len(plaintext) // n_frames + 1)]

        def responder(c, req):
            frames = c.encoder.frames(plaintext, sizes)
            kk = min(k, len(frames) - 1)
            fr = bytearray(frames[kk])
            pos = rng.randrange(len(fr))
            if pos < 2:
                pos = 2  # keep the length prefix: the block must complete
            fr[pos] ^= 1 << rng.randrange(8)
            frames[kk] = bytes(fr)
            c.transport.write(b"".join(frames))
            # a further genuine message that must never be delivered
            c.transport.write(b"".join(c.encoder.frames(c.event(b'{"characteristics":[{"aid":1,"iid":9,"value":true}]}'))))
            return True

        conn.script.responder = responder
        w.pairing.dispatcher_connect(lambda ev: delivered.append(ev))
        idle = t % 2 == 1
        ctx.case("real", t, sample={"part": "real-transport", "frames": n_frames, "corrupted_frame": k, "plaintext_len": len(plaintext), "request_in_flight": not idle}, kind="real-idle" if idle else "real")
        replay = {"part": "real", "t": t}
        if idle:
            # the unauthentic frame arrives while NO request is in flight (an unsolicited event): the session must end all the same
            ev_plain = conn.event(b'{"characteristics":[{"aid":1,"iid":9,"value":"' + body[:600].hex().encode() + b'"}]}')
            frames = conn.encoder.frames(ev_plain, sizes)
            kk = min(k, len(frames) - 1)
            fr = bytearray(frames[kk])
            fr[max(2, rng.randrange(len(fr)))] ^= 1 << rng.randrange(8)
            frames[kk] = bytes(fr)
            conn.transport.write(b"".join(frames))
            conn.transport.write(b"".join(conn.encoder.frames(conn.event(b'{"characteristics":[{"aid":1,"iid":9,"value":true}]}'))))
            await vloop.settle()
            await asyncio.sleep(0.2)
            await vloop.settle()
            if conn.is_open:
                ctx.violation("session-survives-corruption-while-idle", "an unauthentic frame arrived with no request in flight and the controller left the connection open", replay)
            else:
                ctx.count("real_transport_teardowns")
                ctx.count("real_transport_idle_teardowns")
            if [d for d in delivered if d]:
                ctx.violation("event-after-corruption-delivered", f"listener got {delivered}", replay)
            return
        try:
            resp = await asyncio.wait_for(w.connection.get("/accessories"), 40)
            ctx.violation("corrupted-response-delivered", f"request completed with code {resp.code} although frame {k} was corrupted", replay)
        except AccessoryDisconnectedError:
            pass
        except asyncio.TimeoutError:
            ctx.violation("request-hangs-after-corruption", "pending request did not fail within 40 virtual seconds", replay)
        except Exception as ex:  # noqa: BLE001
            ctx.violation(f"request-fails-with-{type(ex).__name__}", f"{ex!r}", replay)
        await vloop.settle()
        if conn.is_open:
            ctx.violation("session-survives-corruption", "accessory side still sees the connection open after an unauthentic frame", replay)
        else:
            ctx.count("real_transport_teardowns")
        if [d for d in delivered if d]:
            ctx.violation("event-after-corruption-delivered", f"listener got {delivered}", replay)
    finally:
        await w.close()


class BusyLoopAbort(BaseException):
    """Raised inside the connector by the monitor once an absurd number of attempts happened (cuts zero-time loops)."""


class ConnectOnceLog:
    """Records every activation of SecureHomeKitConnection._connect_once (enter/exit in virtual time, outcome).

    Installed on the class for the duration of a scenario (the harness wraps the real coroutine function; the
    body that runs is the repository's). Also counts concurrent activations (C10 single-connector invariant).
    """

    def __init__(self, world: "World"):
        self.world = world
        self.activations: list[dict] = []
        self.active = 0
        self.max_active = 0
        self.limit = 3500

    def install(self):
        from aiohomekit.controller.ip import connection as conn_mod

        self._cls = conn_mod.SecureHomeKitConnection
        self._orig = self._cls._connect_once
        log = self
        orig = self._orig

        async def _connect_once(conn_self):
            loop = asyncio.get_running_loop()
            if len(log.activations) > log.limit:
                raise BusyLoopAbort(f"{len(log.activations)} connection attempts")
            rec = {"i": len(log.activations), "t0": loop.time(), "t1": None, "exc": None, "ok": False,
                   "first_conn": len(log.world.accessory.conns), "net_attempt0": len(log.world.net.attempts)}
            log.activations.append(rec)
            log.active += 1
            log.max_active = max(log.max_active, log.active)
            try:
                r = await orig(conn_self)
                rec["ok"] = True
                return r
            except BaseException as ex:
                rec["exc"] = type(ex).__name__
                raise
            finally:
                log.active -= 1
                rec["t1"] = loop.time()
                rec["last_conn"] = len(log.world.accessory.conns)

        self._cls._connect_once = _connect_once
        return self

    def remove(self):
        self._cls._connect_once = self._orig

    def activation_of_conn(self, conn_index: int):
        for rec in self.activations:
            last = rec.get("last_conn", len(self.world.accessory.conns))
            if rec["first_conn"] <= conn_index < last:
                return rec
        return None
