"""Drive the real pair-setup / pair-verify generators against the reference accessories (C01, C03, C04).

Feed modes model how the transports hand replies to the generators:
  "ip"  : TLV.decode_bytes(raw, expected=<the step's expectation list>)   (IP and CoAP)
  "ble" : dict(TLV.decode_bytes(raw))                                      (BLE passes the decoded dict)
"""

from __future__ import annotations

from vf.ref import tlv8 as reftlv


def feed_value(raw: bytes, expected, mode: str):
    from aiohomekit.protocol.tlv import TLV

    if mode == "ip":
        return TLV.decode_bytes(raw, expected=expected)
    return dict(TLV.decode_bytes(raw))


def plain(items):
    return [(int(t), bytes(v)) for t, v in items]


class Outcome:
    """Result of driving a generator: .value (StopIteration value) or .exc, plus the requests it yielded."""

    def __init__(self):
        self.value = None
        self.returned = False
        self.exc = None
        self.requests: list = []
        self.stage = None

    @property
    def failed(self) -> bool:
        return self.exc is not None

    def summary(self) -> str:
        if self.returned:
            return f"returned at {self.stage}"
        return f"raised {type(self.exc).__name__} at {self.stage}"


def step(gen, outcome: Outcome, send_value, stage: str):
    """Advance a generator; returns the yielded (request, expected) or None if it finished/raised."""
    outcome.stage = stage
    try:
        req, expected = gen.send(send_value)
    except StopIteration as stop:
        outcome.returned = True
        outcome.value = stop.value
        return None
    except Exception as ex:  # noqa: BLE001
        outcome.exc = ex
        return None
    outcome.requests.append((stage, plain(req), list(expected)))
    return plain(req), list(expected)


def run_pair_setup(acc, pin: str, ios_id: str, mode: str, with_auth: bool = False, mutate=None) -> Outcome:
    """mutate(stage, reply_items, acc) -> reply_items | raw bytes, for stage in {"M2","M4","M6"}."""
    from aiohomekit.protocol import perform_pair_setup_part1, perform_pair_setup_part2

    out = Outcome()

    def reply_raw(stage, items):
        if mutate is not None:
            items = mutate(stage, items, acc)
        if isinstance(items, (bytes, bytearray)):
            return bytes(items)
        return reftlv.encode(items)

    g1 = perform_pair_setup_part1(with_auth)
    y = step(g1, out, None, "M1")
    if y is None:
        return out
    req, expected = y
    raw = reply_raw("M2", acc.m1(req))
    try:
        v = feed_value(raw, expected, mode)
    except Exception as ex:  # noqa: BLE001 - decode error also means "fails with an error"
        out.exc = ex
        out.stage = "M2-decode"
        return out
    y = step(g1, out, v, "M2")
    if y is not None:
        out.exc = AssertionError("part1 yielded a second request")
        return out
    if out.exc is not None or not out.returned:
        return out
    out.part1_value = out.value
    salt, server_pk = out.value
    out.returned = False
    out.value = None
    g2 = perform_pair_setup_part2(pin, ios_id, salt, server_pk)
    y = step(g2, out, None, "M3")
    if y is None:
        return out
    req, expected = y
    raw = reply_raw("M4", acc.m3(req))
    try:
        v = feed_value(raw, expected, mode)
    except Exception as ex:  # noqa: BLE001
        out.exc = ex
        out.stage = "M4-decode"
        return out
    y = step(g2, out, v, "M4")
    if y is None:
        return out
    req, expected = y
    raw = reply_raw("M6", acc.m5(req))
    try:
        v = feed_value(raw, expected, mode)
    except Exception as ex:  # noqa: BLE001
        out.exc = ex
        out.stage = "M6-decode"
        return out
    y = step(g2, out, v, "M6")
    if y is not None:
        out.exc = AssertionError("part2 yielded a further request after M6")
    return out


def run_pair_verify(exchange, pairing_data: dict, mode: str, mutate=None, session_id=None, derive=None) -> Outcome:
    """mutate(stage, reply_items, exchange) -> items | raw bytes, for stage in {"M2","M4"}."""
    from aiohomekit.protocol import get_session_keys

    out = Outcome()

    def reply_raw(stage, items):
        if mutate is not None:
            items = mutate(stage, items, exchange)
        if isinstance(items, (bytes, bytearray)):
            return bytes(items)
        return reftlv.encode(items)

    gen = get_session_keys(pairing_data, session_id, derive)
    y = step(gen, out, None, "M1")
    if y is None:
        return out
    req, expected = y
    raw = reply_raw("M2", exchange.m1(req))
    try:
        v = feed_value(raw, expected, mode)
    except Exception as ex:  # noqa: BLE001
        out.exc = ex
        out.stage = "M2-decode"
        return out
    y = step(gen, out, v, "M2")
    if y is None:
        return out
    req, expected = y
    raw = reply_raw("M4", exchange.m3(req))
    try:
        v = feed_value(raw, expected, mode)
    except Exception as ex:  # noqa: BLE001
        out.exc = ex
        out.stage = "M4-decode"
        return out
    y = step(gen, out, v, "M4")
    if y is not None:
        out.exc = AssertionError("get_session_keys yielded a further request after M4")
    return out
