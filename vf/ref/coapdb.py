"""Schema of the HAP-over-Thread accessory database (opcode 0x09 response), as plain vf.ref.structcodec schemas.
MUST NOT import aiohomekit. (My reading of the wire format: nested TLV containers 0x18 > 0x19 > 0x16 > 0x15 > 0x14 > 0x13.)
"""

from __future__ import annotations

import struct

CHAR_SCHEMA = [
    ("type", 4, ("int", 16, "little")),
    ("instance_id", 5, ("int", 2, "little")),
    ("properties", 10, ("int", 2, "little")),
    ("presentation_format", 12, ("bytes",)),
    ("valid_range", 13, ("bytes",)),
    ("step_value", 14, ("bytes",)),
    ("valid_values", 17, ("bytes",)),
    ("valid_values_range", 18, ("bytes",)),
    ("user_descriptor", 11, ("bytes",)),
]
SVC_SCHEMA = [
    ("type", 6, ("int", 16, "little")),
    ("instance_id", 7, ("int", 2, "little")),
    ("_characteristics", 20, ("seq_struct", [("characteristic", 19, ("struct", CHAR_SCHEMA))])),
    ("properties", 15, ("int", 2, "little")),
    ("linked_services", 16, ("seq_int", 2)),
]
ACC_SCHEMA = [("instance_id", 26, ("int", 2, "little")), ("_services", 22, ("seq_struct", [("service", 21, ("struct", SVC_SCHEMA))]))]
DB_SCHEMA = [("_accessories", 24, ("seq_struct", [("accessory", 25, ("struct", ACC_SCHEMA))]))]

FMT = {"bool": 0x01, "uint8": 0x04, "uint16": 0x06, "uint32": 0x08, "uint64": 0x0A, "int": 0x10, "float": 0x14, "string": 0x19, "data": 0x1B}
PACK = {"bool": "<B", "uint8": "<B", "uint16": "<H", "uint32": "<L", "uint64": "<Q", "int": "<l", "float": "<f"}


def presentation_format(fmt: str, unit: int = 0x2700) -> bytes:
    return struct.pack("<BxHxxx", FMT[fmt], unit)


def pack_value(fmt: str, value) -> bytes:
    if fmt in PACK:
        return struct.pack(PACK[fmt], int(value) if fmt != "float" else value)
    if fmt == "string":
        return value.encode()
    return bytes(value)
