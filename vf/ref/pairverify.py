"""Independent pair-verify / pair-resume reference accessory (HAP spec 5.7, HAP-BLE pair-resume).
MUST NOT import aiohomekit. Uses cryptography (OpenSSL) primitives and vf.ref.tlv8 only.
"""

from __future__ import annotations

from cryptography.exceptions import InvalidSignature, InvalidTag
from cryptography.hazmat.primitives import hashes, serialization
from cryptography.hazmat.primitives.asymmetric import ed25519, x25519
from cryptography.hazmat.primitives.ciphers.aead import ChaCha20Poly1305
from cryptography.hazmat.primitives.kdf.hkdf import HKDF

from . import tlv8

# TLV types
T_METHOD, T_IDENTIFIER, T_SALT, T_PUBLIC_KEY, T_PROOF, T_ENCRYPTED, T_STATE, T_ERROR = 0, 1, 2, 3, 4, 5, 6, 7
T_SIGNATURE, T_PERMISSIONS, T_SESSION_ID = 10, 11, 14
ERR_AUTH = 2
METHOD_RESUME = 6


def hkdf(ikm: bytes, salt: bytes, info: bytes, length: int = 32) -> bytes:
    return HKDF(algorithm=hashes.SHA512(), length=length, salt=salt, info=info).derive(ikm)


def pad_nonce(label: bytes) -> bytes:
    return b"\x00\x00\x00\x00" + label


def seal(key: bytes, label: bytes, plaintext: bytes) -> bytes:
    return ChaCha20Poly1305(key).encrypt(pad_nonce(label), plaintext, b"")


def unseal(key: bytes, label: bytes, data: bytes) -> bytes:
    return ChaCha20Poly1305(key).decrypt(pad_nonce(label), data, b"")


def raw_pub(k) -> bytes:
    return k.public_key().public_bytes(serialization.Encoding.Raw, serialization.PublicFormat.Raw)


class AccessoryIdentity:
    """Long-term identity of the reference accessory + its table of paired controllers."""

    def __init__(self, pairing_id: bytes, ltsk_seed: bytes):
        self.pairing_id = bytes(pairing_id)
        self.ltsk = ed25519.Ed25519PrivateKey.from_private_bytes(ltsk_seed)
        self.ltpk = raw_pub(self.ltsk)
        self.controllers: dict[bytes, bytes] = {}  # iOS pairing id -> LTPK
        self.sessions: dict[bytes, bytes] = {}  # resumable session id -> shared secret


class VerifyExchange:
    """One pair-verify exchange on the accessory side."""

    def __init__(self, identity: AccessoryIdentity, eph_seed: bytes, new_session_id: bytes | None = None):
        self.identity = identity
        self.eph = x25519.X25519PrivateKey.from_private_bytes(eph_seed)
        self.acc_pk = raw_pub(self.eph)
        self.new_session_id = new_session_id
        self.ios_pk = None
        self.shared = None
        self.session_key = None
        self.signature = None
        self.resumed = False
        self.verified = False
        self.m3_verdict = None
        self.controller_id = None

    # -- M1 -> M2 ------------------------------------------------------------------------------
    def m1(self, items) -> list[tuple[int, bytes]]:
        d = dict((t, bytes(v)) for t, v in items)
        if d.get(T_STATE) != b"\x01" or T_PUBLIC_KEY not in d or len(d[T_PUBLIC_KEY]) != 32:
            return [(T_STATE, b"\x02"), (T_ERROR, bytes([1]))]
        self.ios_pk = d[T_PUBLIC_KEY]
        if d.get(T_METHOD) == bytes([METHOD_RESUME]):
            reply = self._try_resume(d)
            if reply is not None:
                return reply
        return self.full_m2()

    def _try_resume(self, d):
        sid = d.get(T_SESSION_ID)
        tag = d.get(T_ENCRYPTED)
        if not sid or not tag or sid not in self.identity.sessions:
            return None
        old_shared = self.identity.sessions[sid]
        req_key = hkdf(old_shared, self.ios_pk + sid, b"Pair-Resume-Request-Info")
        try:
            if unseal(req_key, b"PR-Msg01", tag) != b"":
                return None
        except InvalidTag:
            return None
        # a session id is single use
        del self.identity.sessions[sid]
        new_sid = self.new_session_id or hkdf(old_shared, sid, b"ref-new-session-id", 8)
        resp_key = hkdf(old_shared, self.ios_pk + new_sid, b"Pair-Resume-Response-Info")
        self.shared = hkdf(old_shared, self.ios_pk + new_sid, b"Pair-Resume-Shared-Secret-Info")
        self.resumed = True
        self.verified = True
        self.session_id = new_sid
        self.identity.sessions[new_sid] = self.shared
        return [
            (T_STATE, b"\x02"),
            (T_METHOD, bytes([METHOD_RESUME])),
            (T_SESSION_ID, new_sid),
            (T_ENCRYPTED, seal(resp_key, b"PR-Msg02", b"")),
        ]

    def full_m2(self):
        self.shared = self.eph.exchange(x25519.X25519PublicKey.from_public_bytes(self.ios_pk))
        self.session_key = hkdf(self.shared, b"Pair-Verify-Encrypt-Salt", b"Pair-Verify-Encrypt-Info")
        info = self.acc_pk + self.identity.pairing_id + self.ios_pk
        self.signature = self.identity.ltsk.sign(info)
        self.sub_tlv = tlv8.encode([(T_IDENTIFIER, self.identity.pairing_id), (T_SIGNATURE, self.signature)])
        self.encrypted = seal(self.session_key, b"PV-Msg02", self.sub_tlv)
        return [(T_STATE, b"\x02"), (T_PUBLIC_KEY, self.acc_pk), (T_ENCRYPTED, self.encrypted)]

    # -- M3 -> M4 ------------------------------------------------------------------------------
    def m3(self, items) -> list[tuple[int, bytes]]:
        d = dict((t, bytes(v)) for t, v in items)
        self.m3_verdict = self._verify_m3(d)
        if self.m3_verdict != "ok":
            return [(T_STATE, b"\x04"), (T_ERROR, bytes([ERR_AUTH]))]
        self.verified = True
        self.session_id = hkdf(self.shared, b"Pair-Verify-ResumeSessionID-Salt", b"Pair-Verify-ResumeSessionID-Info", 8)
        self.identity.sessions[self.session_id] = self.shared
        return [(T_STATE, b"\x04")]

    def _verify_m3(self, d) -> str:
        if d.get(T_STATE) != b"\x03":
            return "wrong state"
        if T_ENCRYPTED not in d or self.session_key is None:
            return "no encrypted data"
        try:
            sub = unseal(self.session_key, b"PV-Msg03", d[T_ENCRYPTED])
        except InvalidTag:
            return "M3 does not decrypt"
        try:
            sd = dict(tlv8.decode(sub))
        except tlv8.RefTlvError:
            return "M3 sub-TLV malformed"
        ident, sig = sd.get(T_IDENTIFIER), sd.get(T_SIGNATURE)
        if ident is None or sig is None:
            return "M3 lacks identifier/signature"
        ltpk = self.identity.controllers.get(ident)
        if ltpk is None:
            return "unknown controller"
        try:
            ed25519.Ed25519PublicKey.from_public_bytes(ltpk).verify(sig, self.ios_pk + ident + self.acc_pk)
        except InvalidSignature:
            return "controller signature invalid"
        self.controller_id = ident
        return "ok"

    # -- keys ------------------------------------------------------------------------------------
    def key(self, salt: bytes, info: bytes, length: int = 32) -> bytes:
        return hkdf(self.shared, salt, info, length)

    @property
    def accessory_to_controller_key(self) -> bytes:
        return self.key(b"Control-Salt", b"Control-Read-Encryption-Key")

    @property
    def controller_to_accessory_key(self) -> bytes:
        return self.key(b"Control-Salt", b"Control-Write-Encryption-Key")

    @property
    def event_key(self) -> bytes:
        return self.key(b"Event-Salt", b"Event-Read-Encryption-Key")
