"""Independent reference for HAP-BLE advertisements (regular 0x06 and encrypted notification 0x11).
MUST NOT import aiohomekit. AEAD via OpenSSL (cryptography); the 16-byte tag is truncated to 4 bytes on the air.

encrypted notification, Apple manufacturer data (company id 76):
    0x11 | STL | advertising identifier (6) | ciphertext(12) | tag[:4]
    plaintext = GSN (LE16) | IID (LE16) | value (8 bytes, little-endian, zero padded)
    key = broadcast encryption key, nonce = 4x00 | LE64(GSN), AAD = advertising identifier
regular advertisement:
    0x06 | STL | SF | device id (6) | ACID (LE16) | GSN (LE16) | CN | CV | [setup hash (4)]
"""

from __future__ import annotations

import struct

from cryptography.hazmat.primitives.ciphers import Cipher, algorithms
from cryptography.hazmat.primitives.ciphers.aead import ChaCha20Poly1305

APPLE = 76


def nonce(gsn: int) -> bytes:
    return b"\x00\x00\x00\x00" + struct.pack("<Q", gsn)


def seal(key: bytes, adv_id: bytes, nonce_gsn: int, plaintext: bytes) -> bytes:
    full = ChaCha20Poly1305(key).encrypt(nonce(nonce_gsn), plaintext, adv_id)
    return full[: len(plaintext)] + full[len(plaintext) : len(plaintext) + 4]


def plaintext_for(inner_gsn: int, iid: int, value8: bytes) -> bytes:
    return struct.pack("<HH", inner_gsn & 0xFFFF, iid) + value8.ljust(8, b"\x00")[:8]


def open_truncated(key: bytes, adv_id: bytes, nonce_gsn: int, payload: bytes):
    """Return the plaintext if the 4-byte truncated tag verifies for this nonce, else None."""
    if len(payload) < 4:
        return None
    ct, tag4 = payload[:-4], payload[-4:]
    ks = Cipher(algorithms.ChaCha20(key, struct.pack("<I", 1) + nonce(nonce_gsn)), mode=None).decryptor()
    pt = ks.update(ct)
    full = ChaCha20Poly1305(key).encrypt(nonce(nonce_gsn), pt, adv_id)
    if full[len(pt) : len(pt) + 4] == tag4:
        return pt
    return None


def encrypted_notification(adv_id: bytes, payload: bytes, stl: int = 0x36) -> bytes:
    return bytes([0x11, stl]) + adv_id + payload


def regular_advertisement(device_id: bytes, gsn: int, cn: int = 1, sf: int = 0, acid: int = 5, cv: int = 2, setup_hash: bytes | None = b"\x01\x02\x03\x04", stl: int = 0x31) -> bytes:
    out = bytes([0x06, stl, sf]) + device_id + struct.pack("<HHBB", acid, gsn & 0xFFFF, cn & 0xFF, cv)
    if setup_hash is not None:
        out += setup_hash
    return out


def parse_regular(data: bytes):
    """Reference parse of a regular advertisement; None if malformed (too short / wrong type)."""
    if len(data) < 15 or data[0] != 0x06:
        return None
    acid, gsn, cn, cv = struct.unpack("<HHBB", data[9:15])
    return {
        "status_flags": data[2],
        "id": ":".join(f"{b:02x}" for b in data[3:9]),
        "category": acid,
        "state_num": gsn,
        "config_num": cn,
        "setup_hash": data[15:19] if len(data) >= 19 else b"",
    }
