"""Independent HAP-BLE PDU reference (HAP spec 7.3.3/7.3.4). MUST NOT import aiohomekit.

Request first fragment : control(0x00) opcode tid iid(LE16) [body_len(LE16) body...]
Request continuation   : control(0x80) tid body...
Response first fragment: control(0x02) tid status [body_len(LE16) body...]
Response continuation  : control(0x82) tid body...
"""

from __future__ import annotations

import struct


class RefPduError(Exception):
    pass


class RequestAssembler:
    """Accessory-side reassembly of one request written as GATT fragments."""

    def __init__(self):
        self.opcode = None
        self.tid = None
        self.iid = None
        self.body = b""
        self.expected = None
        self.fragments = 0

    @property
    def complete(self) -> bool:
        return self.opcode is not None and (self.expected is None or len(self.body) >= self.expected)

    def feed(self, frag: bytes) -> None:
        frag = bytes(frag)
        self.fragments += 1
        if self.opcode is None:
            if len(frag) < 5:
                raise RefPduError(f"first fragment too short: {len(frag)}")
            control, opcode, tid, iid = struct.unpack("<BBBH", frag[:5])
            if control & 0x80:
                raise RefPduError("continuation bit on first fragment")
            if control & 0x0E:
                raise RefPduError("first fragment is not a request")
            self.opcode, self.tid, self.iid = opcode, tid, iid
            if len(frag) == 5:
                self.expected = None
                return
            if len(frag) < 7:
                raise RefPduError("body length field truncated")
            self.expected = struct.unpack("<H", frag[5:7])[0]
            self.body = frag[7:]
        else:
            if self.expected is None:
                raise RefPduError("fragment after a body-less request")
            if len(frag) < 2:
                raise RefPduError("continuation too short")
            control, tid = frag[0], frag[1]
            if not control & 0x80:
                raise RefPduError("continuation bit missing")
            if tid != self.tid:
                raise RefPduError("tid mismatch in continuation")
            self.body += frag[2:]
        if self.expected is not None and len(self.body) > self.expected:
            raise RefPduError("more body than announced")


def encode_response(tid: int, status: int, body: bytes | None, cuts=None, first_control=0x02, cont_control=0x82):
    """Return the list of response fragments.

    cuts: sorted positions in the *body* at which the accessory starts a new fragment (0 = the first fragment carries the
    5-byte header only and the whole body travels in continuation fragments).
    body None -> header-only response (3 bytes).
    """
    if body is None:
        return [struct.pack("<BBB", first_control, tid, status)]
    body = bytes(body)
    cuts = sorted({c for c in (cuts or []) if 0 <= c < len(body)})
    bounds = [0, *cuts, len(body)]
    frags = []
    for k in range(len(bounds) - 1):
        piece = body[bounds[k] : bounds[k + 1]]
        if k == 0:
            frags.append(struct.pack("<BBBH", first_control, tid, status, len(body)) + piece)
        else:
            frags.append(struct.pack("<BB", cont_control, tid) + piece)
    return frags
