"""Independent pair-setup reference accessory (HAP spec 5.6). MUST NOT import aiohomekit."""

from __future__ import annotations

from cryptography.exceptions import InvalidSignature, InvalidTag
from cryptography.hazmat.primitives.asymmetric import ed25519

from . import srp, tlv8
from .pairverify import (
    T_ENCRYPTED,
    T_ERROR,
    T_IDENTIFIER,
    T_METHOD,
    T_PROOF,
    T_PUBLIC_KEY,
    T_SALT,
    T_SIGNATURE,
    T_STATE,
    hkdf,
    raw_pub,
    seal,
    unseal,
)

ERR_AUTH = 2


class SetupAccessory:
    """One pair-setup exchange on the accessory side."""

    def __init__(self, setup_code: str, pairing_id: bytes, ltsk_seed: bytes, salt: bytes, b: int):
        self.pairing_id = bytes(pairing_id)
        self.ltsk = ed25519.Ed25519PrivateKey.from_private_bytes(ltsk_seed)
        self.ltpk = raw_pub(self.ltsk)
        self.srv = srp.Server(srp.HOMEKIT, b"Pair-Setup", setup_code.encode(), salt, b)
        self.m3_ok = None
        self.m5_verdict = None
        self.stored_controller = None  # (id, ltpk) once M5 verified
        self.method = None

    # M1 -> M2
    def m1(self, items):
        d = dict((t, bytes(v)) for t, v in items)
        if d.get(T_STATE) != b"\x01" or d.get(T_METHOD) not in (b"\x00", b"\x01"):
            return [(T_STATE, b"\x02"), (T_ERROR, b"\x01")]
        self.method = d[T_METHOD]
        return [(T_STATE, b"\x02"), (T_PUBLIC_KEY, srp.HOMEKIT.pad(self.srv.B)), (T_SALT, self.srv.salt)]

    # M3 -> M4
    def m3(self, items):
        d = dict((t, bytes(v)) for t, v in items)
        self.m3_ok = False
        if d.get(T_STATE) != b"\x03" or T_PUBLIC_KEY not in d or T_PROOF not in d:
            return [(T_STATE, b"\x04"), (T_ERROR, b"\x01")]
        if len(d[T_PUBLIC_KEY]) != 384 or not self.srv.set_A(d[T_PUBLIC_KEY]):
            return [(T_STATE, b"\x04"), (T_ERROR, bytes([ERR_AUTH]))]
        if not self.srv.verify_M1(d[T_PROOF]):
            return [(T_STATE, b"\x04"), (T_ERROR, bytes([ERR_AUTH]))]
        self.m3_ok = True
        self.K = self.srv.K
        self.enc_key = hkdf(self.K, b"Pair-Setup-Encrypt-Salt", b"Pair-Setup-Encrypt-Info")
        return [(T_STATE, b"\x04"), (T_PROOF, self.srv.M2())]

    # M5 -> M6
    def m5(self, items):
        d = dict((t, bytes(v)) for t, v in items)
        self.m5_verdict = self._verify_m5(d)
        if self.m5_verdict != "ok":
            return [(T_STATE, b"\x06"), (T_ERROR, bytes([ERR_AUTH]))]
        return self.m6()

    def _verify_m5(self, d) -> str:
        if not self.m3_ok:
            return "M5 before a verified M3"
        if d.get(T_STATE) != b"\x05" or T_ENCRYPTED not in d:
            return "wrong state / no data"
        try:
            sub = unseal(self.enc_key, b"PS-Msg05", d[T_ENCRYPTED])
        except InvalidTag:
            return "M5 does not decrypt"
        try:
            sd = dict(tlv8.decode(sub))
        except tlv8.RefTlvError:
            return "M5 sub-TLV malformed"
        ident, ltpk, sig = sd.get(T_IDENTIFIER), sd.get(T_PUBLIC_KEY), sd.get(T_SIGNATURE)
        if ident is None or ltpk is None or sig is None:
            return "M5 lacks a field"
        if len(ltpk) != 32:
            return "LTPK length"
        ios_x = hkdf(self.K, b"Pair-Setup-Controller-Sign-Salt", b"Pair-Setup-Controller-Sign-Info")
        try:
            ed25519.Ed25519PublicKey.from_public_bytes(ltpk).verify(sig, ios_x + ident + ltpk)
        except InvalidSignature:
            return "controller signature invalid"
        self.stored_controller = (ident, ltpk)
        return "ok"

    def accessory_x(self) -> bytes:
        return hkdf(self.K, b"Pair-Setup-Accessory-Sign-Salt", b"Pair-Setup-Accessory-Sign-Info")

    def m6_subtlv(self, pairing_id=None, ltpk=None, signature=None):
        pairing_id = self.pairing_id if pairing_id is None else pairing_id
        ltpk = self.ltpk if ltpk is None else ltpk
        if signature is None:
            signature = self.ltsk.sign(self.accessory_x() + pairing_id + ltpk)
        return [(T_IDENTIFIER, pairing_id), (T_PUBLIC_KEY, ltpk), (T_SIGNATURE, signature)]

    def m6(self, sub_items=None, key=None, label=b"PS-Msg06"):
        sub = tlv8.encode(sub_items if sub_items is not None else self.m6_subtlv())
        return [(T_STATE, b"\x06"), (T_ENCRYPTED, seal(key or self.enc_key, label, sub))]
