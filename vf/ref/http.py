"""Independent HTTP helpers. MUST NOT import aiohomekit.

* canonical iOS-form request serializer (C09)
* strict request parser used by the simulated accessory
* response / EVENT serializer with explicit choices (C07, simulated accessory)
* JSON insignificant-whitespace scanner
"""

from __future__ import annotations

import json

REASONS = {
    200: "OK",
    204: "No Content",
    207: "Multi-Status",
    400: "Bad Request",
    404: "Not Found",
    422: "Unprocessable Entity",
    429: "Too Many Requests",
    470: "Connection Authorization Required",
    500: "Internal Server Error",
    503: "Service Unavailable",
}


def host_header_values(host: str) -> list[str]:
    """Acceptable Host header values for a connected peer address (IPv6 bracketed, no port)."""
    if ":" in host:
        vals = [f"[{host}]"]
        if "%" in host:
            vals.append(f"[{host.partition('%')[0]}]")
        return vals
    return [host]


def canonical_request(method: str, target: str, host_value: str, body: bytes | None, content_type: str | None) -> bytes:
    lines = [f"{method} {target} HTTP/1.1", f"Host: {host_value}"]
    if body is not None:
        lines.append(f"Content-Length: {len(body)}")
        lines.append(f"Content-Type: {content_type}")
    head = ("\r\n".join(lines) + "\r\n\r\n").encode("utf-8")
    return head + (body or b"")


class RequestParser:
    """Incremental, strict parser of controller requests (accessory side)."""

    def __init__(self):
        self.buf = b""

    def feed(self, data: bytes) -> list[dict]:
        self.buf += bytes(data)
        out = []
        while True:
            end = self.buf.find(b"\r\n\r\n")
            if end < 0:
                break
            head = self.buf[:end].decode("utf-8", "replace")
            lines = head.split("\r\n")
            parts = lines[0].split(" ")
            headers = []
            for ln in lines[1:]:
                name, _, value = ln.partition(":")
                headers.append((name, value.strip()))
            clen = 0
            for n, v in headers:
                if n.lower() == "content-length":
                    clen = int(v)
            total = end + 4 + clen
            if len(self.buf) < total:
                break
            body = self.buf[end + 4 : total]
            raw = self.buf[:total]
            self.buf = self.buf[total:]
            out.append(
                {
                    "method": parts[0] if parts else "",
                    "target": parts[1] if len(parts) > 1 else "",
                    "version": parts[2] if len(parts) > 2 else "",
                    "headers": headers,
                    "body": body,
                    "raw": raw,
                }
            )
        return out


def serialize_message(kind: str, code: int, headers, body: bytes, mode: str, chunks=None, hexcase="lower", reason=None) -> bytes:
    """kind: 'HTTP' or 'EVENT'; mode: 'cl' (Content-Length), 'chunked', 'none' (no body framing, body must be empty).

    headers: list of (name, value) written verbatim *before* the framing header.
    """
    version = "HTTP/1.1" if kind == "HTTP" else "EVENT/1.0"
    reason = reason if reason is not None else REASONS.get(code, "Status")
    out = f"{version} {code} {reason}\r\n".encode()
    for n, v in headers:
        out += f"{n}:{v}\r\n".encode()
    if mode == "cl":
        out += b"\r\n" + body
    elif mode == "chunked":
        out += b"\r\n"
        i = 0
        sizes = list(chunks or [len(body)])
        k = 0
        while i < len(body):
            size = max(1, sizes[k % len(sizes)])
            piece = body[i : i + size]
            hx = format(len(piece), "x")
            if hexcase == "upper":
                hx = hx.upper()
            out += hx.encode() + b"\r\n" + piece + b"\r\n"
            i += len(piece)
            k += 1
        out += b"0\r\n\r\n"
    else:
        assert not body
        out += b"\r\n"
    return out


def json_has_insignificant_whitespace(body: bytes) -> bool:
    """True if a SP/HT/CR/LF byte occurs outside a JSON string."""
    in_str = False
    esc = False
    for b in body:
        c = chr(b)
        if in_str:
            if esc:
                esc = False
            elif c == "\\":
                esc = True
            elif c == '"':
                in_str = False
        else:
            if c == '"':
                in_str = True
            elif c in " \t\r\n":
                return True
    return False


def loads(body: bytes):
    return json.loads(body.decode("utf-8"))
