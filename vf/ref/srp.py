"""Independent SRP-6a reference (RFC 5054 groups, HomeKit conventions). MUST NOT import aiohomekit.

Only Python integers and hashlib. Parameterised by (N, g, hash) so that it can be validated against the
RFC 5054 Appendix B vector (1024-bit, SHA-1) and then used with the 3072-bit group and SHA-512.

Conventions for the "conformant accessory" (see DESIGN 3.4):
  k  = H(N | PAD(g))
  x  = H(s | H(I ":" P))
  u  = H(PAD(A) | PAD(B))
  K  = H(PAD(S))
  M1 = H( H(N) xor H(g) | H(I) | s | PAD(A) | PAD(B) | K )         (g hashed as its minimal byte string)
  M2 = H( PAD(A) | M1 | K )
"""

from __future__ import annotations

import hashlib

N_3072 = int(
    "FFFFFFFFFFFFFFFFC90FDAA22168C234C4C6628B80DC1CD129024E088A67CC74020BBEA63B139B22514A08798E3404DD"
    "EF9519B3CD3A431B302B0A6DF25F14374FE1356D6D51C245E485B576625E7EC6F44C42E9A637ED6B0BFF5CB6F406B7ED"
    "EE386BFB5A899FA5AE9F24117C4B1FE649286651ECE45B3DC2007CB8A163BF0598DA48361C55D39A69163FA8FD24CF5F"
    "83655D23DCA3AD961C62F356208552BB9ED529077096966D670C354E4ABC9804F1746C08CA18217C32905E462E36CE3B"
    "E39E772C180E86039B2783A2EC07A28FB5C55DF06F4C52C9DE2BCBF6955817183995497CEA956AE515D2261898FA0510"
    "15728E5A8AAAC42DAD33170D04507A33A85521ABDF1CBA64ECFB850458DBEF0A8AEA71575D060C7DB3970F85A6E1E4C7"
    "ABF5AE8CDB0933D71E8C94E04A25619DCEE3D2261AD2EE6BF12FFA06D98A0864D87602733EC86A64521F2B18177B200C"
    "BBE117577A615D6C770988C0BAD946E208E24FA074E5AB3143DB5BFCE0FD108E4B82D120A93AD2CAFFFFFFFFFFFFFFFF",
    16,
)
G_3072 = 5


class Group:
    def __init__(self, n: int, g: int, hash_name: str):
        self.N = n
        self.g = g
        self.hash_name = hash_name
        self.nlen = (n.bit_length() + 7) // 8

    def H(self, *parts: bytes) -> bytes:
        h = hashlib.new(self.hash_name)
        for p in parts:
            h.update(p)
        return h.digest()

    def pad(self, x: int) -> bytes:
        return x.to_bytes(self.nlen, "big")

    @staticmethod
    def minimal(x: int) -> bytes:
        return x.to_bytes(max(1, (x.bit_length() + 7) // 8), "big")

    @property
    def k(self) -> int:
        return int.from_bytes(self.H(self.pad(self.N), self.pad(self.g)), "big")


HOMEKIT = Group(N_3072, G_3072, "sha512")


def compute_x(grp: Group, salt: bytes, user: bytes, password: bytes) -> int:
    return int.from_bytes(grp.H(salt, grp.H(user + b":" + password)), "big")


class Server:
    """Accessory side."""

    def __init__(self, grp: Group, user: bytes, password: bytes, salt: bytes, b: int):
        self.grp = grp
        self.user = user
        self.salt = salt
        self.b = b
        self.x = compute_x(grp, salt, user, password)
        self.v = pow(grp.g, self.x, grp.N)
        self.B = (grp.k * self.v + pow(grp.g, b, grp.N)) % grp.N
        self.A = None
        self.S = None
        self.K = None

    def set_A(self, A_bytes: bytes) -> bool:
        A = int.from_bytes(A_bytes, "big")
        if A % self.grp.N == 0:
            return False
        self.A = A
        grp = self.grp
        self.u = int.from_bytes(grp.H(grp.pad(A), grp.pad(self.B)), "big")
        self.S = pow(A * pow(self.v, self.u, grp.N), self.b, grp.N)
        self.K = grp.H(grp.pad(self.S))
        return True

    def expected_M1(self) -> bytes:
        grp = self.grp
        hn = grp.H(grp.pad(grp.N))
        hg = grp.H(grp.minimal(grp.g))
        hxor = bytes(a ^ b for a, b in zip(hn, hg))
        return grp.H(hxor, grp.H(self.user), self.salt, grp.pad(self.A), grp.pad(self.B), self.K)

    def verify_M1(self, m1: bytes) -> bool:
        return bytes(m1) == self.expected_M1()

    def M2(self) -> bytes:
        grp = self.grp
        return grp.H(grp.pad(self.A), self.expected_M1(), self.K)


class Client:
    """Reference client (only used for self-test and to cross-check intermediate values)."""

    def __init__(self, grp: Group, user: bytes, password: bytes, a: int):
        self.grp = grp
        self.user = user
        self.password = password
        self.a = a
        self.A = pow(grp.g, a, grp.N)

    def process(self, salt: bytes, B_bytes: bytes):
        grp = self.grp
        B = int.from_bytes(B_bytes, "big")
        x = compute_x(grp, salt, self.user, self.password)
        u = int.from_bytes(grp.H(grp.pad(self.A), grp.pad(B)), "big")
        S = pow((B - grp.k * pow(grp.g, x, grp.N)) % grp.N, self.a + u * x, grp.N)
        K = grp.H(grp.pad(S))
        return {"x": x, "u": u, "S": S, "K": K}


# ---------------------------------------------------------------------------------------------
# self test: RFC 5054 Appendix B
# ---------------------------------------------------------------------------------------------

_RFC_N = int(
    "EEAF0AB9ADB38DD69C33F80AFA8FC5E86072618775FF3C0B9EA2314C9C256576D674DF7496EA81D3383B4813D692C6E0"
    "E0D5D8E250B98BE48E495C1D6089DAD15DC7D7B46154D6B6CE8EF4AD69B15D4982559B297BCF1885C529F566660E57EC"
    "68EDBC3C05726CC02FD4CBF4976EAA9AFD5138FE8376435B9FC61D2FC0EB06E3",
    16,
)


def selftest() -> None:
    grp = Group(_RFC_N, 2, "sha1")
    salt = bytes.fromhex("BEB25379D1A8581EB5A727673A2441EE")
    a = int("60975527035CF2AD1989806F0407210BC81EDC04E2762A56AFD529DDDA2D4393", 16)
    b = int("E487CB59D31AC550471E81F00F6928E01DDA08E974A004F49E61F5D105284D20", 16)
    assert format(grp.k, "X").startswith("7556AA045AEF2CDD07ABAF0F665C3E818913186F"), "k"
    srv = Server(grp, b"alice", b"password123", salt, b)
    assert format(srv.x, "X") == "94B7555AABE9127CC58CCF4993DB6CF84D16C124", "x"
    assert format(srv.v, "X").startswith("7E273DE8696FFC4F4E337D05B4B375BEB0DDE1569E8FA00A9886D8129BADA1F1"), "v"
    cl = Client(grp, b"alice", b"password123", a)
    assert format(cl.A, "X").startswith("61D5E490F6F1B79547B0704C436F523DD0E560F0C64115BB72557EC44352E890"), "A"
    assert format(srv.B, "X").startswith("BD0C61512C692C0CB6D041FA01BB152D4916A1E77AF46AE105393011BAF38964"), "B"
    assert srv.set_A(grp.pad(cl.A))
    assert format(srv.u, "X") == "CE38B9593487DA98554ED47D70A7AE5F462EF019", "u"
    c = cl.process(salt, grp.pad(srv.B))
    assert c["S"] == srv.S, "client/server premaster secrets differ"
    assert format(srv.S, "X").startswith("B0DC82BABCF30674AE450C0287745E7990A3381F63B387AAF271A10D233861E3"), "S"
    # HomeKit group sanity: k must be SHA512(N | PAD(g))
    assert HOMEKIT.nlen == 384


if __name__ == "__main__":
    selftest()
    print("srp reference self-test ok")
