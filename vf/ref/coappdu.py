"""Independent HAP-over-CoAP (Thread) PDU reference. MUST NOT import aiohomekit.

request  item: control(0x00) opcode tid iid(LE16) body_len(LE16) body
response item: control(0x02) tid status body_len(LE16) body
A batch is the plain concatenation of items; the controller numbers the items of a batch tid = 0, 1, 2, ...
"""

from __future__ import annotations

import struct


class RefCoapPduError(Exception):
    pass


def decode_requests(data: bytes):
    out = []
    off = 0
    data = bytes(data)
    while off < len(data):
        if off + 7 > len(data):
            raise RefCoapPduError("truncated request header")
        control, opcode, tid, iid, ln = struct.unpack("<BBBHH", data[off : off + 7])
        if off + 7 + ln > len(data):
            raise RefCoapPduError("truncated request body")
        out.append({"control": control, "opcode": opcode, "tid": tid, "iid": iid, "body": data[off + 7 : off + 7 + ln]})
        off += 7 + ln
    return out


def encode_response(tid: int, status: int, body: bytes = b"", control: int = 0x02) -> bytes:
    return struct.pack("<BBBH", control, tid, status, len(body)) + bytes(body)


def encode_event_item(iid: int, body: bytes, control: int = 0x04) -> bytes:
    """Event notification item as the controller parses it: control, iid(LE16), body_len(LE16), body."""
    return struct.pack("<BHH", control, iid, len(body)) + bytes(body)
