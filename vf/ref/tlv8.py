"""Independent TLV8 reference codec (HAP spec, chapter "TLV"). MUST NOT import aiohomekit.

Canonical form:
  * an item is (type 0..255, value bytes);
  * a value of length 0 is encoded `T 00`;
  * a value longer than 255 bytes is split into maximal fragments: every fragment but the last carries
    exactly 255 bytes, the last carries the remainder (1..255 bytes);
  * the decoder joins a fragment to its predecessor iff both have the same type and the predecessor
    fragment carried exactly 255 bytes.
"""

from __future__ import annotations


class RefTlvError(Exception):
    pass


def encode(items) -> bytes:
    out = bytearray()
    for t, v in items:
        if not (0 <= t <= 255):
            raise ValueError("type out of range")
        v = bytes(v)
        if len(v) == 0:
            out += bytes([t, 0])
            continue
        for off in range(0, len(v), 255):
            frag = v[off : off + 255]
            out += bytes([t, len(frag)]) + frag
    return bytes(out)


def fragments(data: bytes):
    """Walk raw fragments: list of (type, payload). Raises RefTlvError if truncated."""
    data = bytes(data)
    out = []
    i = 0
    n = len(data)
    while i < n:
        if i + 2 > n:
            raise RefTlvError("truncated header")
        t = data[i]
        ln = data[i + 1]
        if i + 2 + ln > n:
            raise RefTlvError("truncated value")
        out.append((t, data[i + 2 : i + 2 + ln]))
        i += 2 + ln
    return out


def decode(data: bytes):
    """Strict canonical decode: join only after a full 255-byte fragment of the same type."""
    items = []
    prev_full = False
    for t, payload in fragments(data):
        if items and prev_full and items[-1][0] == t:
            items[-1] = (t, items[-1][1] + payload)
        else:
            items.append((t, payload))
        prev_full = len(payload) == 255
    return items


def decode_dict(data: bytes) -> dict:
    return dict(decode(data))
