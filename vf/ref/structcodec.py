"""Independent schema-driven structured-TLV8 codec. MUST NOT import aiohomekit.

A schema is a list of fields (name, tlv_type, kind) in declaration order where kind is one of
  ("int", width_bytes, "little"|"big"), ("str",), ("bytes",), ("enum",), ("struct", schema), ("seq_struct", schema),
  ("seq_int", width_bytes).
Canonical encoding: fields in declaration order, unset (None) fields omitted, each value split into maximal 255-byte
fragments carrying the field's type, list items separated by the zero-length separator item `00 00`, integers
little-endian of the declared width (big-endian for bu16), packed little-endian array for integer lists.
Values are plain Python data: dict field-name -> value (int / str / bytes / dict / list).
"""

from __future__ import annotations


def encode_value(kind, value) -> bytes:
    k = kind[0]
    if k == "int":
        return int(value).to_bytes(kind[1], kind[2])
    if k == "enum":
        return int(value).to_bytes(1, "little")
    if k == "str":
        return value.encode("utf-8")
    if k == "bytes":
        return bytes(value)
    if k == "struct":
        return encode_struct(kind[1], value)
    if k == "seq_struct":
        return b"\x00\x00".join(encode_struct(kind[1], item) for item in value)
    if k == "seq_int":
        return b"".join(int(v).to_bytes(kind[1], "little") for v in value)
    raise KeyError(k)


def encode_struct(schema, values: dict) -> bytes:
    out = bytearray()
    for name, tlv_type, kind in schema:
        v = values.get(name)
        if v is None:
            continue
        raw = encode_value(kind, v)
        for off in range(0, len(raw), 255):
            frag = raw[off : off + 255]
            out += bytes([tlv_type, len(frag)]) + frag
    return bytes(out)
