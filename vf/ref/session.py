"""Independent HAP IP session framing reference (HAP spec 6.5.2). MUST NOT import aiohomekit.

frame = LE16(len) | ChaCha20-Poly1305(key, nonce = 4x00 | LE64(counter), aad = LE16(len), plaintext[len<=1024]) incl. 16-byte tag
"""

from __future__ import annotations

import struct

from cryptography.exceptions import InvalidTag
from cryptography.hazmat.primitives.ciphers.aead import ChaCha20Poly1305

MAX_FRAME = 1024


def nonce(counter: int) -> bytes:
    return b"\x00\x00\x00\x00" + struct.pack("<Q", counter)


class Encoder:
    def __init__(self, key: bytes):
        self.aead = ChaCha20Poly1305(key)
        self.counter = 0

    def frame(self, plaintext: bytes, allow_empty: bool = False) -> bytes:
        assert (0 if allow_empty else 1) <= len(plaintext) <= MAX_FRAME
        aad = struct.pack("<H", len(plaintext))
        out = aad + self.aead.encrypt(nonce(self.counter), bytes(plaintext), aad)
        self.counter += 1
        return out

    def frames(self, plaintext: bytes, sizes=None) -> list[bytes]:
        """Split plaintext by the given frame sizes (cycled) - default maximal 1024-byte frames."""
        out = []
        i = 0
        k = 0
        while i < len(plaintext):
            size = MAX_FRAME if not sizes else sizes[k % len(sizes)]
            size = max(1, min(size, MAX_FRAME))
            out.append(self.frame(plaintext[i : i + size]))
            i += size
            k += 1
        return out


class DecodeError(Exception):
    pass


class Decoder:
    """Strict accessory-side decoder: returns list of plaintext frames; raises on any defect."""

    def __init__(self, key: bytes):
        self.aead = ChaCha20Poly1305(key)
        self.counter = 0
        self.buf = b""

    def feed(self, data: bytes) -> list[bytes]:
        self.buf += bytes(data)
        out = []
        while len(self.buf) >= 2:
            (ln,) = struct.unpack("<H", self.buf[:2])
            if ln > MAX_FRAME:
                raise DecodeError(f"frame announces {ln} > 1024 plaintext bytes")
            if ln == 0:
                raise DecodeError("zero-length frame")
            if len(self.buf) < 2 + ln + 16:
                break
            block = self.buf[2 : 2 + ln + 16]
            try:
                pt = self.aead.decrypt(nonce(self.counter), block, self.buf[:2])
            except InvalidTag:
                raise DecodeError(f"frame with counter {self.counter} does not authenticate")
            self.counter += 1
            self.buf = self.buf[2 + ln + 16 :]
            out.append(pt)
        return out
