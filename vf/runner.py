"""Shared runner: tiers, seeds, shard fan-out, merge, evidence, verdict lines.

A property module (vf/props/cNN.py) exposes

    PROPERTY_ID = "C05"
    LEVEL = "exploration" | "fault_enumeration"
    RULE = "..."                     # how cases are generated, what is non-trivial / distinct
    ASSUMPTIONS = [...]
    SHARDS = {"quick": 8, "thorough": 16}
    TIMEOUT = {"quick": 300, "thorough": 3600}     # wall-clock watchdog per shard (inconclusive if hit)
    MIN_CASES = {"quick": 100, "thorough": 100}    # floor below which the run is inconclusive
    REQUIRED_COUNTERS = ["..."]      # monitor counters that must be > 0, else inconclusive
    def run(ctx): ...                # explore this shard's share of the cases
    def replay(ctx, descriptor): ... # re-run exactly one case descriptor

Verdicts are three-valued: exit 0 held-on-observed / exit 1 VIOLATION / exit 2 INCONCLUSIVE.
"""

from __future__ import annotations

import faulthandler
import hashlib
import importlib
import json
import os
import random
import subprocess
import sys
import tempfile
import time
import traceback
from collections import Counter
from pathlib import Path

ROOT = Path(__file__).resolve().parent.parent
REPO = os.environ.get("VERIF_REPO", "/repo")
# evidence/ and replays/ live beside the checks; sensitivity runs against a deliberately broken tree (tools/seed_eval.py,
# tools/seed_recheck.py) redirect them so that they never overwrite evidence obtained from the real tree
OUT = Path(os.environ.get("VERIF_OUT") or ROOT)
EVIDENCE_DIR = OUT / "evidence"
REPLAY_DIR = OUT / "replays"
KNOWN_FINDINGS = ROOT / "KNOWN_FINDINGS.txt"
MAX_SAMPLES = 6
MAX_DIGESTS_PER_SHARD = 400_000
MAX_VIOLATIONS_PER_SHARD = 25


def digest8(*parts) -> bytes:
    h = hashlib.blake2b(digest_size=8)
    for p in parts:
        if isinstance(p, (bytes, bytearray, memoryview)):
            h.update(b"b")
            h.update(bytes(p))
        else:
            h.update(b"r")
            h.update(repr(p).encode())
        h.update(b"\x00")
    return h.digest()


def jsonable(obj, depth=0):
    """Render arbitrary case descriptors into JSON-compatible values."""
    if depth > 8:
        return repr(obj)
    if obj is None or isinstance(obj, (bool, int, str)):
        return obj
    if isinstance(obj, float):
        if obj != obj or obj in (float("inf"), float("-inf")):
            return repr(obj)
        return obj
    if isinstance(obj, (bytes, bytearray, memoryview)):
        b = bytes(obj)
        if len(b) > 96:
            return {"hex": b[:48].hex() + "..." + b[-16:].hex(), "len": len(b)}
        return {"hex": b.hex()}
    if isinstance(obj, dict):
        return {str(k): jsonable(v, depth + 1) for k, v in obj.items()}
    if isinstance(obj, (list, tuple, set, frozenset)):
        return [jsonable(v, depth + 1) for v in obj]
    return repr(obj)


class Ctx:
    """Per-shard collection context handed to a property's run()."""

    def __init__(self, prop_id: str, tier: str, seed: int, shard: int, nshards: int):
        self.prop_id = prop_id
        self.tier = tier
        self.seed = seed
        self.shard = shard
        self.nshards = nshards
        self.evaluations = 0
        self.nontrivial = 0
        self._digests: set[bytes] = set()
        self._digest_overflow = 0
        self.samples: list = []
        self._sample_kinds: set = set()
        self.counters: Counter = Counter()
        self.violations: list[dict] = []
        self.violation_overflow = 0
        self.inconclusive: list[str] = []
        self.notes: dict = {}
        self.exhaustive_parts: dict[str, bool] = {}
        self.replaying = False

    # -- partitioning -----------------------------------------------------------------------
    def mine(self, index: int) -> bool:
        return index % self.nshards == self.shard

    def rng(self, *salt) -> random.Random:
        """Deterministic RNG from (seed, shard, salt)."""
        h = hashlib.sha256(repr((self.seed, self.shard, salt)).encode()).digest()
        return random.Random(int.from_bytes(h[:8], "big"))

    def grng(self, *salt) -> random.Random:
        """Deterministic RNG from (seed, salt) only - identical in every shard."""
        h = hashlib.sha256(repr((self.seed, "global", salt)).encode()).digest()
        return random.Random(int.from_bytes(h[:8], "big"))

    @property
    def quick(self) -> bool:
        return self.tier == "quick"

    def pick(self, quick, thorough):
        return quick if self.tier == "quick" else thorough

    # -- recording --------------------------------------------------------------------------
    def case(self, *key, nontrivial: bool = True, sample=None, kind=None) -> None:
        """Record one evaluated case. key = what makes it distinct; sample = written-out case."""
        self.evaluations += 1
        if nontrivial:
            if len(self._digests) < MAX_DIGESTS_PER_SHARD:
                self._digests.add(digest8(*key))
            else:
                self._digest_overflow += 1
        if sample is not None:
            k = kind if kind is not None else "_"
            if k not in self._sample_kinds and len(self.samples) < MAX_SAMPLES:
                self._sample_kinds.add(k)
                self.samples.append(jsonable(sample))

    def count(self, name: str, n: int = 1) -> None:
        self.counters[name] += n

    def violation(self, key: str, message: str, replay) -> None:
        """key: mechanism signature (stable, no random values); replay: case descriptor."""
        self.counters["violations_raw"] += 1
        if len(self.violations) >= MAX_VIOLATIONS_PER_SHARD:
            # keep at most one per distinct key beyond the cap
            if any(v["key"] == key for v in self.violations):
                self.violation_overflow += 1
                return
        self.violations.append({"key": key, "message": message, "replay": jsonable_replay(replay)})

    def mark_inconclusive(self, reason: str) -> None:
        if reason not in self.inconclusive:
            self.inconclusive.append(reason)

    def dump(self) -> dict:
        return {
            "shard": self.shard,
            "evaluations": self.evaluations,
            "digests": b"".join(sorted(self._digests)).hex(),
            "digest_overflow": self._digest_overflow,
            "samples": self.samples,
            "counters": dict(self.counters),
            "violations": self.violations,
            "violation_overflow": self.violation_overflow,
            "inconclusive": self.inconclusive,
            "notes": jsonable(self.notes),
            "exhaustive_parts": self.exhaustive_parts,
        }


def jsonable_replay(obj):
    """Replay descriptors must round-trip exactly: bytes -> {"__b": hex}, tuples -> lists."""
    if obj is None or isinstance(obj, (bool, int, str)):
        return obj
    if isinstance(obj, float):
        return {"__f": repr(obj)}
    if isinstance(obj, (bytes, bytearray)):
        return {"__b": bytes(obj).hex()}
    if isinstance(obj, dict):
        return {"__d": [[jsonable_replay(k), jsonable_replay(v)] for k, v in obj.items()]}
    if isinstance(obj, tuple):
        return {"__t": [jsonable_replay(v) for v in obj]}
    if isinstance(obj, (list, set, frozenset)):
        return [jsonable_replay(v) for v in obj]
    return {"__r": repr(obj)}


def from_replay(obj):
    if isinstance(obj, dict):
        if "__b" in obj:
            return bytes.fromhex(obj["__b"])
        if "__f" in obj:
            return float(obj["__f"])
        if "__d" in obj:
            return {_hashable(from_replay(k)): from_replay(v) for k, v in obj["__d"]}
        if "__t" in obj:
            return tuple(from_replay(v) for v in obj["__t"])
        if "__r" in obj:
            return obj["__r"]
        return {k: from_replay(v) for k, v in obj.items()}
    if isinstance(obj, list):
        return [from_replay(v) for v in obj]
    return obj


def _hashable(v):
    if isinstance(v, list):
        return tuple(_hashable(x) for x in v)
    return v


# ---------------------------------------------------------------------------------------------
# known findings
# ---------------------------------------------------------------------------------------------


def load_known_findings() -> dict[tuple[str, str], str]:
    """open: property=C06 key=<mechanism-key> <what fails>   (fixed: lines suppress nothing)"""
    out: dict[tuple[str, str], str] = {}
    if not KNOWN_FINDINGS.exists():
        return out
    for line in KNOWN_FINDINGS.read_text().splitlines():
        line = line.strip()
        if not line.startswith("open:"):
            continue
        fields = line[len("open:") :].split()
        prop = key = None
        rest = []
        for f in fields:
            if f.startswith("property=") and prop is None:
                prop = f[len("property=") :]
            elif f.startswith("key=") and key is None:
                key = f[len("key=") :]
            else:
                rest.append(f)
        if prop and key:
            out[(prop, key)] = " ".join(rest)
    return out


# ---------------------------------------------------------------------------------------------
# shard child
# ---------------------------------------------------------------------------------------------


def load_module(prop_id: str):
    return importlib.import_module(f"vf.props.{prop_id.lower()}")


def run_shard(prop_id: str, tier: str, seed: int, shard: int, nshards: int, out_path: str) -> int:
    faulthandler.enable()
    import logging

    # the repository logs every injected fault at WARNING/ERROR; the monitors observe behaviour, not log text
    logging.disable(logging.CRITICAL)
    mod = load_module(prop_id)
    ctx = Ctx(prop_id, tier, seed, shard, nshards)
    t0 = time.time()
    try:
        mod.run(ctx)
    except BaseException as ex:  # harness failure is never a verdict on the repo
        ctx.mark_inconclusive(f"harness error in shard {shard}: {type(ex).__name__}: {ex}")
        ctx.notes["traceback"] = traceback.format_exc()[-3000:]
    d = ctx.dump()
    d["wall_s"] = time.time() - t0
    Path(out_path).write_text(json.dumps(d))
    return 0


# ---------------------------------------------------------------------------------------------
# parent
# ---------------------------------------------------------------------------------------------


def _child_env() -> dict:
    env = dict(os.environ)
    pp = [str(ROOT), REPO]
    if env.get("PYTHONPATH"):
        pp.append(env["PYTHONPATH"])
    env["PYTHONPATH"] = os.pathsep.join(pp)
    env.setdefault("PYTHONHASHSEED", "0")
    env["PYTHONDONTWRITEBYTECODE"] = "1"
    env["AIOHOMEKIT_VERIF"] = "1"
    return env


def run_check(prop_id: str, tier: str, seed: int, shards_override: int | None = None) -> int:
    mod = load_module(prop_id)
    nshards = shards_override or mod.SHARDS[tier]
    timeout = mod.TIMEOUT[tier]
    t0 = time.time()
    tmpdir = tempfile.mkdtemp(prefix=f"vf_{prop_id}_")
    procs = []
    try:
        for i in range(nshards):
            out = os.path.join(tmpdir, f"shard{i}.json")
            log = open(os.path.join(tmpdir, f"shard{i}.log"), "wb")
            p = subprocess.Popen(
                [
                    sys.executable,
                    str(ROOT / "check.py"),
                    prop_id,
                    "--tier",
                    tier,
                    "--seed",
                    str(seed),
                    "--shard",
                    f"{i}/{nshards}",
                    "--out",
                    out,
                ],
                cwd=str(ROOT),
                env=_child_env(),
                stdout=log,
                stderr=subprocess.STDOUT,
            )
            procs.append((i, p, out, log))
        results = []
        inconclusive: list[str] = []
        deadline = t0 + timeout
        for i, p, out, log in procs:
            try:
                p.wait(timeout=max(1.0, deadline - time.time()))
            except subprocess.TimeoutExpired:
                p.kill()
                p.wait()
                inconclusive.append(f"shard {i} hit the wall-clock watchdog ({timeout}s)")
            log.close()
            if os.path.exists(out):
                results.append(json.loads(Path(out).read_text()))
            else:
                tail = Path(log.name).read_bytes()[-1500:].decode("utf-8", "replace")
                inconclusive.append(f"shard {i} produced no result (rc={p.returncode}): {tail}")
        return finish(mod, prop_id, tier, seed, nshards, results, inconclusive, time.time() - t0)
    finally:
        for _, p, _, log in procs:
            if p.poll() is None:
                p.kill()
            try:
                log.close()
            except Exception:
                pass
        import shutil

        shutil.rmtree(tmpdir, ignore_errors=True)


def finish(mod, prop_id, tier, seed, nshards, results, inconclusive, wall) -> int:
    evaluations = sum(r["evaluations"] for r in results)
    digests: set[bytes] = set()
    overflow = 0
    for r in results:
        raw = bytes.fromhex(r["digests"])
        for k in range(0, len(raw), 8):
            digests.add(raw[k : k + 8])
        overflow += r["digest_overflow"]
    counters: Counter = Counter()
    for r in results:
        counters.update(r["counters"])
    samples = []
    seen = set()
    for r in sorted(results, key=lambda r: r["shard"]):
        for s in r["samples"]:
            k = json.dumps(s, sort_keys=True)
            if k not in seen and len(samples) < MAX_SAMPLES:
                seen.add(k)
                samples.append(s)
    notes = {}
    for r in results:
        for k, v in (r.get("notes") or {}).items():
            notes.setdefault(k, v)
        for reason in r["inconclusive"]:
            if reason not in inconclusive:
                inconclusive.append(reason)
    exhaustive_parts: dict[str, bool] = {}
    for r in results:
        for k, v in r.get("exhaustive_parts", {}).items():
            exhaustive_parts[k] = exhaustive_parts.get(k, True) and v

    # classify violations
    known = load_known_findings()
    new_violations = []
    known_hits: dict[str, dict] = {}
    for r in results:
        for v in r["violations"]:
            if (prop_id, v["key"]) in known:
                known_hits.setdefault(v["key"], v)
            else:
                new_violations.append(v)

    floor = mod.MIN_CASES[tier]
    if evaluations < floor:
        inconclusive.append(f"only {evaluations} cases evaluated (floor {floor})")
    for name in getattr(mod, "REQUIRED_COUNTERS", []):
        if counters.get(name, 0) <= 0:
            inconclusive.append(f"deciding monitor counter '{name}' observed nothing")

    distinct = len(digests)
    rule = mod.RULE
    if overflow:
        rule += (
            f" [distinct count is a lower bound: {overflow} further non-trivial cases were evaluated after the"
            f" per-shard digest table ({MAX_DIGESTS_PER_SHARD}) filled and are not counted]"
        )
    coverage = {
        "evaluations": evaluations,
        "distinct_nontrivial": distinct,
        "rule": rule,
        "samples": samples,
        "exhaustive": bool(exhaustive_parts) and all(exhaustive_parts.values()) and getattr(mod, "EXHAUSTIVE_WHOLE", False),
        "exhaustive_parts": exhaustive_parts,
        "monitor_counters": dict(sorted(counters.items())),
        "shards": nshards,
        "known_findings_reproduced": sorted(known_hits),
        "inconclusive_reasons": inconclusive,
    }
    if notes:
        coverage["notes"] = notes
    evidence = {
        "property_id": prop_id,
        "tier": tier,
        "seed": seed,
        "level": mod.LEVEL,
        "coverage": coverage,
        "assumptions": list(getattr(mod, "ASSUMPTIONS", [])),
        "wall_s": round(wall, 3),
        "violations": len(new_violations),
    }
    EVIDENCE_DIR.mkdir(parents=True, exist_ok=True)
    (EVIDENCE_DIR / f"{prop_id}.json").write_text(json.dumps(evidence, indent=1, sort_keys=False) + "\n")

    for key, v in sorted(known_hits.items()):
        print(f"KNOWN-FINDING: property={prop_id} key={key} {known[(prop_id, key)]} [witness: {v['message'][:300]}]")

    rc = 0
    if new_violations:
        rc = 1
        REPLAY_DIR.mkdir(parents=True, exist_ok=True)
        (REPLAY_DIR / prop_id).mkdir(exist_ok=True)
        printed: Counter = Counter()
        suppressed = 0
        for v in new_violations:
            h = hashlib.sha256(json.dumps(v, sort_keys=True).encode()).hexdigest()[:16]
            path = REPLAY_DIR / prop_id / f"{h}.json"
            path.write_text(
                json.dumps({"property_id": prop_id, "tier": tier, "seed": seed, **v}, indent=1) + "\n"
            )
            if printed[v["key"]] >= 2 or sum(printed.values()) >= 40:
                suppressed += 1
                continue
            printed[v["key"]] += 1
            print(f"VIOLATION property={prop_id} replay={path}")
            print(f"  key={v['key']} {v['message'][:600]}")
        if suppressed:
            print(f"  (+{suppressed} further violation witnesses written under {REPLAY_DIR / prop_id}, not printed)")
    elif inconclusive:
        rc = 2
    if inconclusive:
        for reason in inconclusive:
            print(f"INCONCLUSIVE property={prop_id} {reason[:800]}")
    verdict = {0: "HELD-ON-OBSERVED", 1: "VIOLATED", 2: "INCONCLUSIVE"}[rc]
    print(
        f"{prop_id} {tier} seed={seed}: {verdict}; evaluations={evaluations} distinct_nontrivial={distinct}"
        f" shards={nshards} wall={wall:.1f}s counters={dict(sorted(counters.items()))}"
    )
    return rc


def run_replay(prop_id: str, path: str) -> int:
    mod = load_module(prop_id)
    data = json.loads(Path(path).read_text())
    ctx = Ctx(prop_id, data.get("tier", "quick"), data.get("seed", 0), 0, 1)
    ctx.replaying = True
    mod.replay(ctx, from_replay(data["replay"]))
    if ctx.violations:
        for v in ctx.violations:
            print(f"VIOLATION property={prop_id} replay={path}")
            print(f"  key={v['key']} {v['message']}")
        return 1
    if ctx.inconclusive:
        for reason in ctx.inconclusive:
            print(f"INCONCLUSIVE property={prop_id} {reason}")
        return 2
    print(f"{prop_id} replay: no violation reproduced ({ctx.evaluations} case(s))")
    return 0
