"""In-process crash-point injection for file saves (C20).

`CrashFS` replaces builtins.open / io.open (raw layer = a FileIO subclass under the usual buffered/text layers),
os.replace, os.rename, os.fsync, os.remove, os.unlink, os.truncate for the duration of one save call. It numbers every
file operation that touches the watched directory:
    open(path, mode)  - for write modes the truncation/creation happens inside this op
    write(n bytes)    - one op per raw (OS level) write; can also crash after any byte prefix of it
    fsync / close / replace / rename / remove / truncate
A crash is `Crash` (a BaseException) raised before op k, after op k, or after a prefix of a write; from then on every
file operation is a no-op, because a killed process flushes nothing: bytes still sitting in Python's buffers are lost.
The shim is API-agnostic (it keeps working if the save strategy changes to temp-file + rename, os.open/fdopen, ...).
"""

from __future__ import annotations

import builtins
import io
import os


class Crash(BaseException):
    pass


class _Raw(io.FileIO):
    def __init__(self, fs, file, mode, opener=None):
        self._fs = fs
        self._vf_name = file
        super().__init__(file, mode, opener=opener) if opener else super().__init__(file, mode)

    def write(self, b):
        fs = self._fs
        if fs.dead:
            return len(b)
        data = bytes(b)
        if fs.failing and len(data):
            fs.begin("write-refused", self._vf_name, len(data))
            raise type(fs.fault_exc)(*fs.fault_exc.args)
        k = fs.begin("write", self._vf_name, len(data))
        if fs.crash_at == (k, "before"):
            fs.die()
        if fs.crash_at is not None and fs.crash_at[0] == k and isinstance(fs.crash_at[1], int):
            n = min(fs.crash_at[1], len(data))
            super().write(data[:n])
            fs.die()
        n = super().write(data)
        if fs.crash_at == (k, "after"):
            fs.die()
        return n

    def close(self):
        fs = self._fs
        if self.closed:
            return None
        if fs.dead:
            # the process is gone: the kernel closes the descriptor, nothing is flushed
            try:
                os.close(self.fileno())
            except OSError:
                pass
            try:
                super().close()
            except OSError:
                pass
            return None
        k = fs.begin("close", self._vf_name, 0)
        if fs.crash_at == (k, "before"):
            if fs.fault_exc is not None:
                fs.die()
            fs.dead = True
            self.close()
            raise Crash()
        r = super().close()
        if fs.crash_at == (k, "after"):
            fs.die()
        return r

    def truncate(self, size=None):
        fs = self._fs
        if fs.dead:
            return 0
        k = fs.begin("ftruncate", self._vf_name, size or 0)
        if fs.crash_at == (k, "before"):
            fs.die()
        r = super().truncate(size)
        if fs.crash_at == (k, "after"):
            fs.die()
        return r


class CrashFS:
    def __init__(self, watch_dir: str, crash_at=None, fault_exc=None):
        self.watch = os.path.realpath(watch_dir)
        self.crash_at = crash_at  # (op index, "before" | "after" | <int byte prefix>) or None
        # fault_exc: instead of killing the process at the crash point, the file operation FAILS with this exception (disk
        # full, I/O error) - once; the process lives on, later operations (cleanup, finally blocks) run normally
        self.fault_exc = fault_exc
        self.fault_raised = False
        # persistent=True: the condition does not go away (the disk STAYS full): from the failing operation on, every write to
        # a watched file fails the same way (opening / truncating / renaming / removing still work - they need no space)
        self.persistent = False
        self.failing = False
        self.ops: list[tuple] = []
        self.dead = False
        self._saved = {}

    # ---- bookkeeping -----------------------------------------------------------------------
    def watched(self, path) -> bool:
        try:
            p = os.path.realpath(os.fspath(path))
        except TypeError:
            return False
        return p == self.watch or p.startswith(self.watch + os.sep)

    def begin(self, kind, path, n):
        self.ops.append((kind, os.path.basename(str(path)), n))
        return len(self.ops) - 1

    def die(self):
        if self.fault_exc is not None:
            self.crash_at = None
            self.fault_raised = True
            if self.persistent:
                self.failing = True
            raise self.fault_exc
        self.dead = True
        raise Crash()

    # ---- patched entry points -----------------------------------------------------------------
    def _open(self, file, mode="r", buffering=-1, encoding=None, errors=None, newline=None, closefd=True, opener=None):
        if isinstance(file, int) or not self.watched(file) or not any(c in mode for c in "wax+"):
            return self._saved["open"](file, mode, buffering, encoding, errors, newline, closefd, opener)
        if self.dead:
            raise Crash()
        k = self.begin("open", file, 0)
        if self.crash_at == (k, "before"):
            self.die()
        raw_mode = mode.replace("b", "").replace("t", "")
        raw = _Raw(self, os.fspath(file), raw_mode)
        if self.crash_at == (k, "after"):
            if self.fault_exc is not None:
                raw.close()
                self.die()
            self.dead = True
            raw.close()
            raise Crash()
        if "b" in mode:
            if buffering == 0:
                return raw
            return io.BufferedWriter(raw) if "+" not in mode else io.BufferedRandom(raw)
        buf = io.BufferedWriter(raw) if "+" not in mode else io.BufferedRandom(raw)
        return io.TextIOWrapper(buf, encoding=encoding, errors=errors, newline=newline, line_buffering=False)

    def _wrap2(self, name):
        real = self._saved[name]

        def fn(src, dst, *a, **kw):
            if not (self.watched(src) or self.watched(dst)):
                return real(src, dst, *a, **kw)
            if self.dead:
                return None
            k = self.begin(name, f"{os.path.basename(str(src))}->{os.path.basename(str(dst))}", 0)
            if self.crash_at == (k, "before"):
                self.die()
            r = real(src, dst, *a, **kw)
            if self.crash_at == (k, "after"):
                self.die()
            return r

        return fn

    def _wrap1(self, name):
        real = self._saved[name]

        def fn(path, *a, **kw):
            if not isinstance(path, int) and not self.watched(path):
                return real(path, *a, **kw)
            if isinstance(path, int) and name != "fsync":
                return real(path, *a, **kw)
            if self.dead:
                return None
            k = self.begin(name, path, 0)
            if self.crash_at == (k, "before"):
                self.die()
            r = real(path, *a, **kw)
            if self.crash_at == (k, "after"):
                self.die()
            return r

        return fn

    def __enter__(self):
        self._saved = {"open": builtins.open, "replace": os.replace, "rename": os.rename, "fsync": os.fsync, "remove": os.remove,
                       "unlink": os.unlink, "truncate": os.truncate}
        builtins.open = self._open
        io.open = self._open
        os.replace = self._wrap2("replace")
        os.rename = self._wrap2("rename")
        os.fsync = self._wrap1("fsync")
        os.remove = self._wrap1("remove")
        os.unlink = self._wrap1("unlink")
        os.truncate = self._wrap1("truncate")
        return self

    def __exit__(self, *exc):
        builtins.open = self._saved["open"]
        io.open = self._saved["open"]
        os.replace = self._saved["replace"]
        os.rename = self._saved["rename"]
        os.fsync = self._saved["fsync"]
        os.remove = self._saved["remove"]
        os.unlink = self._saved["unlink"]
        os.truncate = self._saved["truncate"]
        return False
