"""AEAD (key, nonce) / replay history monitor (C06).

`AeadMonitor.install()` wraps - at class level, for the duration of a scenario - the repository's AEAD entry points
    aiohomekit.crypto.chacha20poly1305.ChaCha20Poly1305Encryptor.__init__/encrypt
    aiohomekit.crypto.chacha20poly1305.ChaCha20Poly1305Decryptor.__init__/decrypt
so every call made by the IP and BLE stacks (and by the pairing protocol) is logged as
    {key, op, nonce, ok, ct=sha256(ciphertext)}
The CoAP stack uses cryptography's ChaCha20Poly1305 objects handed to EncryptionContext: those are replaced by
vf.sim_coap.RecordingAead stand-ins that append to the same log.

`analyze()` decides, per key:
  * no two encrypt calls with the same nonce;
  * no ciphertext opened successfully twice;
  * using the production index the simulated accessory registered for every genuine ciphertext (register_genuine):
    successfully opened ciphertexts have strictly increasing production indices, and every opened ciphertext is genuine.
"""

from __future__ import annotations

import hashlib


class AeadMonitor:
    def __init__(self):
        self.log: list[dict] = []
        self.genuine: dict[bytes, dict[bytes, int]] = {}  # key -> sha256(ct) -> production index
        self.calls = 0
        self._installed = False

    # ---- accessory side registration -------------------------------------------------------------
    def register_genuine(self, key: bytes, ciphertext: bytes, index: int) -> None:
        self.genuine.setdefault(bytes(key), {})[hashlib.sha256(bytes(ciphertext)).digest()] = index

    # ---- instrumentation ---------------------------------------------------------------------------
    def install(self):
        from aiohomekit.crypto import chacha20poly1305 as mod

        self._mod = mod
        mon = self
        E, D = mod.ChaCha20Poly1305Encryptor, mod.ChaCha20Poly1305Decryptor
        self._orig = (E.__init__, E.encrypt, D.__init__, D.decrypt)
        e_init, e_enc, d_init, d_dec = self._orig

        def enc_init(self_, key):
            self_._vf_key = bytes(key)
            return e_init(self_, key)

        def enc_encrypt(self_, aad, nonce, plaintext):
            out = e_enc(self_, aad, nonce, plaintext)
            mon.calls += 1
            mon.log.append({"key": getattr(self_, "_vf_key", b"?"), "op": "encrypt", "nonce": bytes(nonce), "ct": hashlib.sha256(bytes(out)).digest()})
            return out

        def dec_init(self_, key):
            self_._vf_key = bytes(key)
            return d_init(self_, key)

        def dec_decrypt(self_, aad, nonce, ciphertext):
            mon.calls += 1
            rec = {"key": getattr(self_, "_vf_key", b"?"), "op": "decrypt", "nonce": bytes(nonce), "ct": hashlib.sha256(bytes(ciphertext)).digest(), "ok": False}
            mon.log.append(rec)
            out = d_dec(self_, aad, nonce, ciphertext)
            rec["ok"] = True
            return out

        E.__init__, E.encrypt, D.__init__, D.decrypt = enc_init, enc_encrypt, dec_init, dec_decrypt
        self._installed = True
        return self

    def remove(self):
        if self._installed:
            E, D = self._mod.ChaCha20Poly1305Encryptor, self._mod.ChaCha20Poly1305Decryptor
            E.__init__, E.encrypt, D.__init__, D.decrypt = self._orig
            self._installed = False

    # ---- offline checker ------------------------------------------------------------------------------
    def analyze(self, only_keys=None):
        """-> (findings, stats). findings: list of dict(kind, key, detail, index)."""
        findings = []
        stats = {"encrypts": 0, "decrypts_ok": 0, "decrypts_failed": 0, "keys": 0, "genuine_accepted": 0}
        enc_seen: dict[tuple, int] = {}
        dec_seen: dict[tuple, int] = {}
        last_index: dict[bytes, int] = {}
        keys = set()
        for i, ev in enumerate(self.log):
            k = ev["key"]
            if only_keys is not None and k not in only_keys:
                continue
            keys.add(k)
            if ev["op"] == "encrypt":
                stats["encrypts"] += 1
                sig = (k, ev["nonce"])
                if sig in enc_seen:
                    findings.append({"kind": "nonce-reuse", "key": k, "log_index": i, "first": enc_seen[sig], "nonce": ev["nonce"].hex()})
                else:
                    enc_seen[sig] = i
            elif ev.get("ok"):
                stats["decrypts_ok"] += 1
                sig = (k, ev["ct"])
                if sig in dec_seen:
                    findings.append({"kind": "accepted-twice", "key": k, "log_index": i, "first": dec_seen[sig], "nonce": ev["nonce"].hex()})
                else:
                    dec_seen[sig] = i
                gen = self.genuine.get(k)
                if gen is not None:
                    idx = gen.get(ev["ct"])
                    if idx is None:
                        findings.append({"kind": "accepted-not-genuine", "key": k, "log_index": i, "nonce": ev["nonce"].hex()})
                    else:
                        stats["genuine_accepted"] += 1
                        if k in last_index and idx <= last_index[k] and sig not in dec_seen:
                            pass
                        if k in last_index and idx < last_index[k]:
                            findings.append({"kind": "accepted-out-of-order", "key": k, "log_index": i, "index": idx, "after": last_index[k], "nonce": ev["nonce"].hex()})
                        last_index[k] = max(last_index.get(k, -1), idx)
            else:
                stats["decrypts_failed"] += 1
        stats["keys"] = len(keys)
        return findings, stats
