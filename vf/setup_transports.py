"""Pair-setup driven END TO END through the transports' own drivers (C03 anchors: ip/discovery.py, ble/discovery.py,
coap/connection.py) against the reference accessory (vf.ref.pairsetup), with the faults that make the drivers restart:

  BLE  : BleDiscovery.async_start_pairing / finish_pairing over a FakeBleClient (link drop while a step is written ->
         the retry decorator re-enters finish_pairing, which restarts pair-setup: the accessory issues a FRESH salt and B);
         wrong setup code first, then the right one on the same discovery;
  IP   : IpDiscovery.async_start_pairing / finish_pairing over the simulated network (real transports);
  CoAP : CoAPHomeKitConnection.do_pair_setup / do_pair_setup_finish over the fake aiocoap context.

Every M1 opens a new SRP session at the accessory (new salt, new b), as a real accessory does. Oracle: with the correct
setup code the driver returns a record whose accessory id / LTPK are the accessory's and whose controller id / LTPK are the
ones the accessory stored at M5 of the LAST exchange; with a wrong code it fails with a library error and returns nothing.
"""

from __future__ import annotations

import asyncio

from vf.ref import pairsetup as refps
from vf.ref import tlv8 as reftlv


class SetupPeer:
    """Accessory-side pair-setup state shared by the three transports: one SetupAccessory per M1."""

    def __init__(self, rng, code: str, pairing_id: bytes):
        self.rng = rng
        self.code = code
        self.pairing_id = pairing_id
        self.ltsk_seed = rng.randbytes(32)
        self.exchanges: list[refps.SetupAccessory] = []
        self.failed_attempts = 0

    def handle(self, items):
        reply = self._handle(items)
        hook = getattr(self, "reply_hook", None)
        return hook(items, reply) if hook is not None else reply

    def _handle(self, items):
        d = dict((t, bytes(v)) for t, v in items)
        state = d.get(6)
        if state == b"\x01":
            acc = refps.SetupAccessory(self.code, self.pairing_id, self.ltsk_seed, self.rng.randbytes(16), self.rng.getrandbits(256) | 1)
            self.exchanges.append(acc)
            return acc.m1(items)
        if not self.exchanges:
            return [(6, bytes([(state or b"\x00")[0] + 1 if state else 2])), (7, b"\x01")]
        acc = self.exchanges[-1]
        if state == b"\x03":
            reply = acc.m3(items)
            if not acc.m3_ok:
                self.failed_attempts += 1
            return reply
        if state == b"\x05":
            return acc.m5(items)
        return [(6, b"\x02"), (7, b"\x01")]

    @property
    def last(self):
        return self.exchanges[-1] if self.exchanges else None


def judge_record(ctx, transport, label, peer: SetupPeer, record, replay) -> bool:
    """Post-condition of a pair-setup that returned: the record is the authenticated one."""
    acc = peer.last
    problems = []
    if acc is None or acc.m5_verdict != "ok":
        problems.append(f"the accessory did not accept M5 of the last exchange ({None if acc is None else acc.m5_verdict})")
    if not isinstance(record, dict):
        problems.append(f"driver returned {type(record).__name__}")
    else:
        if record.get("AccessoryPairingID") != peer.pairing_id.decode():
            problems.append("AccessoryPairingID is not the accessory's")
        if acc is not None and record.get("AccessoryLTPK") != acc.ltpk.hex():
            problems.append("AccessoryLTPK is not the accessory's")
        if acc is not None and acc.stored_controller != (str(record.get("iOSPairingId")).encode(), bytes.fromhex(record.get("iOSDeviceLTPK", ""))):
            problems.append("the accessory stored a different controller id / key than the record holds")
    if problems:
        ctx.violation(f"{transport}-setup-record-not-authenticated", f"{label}: " + "; ".join(problems), replay)
        return False
    return True


# ---------------------------------------------------------------------------------------------
# BLE
# ---------------------------------------------------------------------------------------------


class BleSetupWorld:
    def __init__(self, rng, code: str):
        from aiohomekit.characteristic_cache import CharacteristicCacheMemory
        from aiohomekit.controller.ble import discovery as disc_mod
        from aiohomekit.controller.ble import pairing as pairing_mod
        from aiohomekit.controller.ble.controller import BleController
        from aiohomekit.controller.ble.manufacturer_data import HomeKitAdvertisement
        from aiohomekit.model.categories import Categories
        from aiohomekit.model.status_flags import StatusFlags
        from bleak.backends.device import BLEDevice

        from vf import sim_ble_acc as sba

        self.rng = rng
        self.accessory = sba.BleAccessory(rng)
        self.accessory.chars[23] = (sba.SVC_PAIRING, "0000004F-0000-1000-8000-0026BB765291", "uint8", ["pr"], 0)
        self.accessory.values[23] = 0
        self.peer = SetupPeer(rng, code, self.accessory.identity.pairing_id)
        self.accessory.setup_peer = self.peer
        self.write_fault_at = None  # number of the GATT write (counted over all clients) that fails with a link drop
        self.writes = 0
        world = self

        class Client(sba.FakeBleClient):
            async def write_gatt_char(self, handle, data, response=None):
                from bleak.exc import BleakError

                world.writes += 1
                if world.write_fault_at is not None and world.writes == world.write_fault_at:
                    world.write_fault_at = None
                    await self._drop()
                    raise BleakError("link dropped while writing")
                return await super().write_gatt_char(handle, data, response)

        async def establish_connection(device, name, disconnected_callback, max_attempts=None, use_services_cache=False, ble_device_callback=None):
            await asyncio.sleep(0)
            c = Client(world.accessory, len(world.accessory.clients), disconnected_callback)
            world.accessory.clients.append(c)
            return c

        self._patched = [(disc_mod, disc_mod.establish_connection), (pairing_mod, pairing_mod.establish_connection)]
        disc_mod.establish_connection = establish_connection
        pairing_mod.establish_connection = establish_connection
        self.controller = BleController(char_cache=CharacteristicCacheMemory())
        device = BLEDevice("AA:BB:CC:DD:EE:01", "Sim BLE", {})
        pid = self.accessory.identity.pairing_id.decode()
        desc = HomeKitAdvertisement(name="Sim BLE", id=pid, category=Categories(5), status_flags=StatusFlags(1), config_num=3, state_num=5, setup_hash=b"", address="AA:BB:CC:DD:EE:01")
        self.discovery = disc_mod.BleDiscovery(self.controller, device, desc, None)
        self.pairings = []

    async def close(self):
        for p in self.pairings:
            try:
                await p.shutdown()
            except Exception:  # noqa: BLE001
                pass
        try:
            await self.discovery._close()
        except Exception:  # noqa: BLE001
            pass
        for _ in range(3):
            await asyncio.sleep(0)
        for mod, orig in self._patched:
            mod.establish_connection = orig


def _install_ble_setup_handler():
    """BleAccessory.respond: route writes to the pair-setup characteristic (iid 20) to the SetupPeer."""
    from vf import sim_ble_acc as sba

    if getattr(sba.BleAccessory, "_vf_setup_patched", False):
        return
    orig = sba.BleAccessory.respond

    def respond(self, client, handle, opcode, tid, iid, body):
        peer = getattr(self, "setup_peer", None)
        if peer is not None and handle.iid == 20 and opcode == 0x02:
            outer = dict(reftlv.decode(body or b""))
            items = reftlv.decode(outer.get(1, b""))
            reply = peer.handle(items)
            self.requests.append({"client": client.index, "opcode": opcode, "iid": iid, "body": body, "secure": False})
            return 0, reftlv.encode([(1, reftlv.encode(reply))]), None, None
        return orig(self, client, handle, opcode, tid, iid, body)

    sba.BleAccessory.respond = respond
    sba.BleAccessory._vf_setup_patched = True


BLE_SCENARIOS = ["clean", "wrong-then-right", "drop-start", "drop-m3", "drop-m5", "drop-late", "wrong-code", "overlap-connect"]


async def ble_case(ctx, idx: int, scenario: str) -> None:
    from aiohomekit.exceptions import HomeKitException

    _install_ble_setup_handler()
    rng = ctx.grng("C03.ble-setup", idx, scenario)
    code = f"{rng.randrange(1000):03d}-{rng.randrange(100):02d}-{rng.randrange(1000):03d}"
    wrong = f"{(int(code[:3]) + 1) % 1000:03d}{code[3:]}"
    w = BleSetupWorld(rng, code)
    replay = {"kind": "ble-setup", "idx": idx, "scenario": scenario}
    ctx.case("ble-setup", idx, scenario, sample={"transport": "ble", "scenario": scenario, "code": code}, kind="ble-setup")
    label = f"BLE pair-setup [{scenario}]"
    try:
        # writes so far: part 1 takes 1 write (M1); part 2 writes M3 then M5 (more when a request is fragmented)
        if scenario == "drop-start":
            w.write_fault_at = 1
        try:
            if scenario == "overlap-connect":
                # a second public operation on the same discovery object arrives while the first is still bringing the link
                # up (every operation starts with _ensure_connected): ONE link - the exchange started on it finishes on it
                t = asyncio.ensure_future(w.discovery.async_start_pairing("alias"))
                other = asyncio.ensure_future(w.discovery._ensure_connected())
                finish = await asyncio.wait_for(t, 120)
                await asyncio.wait_for(other, 120)
                ctx.count("ble_setup_overlapping_connects")
            else:
                finish = await asyncio.wait_for(w.discovery.async_start_pairing("alias"), 120)
        except Exception as ex:  # noqa: BLE001
            ctx.violation(f"ble-setup-start-fails-{type(ex).__name__}", f"{label}: async_start_pairing raised {ex!r}", replay)
            return
        if scenario == "overlap-connect" and len(w.accessory.clients) != 1:
            ctx.violation("ble-setup-second-link-opened", f"{label}: {len(w.accessory.clients)} BLE links were opened by two overlapping operations on one discovery object (the exchange's M1/M2 ran on the first)", replay)
            return
        base = w.writes
        if scenario == "drop-m3":
            w.write_fault_at = base + 1
        elif scenario == "drop-m5":
            w.write_fault_at = base + rng.choice([3, 4])
        elif scenario == "drop-late":
            w.write_fault_at = base + rng.choice([2, 5, 6])
        if scenario in ("wrong-then-right", "wrong-code"):
            try:
                p = await asyncio.wait_for(finish(wrong), 120)
            except HomeKitException:
                ctx.count("transport_setups_wrong_code_refused")
            except Exception as ex:  # noqa: BLE001
                ctx.violation(f"ble-setup-wrong-code-raises-{type(ex).__name__}", f"{label}: {ex!r}", replay)
                return
            else:
                w.pairings.append(p)
                ctx.violation("ble-setup-returns-pairing-for-wrong-code", f"{label}: finish_pairing({wrong!r}) returned a pairing (code is {code!r})", replay)
                return
            if scenario == "wrong-code":
                return
        try:
            pairing = await asyncio.wait_for(finish(code), 120)
        except Exception as ex:  # noqa: BLE001
            acc = w.peer.last
            ctx.violation(f"ble-setup-fails-with-correct-code-{type(ex).__name__}",
                          f"{label}: finish_pairing with the correct code raised {ex!r}; exchanges opened at the accessory: {len(w.peer.exchanges)}, last M3 accepted: {None if acc is None else acc.m3_ok}", replay)
            return
        w.pairings.append(pairing)
        if judge_record(ctx, "ble", label, w.peer, pairing.pairing_data, replay):
            ctx.count("transport_setups_completed")
            ctx.count("ble_setups_completed")
            if len(w.peer.exchanges) > 1:
                ctx.count("ble_setups_restarted")
    finally:
        await w.close()


# ---------------------------------------------------------------------------------------------
# IP
# ---------------------------------------------------------------------------------------------


async def ip_case(ctx, idx: int, scenario: str) -> None:
    from aiohomekit.controller.ip.discovery import IpDiscovery
    from aiohomekit.exceptions import HomeKitException

    from vf import simnet, vloop

    rng = ctx.grng("C03.ip-setup", idx, scenario)
    code = f"{rng.randrange(1000):03d}-{rng.randrange(100):02d}-{rng.randrange(1000):03d}"
    wrong = f"{code[:-1]}{(int(code[-1]) + 1) % 10}"
    host = rng.choice(["10.0.0.5", "fd00::5"])
    w = simnet.World(rng, hosts=[host])
    peer = SetupPeer(rng, code, w.accessory.identity.pairing_id)
    replay = {"kind": "ip-setup", "idx": idx, "scenario": scenario}
    ctx.case("ip-setup", idx, scenario, sample={"transport": "ip", "scenario": scenario, "code": code, "host": host}, kind="ip-setup")
    label = f"IP pair-setup [{scenario}]"
    segments = rng.choice([1, 1, 3])

    def responder(conn, req):
        if req["target"] == "/pair-setup" and not conn.secure:
            reply = peer.handle(reftlv.decode(req["body"]))
            wire = conn.http(200, reftlv.encode(reply), "application/pairing+tlv8")
            if segments > 1:
                cuts = [len(wire) * k // segments for k in range(1, segments)]
                conn.spawn(conn.send_pieces(wire, cuts))
            else:
                conn.send(wire)
            return True
        return False

    w.accessory.script_for = lambda h, a: simnet.ConnScript(responder=responder)
    disc = IpDiscovery(w.controller, w.description([host]))
    pairing = None
    try:
        try:
            finish = await asyncio.wait_for(disc.async_start_pairing("alias"), 60)
        except Exception as ex:  # noqa: BLE001
            ctx.violation(f"ip-setup-start-fails-{type(ex).__name__}", f"{label}: {ex!r}", replay)
            return
        use = wrong if scenario == "wrong-code" else code
        try:
            if scenario == "overlap-malformed":
                # the user's first, mistyped entry (not even a well-formed code) is submitted while the exchange with the
                # right code is already under way: the malformed call fails by itself and disturbs nothing
                t = asyncio.ensure_future(finish(use))
                for _ in range(rng.randint(1, 30)):
                    await asyncio.sleep(0)
                try:
                    await asyncio.wait_for(finish("48219305"), 60)
                    ctx.violation("ip-setup-returns-pairing-for-wrong-code", f"{label}: a malformed code returned a pairing", replay)
                    return
                except Exception:  # noqa: BLE001
                    ctx.count("ip_setup_overlapping_malformed_codes")
                pairing = await asyncio.wait_for(t, 60)
            else:
                pairing = await asyncio.wait_for(finish(use), 60)
        except HomeKitException as ex:
            if scenario == "wrong-code":
                ctx.count("transport_setups_wrong_code_refused")
                return
            ctx.violation(f"ip-setup-fails-with-correct-code-{type(ex).__name__}", f"{label}: {ex!r}", replay)
            return
        except Exception as ex:  # noqa: BLE001
            ctx.violation(f"ip-setup-raises-{type(ex).__name__}", f"{label}: {ex!r}", replay)
            return
        if scenario == "wrong-code":
            ctx.violation("ip-setup-returns-pairing-for-wrong-code", f"{label}: finish_pairing({wrong!r}) returned a pairing", replay)
            return
        if not judge_record(ctx, "ip", label, peer, pairing.pairing_data, replay):
            return
        pd = pairing.pairing_data
        if pd.get("AccessoryIP") != host or pd.get("AccessoryPort") != 51826 or pd.get("Connection") != "IP":
            ctx.violation("ip-setup-record-address-wrong", f"{label}: record address {pd.get('AccessoryIP')}:{pd.get('AccessoryPort')} ({pd.get('Connection')})", replay)
            return
        await vloop.settle()
        if w.accessory.open_conns:
            ctx.violation("ip-setup-connection-left-open", f"{label}: the pair-setup connection is still open after finish_pairing returned", replay)
            return
        ctx.count("transport_setups_completed")
        ctx.count("ip_setups_completed")
    finally:
        for obj in (pairing, disc):
            try:
                if obj is not None:
                    await obj.close()
            except Exception:  # noqa: BLE001
                pass
        await w.close()


# ---------------------------------------------------------------------------------------------
# CoAP
# ---------------------------------------------------------------------------------------------


async def coap_case(ctx, idx: int, scenario: str) -> None:
    from aiohomekit.controller.coap.connection import CoAPHomeKitConnection
    from aiohomekit.exceptions import HomeKitException

    from vf import sim_coap

    rng = ctx.grng("C03.coap-setup", idx, scenario)
    code = f"{rng.randrange(1000):03d}-{rng.randrange(100):02d}-{rng.randrange(1000):03d}"
    wrong = f"{(int(code[0]) + 1) % 10}{code[1:]}"
    acc = sim_coap.CoapAccessory(rng)
    peer = SetupPeer(rng, code, acc.identity.pairing_id)
    orig_handle = acc.handle

    async def handle(msg):
        from aiocoap import Message
        from aiocoap.numbers.codes import Code

        if "/".join(msg.opt.uri_path) == "1":
            return Message(code=Code.CHANGED, payload=reftlv.encode(peer.handle(reftlv.decode(bytes(msg.payload)))))
        return await orig_handle(msg)

    acc.handle = handle
    fac = sim_coap.ContextFactory(acc).install()
    replay = {"kind": "coap-setup", "idx": idx, "scenario": scenario}
    ctx.case("coap-setup", idx, scenario, sample={"transport": "coap", "scenario": scenario, "code": code}, kind="coap-setup")
    label = f"CoAP pair-setup [{scenario}]"
    try:
        conn = CoAPHomeKitConnection(None, "fd00::1", 5683)
        try:
            salt, srp_b = await asyncio.wait_for(conn.do_pair_setup(rng.random() < 0.3), 60)
        except Exception as ex:  # noqa: BLE001
            ctx.violation(f"coap-setup-start-fails-{type(ex).__name__}", f"{label}: {ex!r}", replay)
            return
        if scenario in ("wrong-then-right", "bad-proof-then-right"):
            # a FAILED attempt first (the user mistypes the code / the accessory's M4 proof arrives damaged), then the user tries
            # again on the same connection object with the right code: an honest accessory and the right code pair
            if scenario == "bad-proof-then-right":
                def damage(items, reply):
                    # one bit of the accessory's proof (M4) flipped in transit
                    return [(t, (bytes(v[:-1]) + bytes([v[-1] ^ 1])) if t == 4 else v) for t, v in reply]

                peer.reply_hook = damage
            try:
                await asyncio.wait_for(conn.do_pair_setup_finish(wrong if scenario == "wrong-then-right" else code, salt, srp_b), 60)
                ctx.violation("coap-setup-returns-pairing-for-wrong-code", f"{label}: the first attempt returned a record", replay)
                return
            except Exception:  # noqa: BLE001 - the failed first attempt
                ctx.count("coap_setup_first_attempts_failed")
            peer.reply_hook = None
            try:
                salt, srp_b = await asyncio.wait_for(conn.do_pair_setup(False), 60)
            except Exception as ex:  # noqa: BLE001
                ctx.violation(f"coap-setup-start-fails-{type(ex).__name__}", f"{label}: second attempt on the same connection object: {ex!r}", replay)
                return
        use = wrong if scenario == "wrong-code" else code
        try:
            record = await asyncio.wait_for(conn.do_pair_setup_finish(use, salt, srp_b), 60)
        except HomeKitException as ex:
            if scenario == "wrong-code":
                ctx.count("transport_setups_wrong_code_refused")
                return
            ctx.violation(f"coap-setup-fails-with-correct-code-{type(ex).__name__}", f"{label}: {ex!r}", replay)
            return
        except Exception as ex:  # noqa: BLE001
            ctx.violation(f"coap-setup-raises-{type(ex).__name__}", f"{label}: {ex!r}", replay)
            return
        if scenario == "wrong-code":
            ctx.violation("coap-setup-returns-pairing-for-wrong-code", f"{label}: returned a record", replay)
            return
        if judge_record(ctx, "coap", label, peer, record, replay):
            ctx.count("transport_setups_completed")
            ctx.count("coap_setups_completed")
    finally:
        fac.remove()


# ---------------------------------------------------------------------------------------------
# C04 at transport level: a step answered with an error code, through the real drivers
# ---------------------------------------------------------------------------------------------


async def error_case(ctx, transport: str, step: int, err: bytes, with_fields: bool, mapped_class, idx: int) -> None:
    """The accessory answers pair-setup step M<step> with Error=err (State present); the driver must fail with the documented
    class and return nothing."""
    rng = ctx.grng("C04.transport", transport, step, err, with_fields)
    code = f"{rng.randrange(1000):03d}-{rng.randrange(100):02d}-{rng.randrange(1000):03d}"
    replay = {"transport_cell": [transport, step, err, with_fields]}
    ctx.case("transport-cell", transport, step, err, with_fields, sample={"transport": transport, "step": f"setup-M{step}", "error": err, "valid_fields_kept": with_fields}, kind="transport-" + transport)
    desc = f"{transport} pair-setup M{step} answered with error {err.hex() or '<empty>'}{' next to the valid fields' if with_fields else ''}"

    def hook(items, reply):
        st = dict((t, bytes(v)) for t, v in items).get(6)
        if st is not None and st[0] + 1 == step:
            return (list(reply) if with_fields else [(6, bytes([step]))]) + [(7, err)]
        return reply

    result = exc = None
    if transport == "ble":
        _install_ble_setup_handler()
        w = BleSetupWorld(rng, code)
        w.peer.reply_hook = hook
        try:
            try:
                finish = await asyncio.wait_for(w.discovery.async_start_pairing("alias"), 120)
                result = await asyncio.wait_for(finish(code), 120)
                w.pairings.append(result)
            except Exception as ex:  # noqa: BLE001
                exc = ex
        finally:
            await w.close()
    elif transport == "ip":
        from aiohomekit.controller.ip.discovery import IpDiscovery

        from vf import simnet

        w = simnet.World(rng)
        peer = SetupPeer(rng, code, w.accessory.identity.pairing_id)
        peer.reply_hook = hook

        http_status = [200, 470, 400, 405][idx % 4]
        # a FAULT first (half of the M2 cells): an earlier attempt on the same discovery object whose caller gave up while the
        # accessory was still busy with its M1. A sequential accessory answers that abandoned request first - with an ordinary,
        # successful M2 - if the controller sends the next request on the same connection; the reply to the NEW request is the
        # error under test. The stale reply belongs to nobody.
        slow_first = step == 2 and idx % 2 == 0
        stale = {"conn": None, "peer": SetupPeer(rng, code, w.accessory.identity.pairing_id)}

        def responder(conn, req):
            if req["target"] == "/pair-setup" and not conn.secure:
                if slow_first and stale["conn"] is None:
                    stale["conn"] = conn
                    stale["reply"] = stale["peer"].handle(reftlv.decode(req["body"]))
                    return True
                if slow_first and stale["conn"] is conn and "reply" in stale:
                    conn.send(conn.http(200, reftlv.encode(stale.pop("reply")), "application/pairing+tlv8"))
                    ctx.count("stale_replies_sent_ahead_of_the_error")
                reply = peer.handle(reftlv.decode(req["body"]))
                # an error reply travels with an HTTP 4xx status on many accessories
                code = http_status if any(t == 7 for t, _ in reply) else 200
                conn.send(conn.http(code, reftlv.encode(reply), "application/pairing+tlv8"))
                return True
            return False

        w.accessory.script_for = lambda h, a: simnet.ConnScript(responder=responder)
        disc = IpDiscovery(w.controller, w.description(w.hosts))
        try:
            if slow_first:
                try:
                    await asyncio.wait_for(disc.async_start_pairing("alias"), 2.0)
                except Exception:  # noqa: BLE001 - the caller's own timeout: the abandoned attempt
                    ctx.count("ip_setup_attempts_abandoned_by_caller")
                await asyncio.sleep(0.5)  # the user tries again a moment later (an IMMEDIATE retry is refused: C08's subject)
            try:
                finish = await asyncio.wait_for(disc.async_start_pairing("alias"), 60)
                result = await asyncio.wait_for(finish(code), 60)
            except Exception as ex:  # noqa: BLE001
                exc = ex
        finally:
            for obj in (result, disc):
                try:
                    if obj is not None:
                        await obj.close()
                except Exception:  # noqa: BLE001
                    pass
            await w.close()
    else:
        from aiohomekit.controller.coap.connection import CoAPHomeKitConnection

        from vf import sim_coap

        acc = sim_coap.CoapAccessory(rng)
        peer = SetupPeer(rng, code, acc.identity.pairing_id)
        peer.reply_hook = hook
        orig_handle = acc.handle

        async def handle(msg):
            from aiocoap import Message
            from aiocoap.numbers.codes import Code

            if "/".join(msg.opt.uri_path) == "1":
                return Message(code=Code.CHANGED, payload=reftlv.encode(peer.handle(reftlv.decode(bytes(msg.payload)))))
            return await orig_handle(msg)

        acc.handle = handle
        fac = sim_coap.ContextFactory(acc).install()
        try:
            conn = CoAPHomeKitConnection(None, "fd00::1", 5683)
            try:
                salt, srp_b = await asyncio.wait_for(conn.do_pair_setup(False), 60)
                result = await asyncio.wait_for(conn.do_pair_setup_finish(code, salt, srp_b), 60)
            except Exception as ex:  # noqa: BLE001
                exc = ex
        finally:
            fac.remove()
    ctx.count("transport_cells_judged")
    if exc is None:
        ctx.violation(f"{transport}-transport-error-ignored", f"{desc}: the driver returned {type(result).__name__}", replay)
    elif type(exc) is not mapped_class:
        ctx.violation(f"{transport}-transport-wrong-exception-class", f"{desc}: raised {type(exc).__name__} ({exc}), documented class {mapped_class.__name__}", replay)
    else:
        ctx.count(f"{transport}_transport_cells")


async def run_all(ctx) -> None:
    """A handful of end-to-end pair-setups per transport and scenario (about 0.2 s of SRP each)."""
    n = ctx.pick(1, 12)
    j = 0
    for k in range(n):
        for sc in BLE_SCENARIOS:
            j += 1
            if ctx.mine(j):
                await ble_case(ctx, k, sc)
        j += 1
        if ctx.mine(j):
            await ip_case(ctx, k, "overlap-malformed")
        for sc in ("clean", "wrong-code"):
            j += 1
            if ctx.mine(j):
                await ip_case(ctx, k, sc)
            j += 1
            if ctx.mine(j):
                await coap_case(ctx, k, sc)
        for sc in ("wrong-then-right", "bad-proof-then-right"):
            j += 1
            if ctx.mine(j):
                await coap_case(ctx, k, sc)


async def replay(ctx, d) -> None:
    fn = {"ble-setup": ble_case, "ip-setup": ip_case, "coap-setup": coap_case}[d["kind"]]
    await fn(ctx, d["idx"], d["scenario"])
