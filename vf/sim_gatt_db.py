"""The HAP-BLE GATT database fetch (BlePairing._async_fetch_gatt_database) against a reference accessory layout.

A random but well-formed layout (services with instance ids and links, characteristics with format, permission bits, valid
range, step) is served by a fake GATT client the way a HAP-BLE accessory serves it: the service-instance-id characteristic,
the instance-id descriptor, and characteristic / service SIGNATURE READ procedures answered with reference-encoded PDUs and
TLVs (vf.ref). The real fetch builds the accessory model from it; the model is then compared with the layout field by field.

Used by C16 (what the signatures say is what the model holds: formats, permission flags, links) and C14 (the limits the
accessory DECLARED - a bound of 0 included - are the limits values are prepared against).

Links: at most one link per service, to an instance id in 1..255 (lists of several ids / ids with a zero byte run into the
known open finding of C16, packed-u16-sequence-decoded-as-tlv-array).
"""

from __future__ import annotations

import struct
import uuid

from vf.ref import blepdu
from vf.ref import tlv8 as reftlv

FMT = {"bool": (0x01, None), "uint8": (0x04, "B"), "uint16": (0x06, "H"), "uint32": (0x08, "L"), "uint64": (0x0A, "Q"), "int": (0x10, "l"), "float": (0x14, "f"),
       "string": (0x19, None), "data": (0x1B, None)}
PERM_BITS = [(0x10, "pr"), (0x20, "pw"), (0x80, "ev"), (0x04, "aa"), (0x08, "tw"), (0x40, "hd")]
SVC_IID_UUID = "E604E95D-A759-4817-87D3-AA005083A0D1"
SVC_SIG_UUID = "000000A5-0000-1000-8000-0026BB765291"
IID_DESC_UUID = "DC46F0FE-81D2-4616-B5D9-6ABDD796939A"


def gen_layout(rng):
    n_svc = rng.randint(1, 4)
    iid = 1
    svcs = []
    for s in range(n_svc):
        svc = {"uuid": f"0000FF{s:02X}-0000-1000-8000-0026BB765291", "iid": iid, "chars": [], "link": None}
        iid += 1
        for c in range(rng.randint(1, 4)):
            fmt = rng.choice(list(FMT))
            props = rng.choice([0x10, 0x30, 0x30, 0xB0, 0x1B0, 0x3B0, 0x38])
            ch = {"uuid": f"0000FE{iid % 256:02X}-0000-1000-8000-0026BB7652{s:02X}", "iid": iid, "fmt": fmt, "props": props, "range": None, "step": None}
            code = FMT[fmt][1]
            if code and rng.random() < 0.7:
                if code == "f":
                    lo, hi = rng.choice([(0.0, 25.0), (-40.0, 0.0), (0.0, 0.0), (10.0, 38.0), (-0.5, 0.5)])
                    step = rng.choice([None, 0.5, 1.0, 0.25])
                elif code == "l":
                    lo, hi = rng.choice([(-40, 0), (0, 100), (-100, -1), (0, 0), (-2**31, 2**31 - 1)])
                    step = rng.choice([None, 1, 5])
                else:
                    lo, hi = rng.choice([(0, 100), (0, 1), (0, 0), (1, 255), (0, 255)])
                    step = rng.choice([None, 1, 5])
                ch["range"] = (lo, hi)
                ch["step"] = step
            svc["chars"].append(ch)
            iid += 1
        svcs.append(svc)
    # links: forward (to a service enumerated later), backward, none
    for k, svc in enumerate(svcs):
        others = [o["iid"] for j, o in enumerate(svcs) if j != k and 0 < o["iid"] < 256]
        if others and rng.random() < 0.7:
            svc["link"] = rng.choice(others)
    return svcs


class _Desc:
    def __init__(self, handle):
        self.uuid, self.handle = IID_DESC_UUID, handle


class _Char:
    def __init__(self, uuid_, handle, spec=None, kind="char", svc=None):
        self.uuid, self.handle, self.spec, self.kind, self.svc = uuid_, handle, spec, kind, svc
        self.properties = ["read", "write"]
        self.max_write_without_response_size = None
        self.descriptors = [_Desc(handle + 1)]

    def get_descriptor(self, u):
        return self.descriptors[0] if str(u).lower() == IID_DESC_UUID.lower() else None


class _Service:
    def __init__(self, uuid_, chars):
        self.uuid, self.characteristics = uuid_, chars

    def get_characteristic(self, u):
        for c in self.characteristics:
            if str(c.uuid).lower() == str(u).lower():
                return c
        return None


class FakeGattDbClient:
    """What _async_fetch_gatt_database / _read_signature touch of the bleak client."""

    def __init__(self, layout):
        self.address = "AA:BB:CC:DD:EE:10"
        self.is_connected = True
        self.services = []
        self._by_handle = {}
        self._pending = {}
        h = 10
        for svc in layout:
            chars = []
            sc = _Char(SVC_IID_UUID, h, kind="svc-iid", svc=svc)
            h += 3
            sig = _Char(SVC_SIG_UUID, h, kind="svc-sig", svc=svc)
            sig.iid = svc["iid"] * 1000 % 65535 or 7  # the signature characteristic has an instance id of its own
            h += 3
            chars += [sc, sig]
            for ch in svc["chars"]:
                c = _Char(ch["uuid"], h, spec=ch, svc=svc)
                h += 3
                chars.append(c)
            for c in chars:
                self._by_handle[c.handle] = c
            self.services.append(_Service(svc["uuid"], chars))

    async def get_characteristic_iid(self, char):
        if char.kind == "char":
            return char.spec["iid"]
        if char.kind == "svc-sig":
            return char.iid
        return None

    async def write_gatt_char(self, char, data, response=None):
        control, opcode, tid, iid = struct.unpack("<BBBH", bytes(data)[:5])
        self._pending[id(char)] = (opcode, tid, iid)

    async def read_gatt_char(self, char):
        if isinstance(char, int):
            c = self._by_handle[char]
            return bytearray(c.svc["iid"].to_bytes(2, "little"))
        opcode, tid, iid = self._pending.pop(id(char))
        if opcode == 0x06:  # service signature read
            svc = char.svc if char.kind == "svc-sig" else None
            items = [(0x0F, (0).to_bytes(2, "little"))]
            if svc is not None and svc["link"] is not None:
                items.append((0x10, svc["link"].to_bytes(2, "little")))
            body = reftlv.encode(items)
        else:
            body = reftlv.encode(signature_items(char))
        return bytearray(blepdu.encode_response(tid, 0, body)[0])


def signature_items(char):
    if char.kind != "char":
        # the service-signature characteristic's own signature: data, read-only
        return [(0x04, uuid.UUID(char.uuid).bytes_le), (0x07, char.svc["iid"].to_bytes(2, "little")), (0x06, uuid.UUID(char.svc["uuid"]).bytes_le),
                (0x0A, (0x10).to_bytes(2, "little")), (0x0C, struct.pack("<BxHxxx", 0x1B, 0x2700))]
    ch = char.spec
    code, pack = FMT[ch["fmt"]]
    items = [(0x04, uuid.UUID(ch["uuid"]).bytes_le), (0x07, char.svc["iid"].to_bytes(2, "little")), (0x06, uuid.UUID(char.svc["uuid"]).bytes_le),
             (0x0A, ch["props"].to_bytes(2, "little")), (0x0C, struct.pack("<BxHxxx", code, 0x2700))]
    if ch["range"] is not None:
        items.append((0x0D, struct.pack("<" + pack * 2, *ch["range"])))
    if ch["step"] is not None:
        items.append((0x0E, struct.pack("<" + pack, ch["step"])))
    return items


async def fetch_and_compare(ctx, rng, replay) -> bool:
    """-> True when the fetched model matches the layout (violations are reported here)."""
    from vf import sim_ble_acc

    layout = gen_layout(rng)
    w = sim_ble_acc.BleWorld(rng)
    try:
        w.pairing.client = FakeGattDbClient(layout)
        try:
            accessories = await w.pairing._async_fetch_gatt_database()
        except Exception as ex:  # noqa: BLE001
            ctx.violation(f"gatt-database-fetch-raises-{type(ex).__name__}", f"layout {summary(layout)}: {ex!r}", replay)
            return False
        acc = accessories.aid(1)
        for svc in layout:
            s = acc.services.iid(svc["iid"])
            if s is None:
                ctx.violation("gatt-database-service-missing", f"service iid {svc['iid']} of {summary(layout)}", replay)
                return False
            linked = sorted(x.iid for x in s.linked)
            if linked != ([svc["link"]] if svc["link"] is not None else []):
                ctx.violation("gatt-database-links-differ", f"service {svc['iid']} declares link {svc['link']} (layout order {[x['iid'] for x in layout]}); the model has {linked}", replay)
                return False
            for ch in svc["chars"]:
                c = acc.characteristics.iid(ch["iid"])
                if c is None:
                    ctx.violation("gatt-database-characteristic-missing", f"iid {ch['iid']}", replay)
                    return False
                want_perms = [p for bit, p in PERM_BITS if ch["props"] & bit]
                problems = []
                if c.format != ch["fmt"]:
                    problems.append(f"format {c.format!r} != {ch['fmt']!r}")
                if sorted(c.perms) != sorted(want_perms):
                    problems.append(f"perms {c.perms} != {want_perms}")
                if bool(c.broadcast_events) != bool(ch["props"] & 0x200) or bool(c.disconnected_events) != bool(ch["props"] & 0x100):
                    problems.append("event flags differ")
                if ch["range"] is not None and (c.minValue, c.maxValue) != ch["range"]:
                    problems.append(f"declared range {ch['range']} -> model {c.minValue!r}..{c.maxValue!r}")
                if ch["step"] is not None and c.minStep != ch["step"]:
                    problems.append(f"declared step {ch['step']} -> model {c.minStep!r}")
                if problems:
                    ctx.violation("gatt-database-characteristic-differs", f"iid {ch['iid']} ({ch['fmt']}): " + "; ".join(problems), replay)
                    return False
                ctx.count("gatt_characteristics_compared")
        ctx.count("gatt_databases_fetched")
        return True
    finally:
        await w.close()


def summary(layout):
    return [(s["iid"], s["link"], [(c["iid"], c["fmt"], c["range"]) for c in s["chars"]]) for s in layout]
