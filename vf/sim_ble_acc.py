"""Full simulated HAP-BLE accessory for the real BlePairing (C01, C04, C06, C13 BLE parts).

`BleWorld` patches aiohomekit.controller.ble.pairing.establish_connection with a factory that returns a `FakeBleClient`
(the subset of AIOHomeKitBleakClient that BlePairing and ble/client.py use). Every GATT characteristic of the accessory
is a `GattEndpointSim` (vf.sim_ble) sharing one secure session (independent AEAD + counters); pair-verify / pair-resume
is answered by the reference accessory (vf.ref.pairverify). The pairing gets its accessory database from the
characteristic cache (same config number as the advertisement), so connecting = pair-verify only.
"""

from __future__ import annotations

import asyncio
import struct

from cryptography.exceptions import InvalidTag
from cryptography.hazmat.primitives.ciphers.aead import ChaCha20Poly1305

from vf.ref import pairverify as refpv
from vf.ref import tlv8 as reftlv
from vf.sim_ble import FakeHandle, GattEndpointSim

SVC_INFO = "0000003E-0000-1000-8000-0026BB765291"
SVC_PAIRING = "00000055-0000-1000-8000-0026BB765291"
SVC_BULB = "00000043-0000-1000-8000-0026BB765291"
CH_PAIR_VERIFY = "0000004E-0000-1000-8000-0026BB765291"
CH_PAIRINGS = "00000050-0000-1000-8000-0026BB765291"
CH_IDENTIFY = "00000014-0000-1000-8000-0026BB765291"
CH_NAME = "00000023-0000-1000-8000-0026BB765291"

# iid -> (service type, char type, format, perms, value)
DEFAULT_CHARS = {
    2: (SVC_INFO, CH_IDENTIFY, "bool", ["pw"], None),
    3: (SVC_INFO, CH_NAME, "string", ["pr"], "Sim BLE"),
    10: (SVC_BULB, "00000025-0000-1000-8000-0026BB765291", "bool", ["pr", "pw", "ev"], False),
    11: (SVC_BULB, "00000008-0000-1000-8000-0026BB765291", "int", ["pr", "pw", "ev"], 50),
    12: (SVC_BULB, "0000FE01-0000-1000-8000-0026BB765291", "uint8", ["pw"], None),
    13: (SVC_BULB, "0000FE02-0000-1000-8000-0026BB765291", "uint16", ["pr", "pw", "tw"], 7),
    14: (SVC_BULB, "0000FE03-0000-1000-8000-0026BB765291", "uint32", ["pr"], 99),
    15: (SVC_BULB, "0000FE04-0000-1000-8000-0026BB765291", "string", ["pr", "pw"], "s"),  # long values: multi-fragment PDUs
    23: (SVC_BULB, "0000FE05-0000-1000-8000-0026BB765291", "uint32", ["pr", "pw"], 7),
    24: (SVC_BULB, "0000FE06-0000-1000-8000-0026BB765291", "float", ["pr", "pw"], 1.5),
    25: (SVC_BULB, "0000FE07-0000-1000-8000-0026BB765291", "uint64", ["pw"], None),
    20: (SVC_PAIRING, "0000004C-0000-1000-8000-0026BB765291", "tlv8", ["pr", "pw"], None),
    21: (SVC_PAIRING, CH_PAIR_VERIFY, "tlv8", ["pr", "pw"], None),
    22: (SVC_PAIRING, CH_PAIRINGS, "tlv8", ["pr", "pw"], None),
}
SVC_IIDS = {SVC_INFO: 1, SVC_BULB: 9, SVC_PAIRING: 19}
PACK = {"bool": "?", "uint8": "B", "uint16": "H", "uint32": "I", "uint64": "Q", "int": "i", "float": "f"}



def _raising_listener():
    def bad(ev):
        raise RuntimeError("a consumer's callback fails")

    return bad

def nonce(counter: int) -> bytes:
    return b"\x00\x00\x00\x00" + struct.pack("<Q", counter)


def entity_map(chars=DEFAULT_CHARS):
    svcs = {}
    for iid, (svc, ctype, fmt, perms, value) in chars.items():
        s = svcs.setdefault(svc, {"iid": SVC_IIDS[svc], "type": svc, "characteristics": []})
        c = {"iid": iid, "type": ctype, "perms": perms, "format": fmt, "handle": 100 + iid, "broadcast_events": False, "disconnected_events": False}
        if "pr" in perms:
            c["value"] = value
        s["characteristics"].append(c)
    return [{"aid": 1, "services": list(svcs.values())}]


class Session:
    """Accessory side of one BLE secure session: production index on every genuine response fragment."""

    def __init__(self, c2a: bytes, a2c: bytes, label):
        self.label = label
        self.c2a_key, self.a2c_key = c2a, a2c
        self.dec = ChaCha20Poly1305(c2a)
        self.enc = ChaCha20Poly1305(a2c)
        self.rc = 0
        self.sc = 0
        self.produced: list[bytes] = []  # genuine encrypted response fragments in production order
        self.plain: dict[bytes, bytes] = {}
        self.monitor = None  # vf.monitors.AeadMonitor (C06): every genuine fragment is registered with its production index
        self.decrypt_errors = 0

    def decrypt(self, data):
        try:
            pt = self.dec.decrypt(nonce(self.rc), bytes(data), b"")
        except InvalidTag:
            self.decrypt_errors += 1
            raise
        self.rc += 1
        return pt

    def encrypt(self, data):
        ct = self.enc.encrypt(nonce(self.sc), bytes(data), b"")
        if self.monitor is not None:
            self.monitor.register_genuine(self.a2c_key, ct, self.sc)
        self.sc += 1
        self.produced.append(ct)
        self.plain[ct] = bytes(data)
        return ct

    def encrypt_at(self, data, counter):
        ct = self.enc.encrypt(nonce(counter), bytes(data), b"")
        if self.monitor is not None:
            self.monitor.register_genuine(self.a2c_key, ct, counter)
        return ct


class BleAccessory:
    def __init__(self, rng, pairing_id="aa:bb:cc:dd:ee:01", ios_pairing_id="ble-controller"):
        from cryptography.hazmat.primitives.asymmetric import ed25519

        self.rng = rng
        self.identity = refpv.AccessoryIdentity(pairing_id.encode(), rng.randbytes(32))
        self.ios_seed = rng.randbytes(32)
        self.ios_ltpk = refpv.raw_pub(ed25519.Ed25519PrivateKey.from_private_bytes(self.ios_seed))
        self.ios_pairing_id = ios_pairing_id
        self.identity.controllers[ios_pairing_id.encode()] = self.ios_ltpk
        self.chars = dict(DEFAULT_CHARS)
        self.values = {iid: v[4] for iid, v in self.chars.items()}
        self.sessions: list[Session] = []
        self.exchanges: list = []
        self.clients: list = []
        self.status_script: dict[tuple[int, int], int] = {}  # (opcode, iid) -> PDU status
        self.pairings_reply = None  # TLV items the /pairings characteristic answers with
        self.response_hook = None  # hook(client, handle, fragments) -> fragments (C06 fault injection)
        self.requests: list = []
        self.unverified_writes: list = []
        self.response_fragment = 150
        self.allow_resume = True

    def pairing_data(self):
        return {
            "AccessoryPairingID": self.identity.pairing_id.decode(),
            "AccessoryLTPK": self.identity.ltpk.hex(),
            "iOSPairingId": self.ios_pairing_id,
            "iOSDeviceLTSK": self.ios_seed.hex(),
            "iOSDeviceLTPK": self.ios_ltpk.hex(),
            "AccessoryAddress": "AA:BB:CC:DD:EE:01",
            "Connection": "BLE",
        }

    # ---- request handling (per client connection) ---------------------------------------------
    def respond(self, client, handle, opcode, tid, iid, body):
        self.requests.append({"client": client.index, "opcode": opcode, "iid": iid, "body": body, "secure": client.session is not None and handle.iid != 21})
        st = self.status_script.get((opcode, iid), 0)
        if handle.iid == 21 and opcode == 0x02:
            return self._pair_verify(client, body)
        if st:
            return st, None, None, None
        if opcode == 0x03:  # CHAR_READ
            fmt = self.chars[iid][2]
            v = self.values.get(iid)
            if isinstance(v, tuple) and v[0] == "raw":
                raw = bytes(v[1] or b"")  # what a controller wrote earlier, byte for byte
            else:
                raw = struct.pack(PACK[fmt], v) if fmt in PACK and v is not None else (v.encode() if isinstance(v, str) else (v or b""))
            body = reftlv.encode([(1, raw)])
            # a real accessory cuts a long response into fragments of its ATT payload size
            cuts = list(range(self.response_fragment, len(body), self.response_fragment)) if len(body) > self.response_fragment else None
            return 0, body, cuts, None
        if opcode == 0x02:  # CHAR_WRITE
            d = dict(reftlv.decode(body or b""))
            if handle.iid == 22:
                reply = self.pairings_reply if self.pairings_reply is not None else [(6, b"\x02")]
                return 0, reftlv.encode([(1, reftlv.encode(reply))]), None, None
            self.values[iid] = ("raw", d.get(1))
            return 0, None, None, None
        if opcode == 0x04:  # timed write
            self.pending_timed = (iid, body)
            return 0, None, None, None
        if opcode == 0x05:  # execute write
            if getattr(self, "pending_timed", None):
                pi, pb = self.pending_timed
                inner = dict(reftlv.decode(pb[2:]))
                self.values[pi] = ("raw", inner.get(1))
            return 0, None, None, None
        return 1, None, None, None

    def _pair_verify(self, client, body):
        outer = dict(reftlv.decode(body or b""))
        items = reftlv.decode(outer.get(1, b""))
        state = dict(items).get(6)
        if state == b"\x01":
            ex = refpv.VerifyExchange(self.identity, self.rng.randbytes(32), new_session_id=self.rng.randbytes(8))
            if not self.allow_resume:
                self.identity.sessions.clear()
            client.exchange = ex
            self.exchanges.append(ex)
            reply = ex.m1(items)
            if getattr(self, "verify_mode", "ok") == "bad_sig" and not ex.resumed:
                # an impostor: right identifier, signature by a key that is not the paired accessory's
                from cryptography.hazmat.primitives.asymmetric import ed25519 as _ed

                forged = _ed.Ed25519PrivateKey.from_private_bytes(bytes(range(32))).sign(ex.acc_pk + self.identity.pairing_id + ex.ios_pk)
                sub = reftlv.encode([(1, self.identity.pairing_id), (10, forged)])
                reply = [(6, b"\x02"), (3, ex.acc_pk), (5, refpv.seal(ex.session_key, b"PV-Msg02", sub))]
            if ex.resumed:
                self._install(client, ex)
        elif state == b"\x03" and client.exchange is not None and not client.exchange.resumed:
            ex = client.exchange
            reply = ex.m3(items)
            if ex.verified:
                self._install(client, ex)
        else:
            # anything else (e.g. a fragment acknowledgement provoked by a corrupted reply) is not a pair-verify step
            reply = [(6, b"\x02"), (7, b"\x01")]
        return 0, reftlv.encode([(1, reftlv.encode(reply))]), None, None

    def _install(self, client, ex):
        s = Session(ex.controller_to_accessory_key, ex.accessory_to_controller_key, len(self.sessions))
        s.monitor = getattr(self, "monitor", None)
        self.sessions.append(s)
        client.session = s


class FakeService:
    def __init__(self, uuid, chars):
        self.uuid = uuid
        self.characteristics = chars

    def get_characteristic(self, uuid):
        for c in self.characteristics:
            if str(c.uuid).lower() == str(uuid).lower():
                return c
        return None


class FakeBleClient:
    """Subset of AIOHomeKitBleakClient used by BlePairing / ble.client."""

    def __init__(self, accessory: BleAccessory, index: int, disconnected_callback, negotiated=185):
        self.accessory = accessory
        self.index = index
        self.address = "AA:BB:CC:DD:EE:01"
        self.is_connected = True
        self.negotiated = negotiated
        self.session: Session | None = None
        self.exchange = None
        self.disconnected_callback = disconnected_callback
        self.handles: dict[int, FakeHandle] = {}
        self.endpoints: dict[FakeHandle, GattEndpointSim] = {}
        self.gate = None  # asyncio.Event the next read waits for (suspension point for cancellation sweeps)
        self.read_fault = None  # exception instance raised by the next read
        self.disconnect_fault = None  # exception instance raised by disconnect() (the link is gone, no callback)
        self.notify_callbacks: dict = {}
        self.reads = 0
        self.writes = 0
        for iid, (svc, ctype, fmt, perms, value) in accessory.chars.items():
            h = FakeHandle(ctype, 100 + iid)
            h.iid = iid
            h.service_uuid = svc
            self.handles[iid] = h
            self.endpoints[h] = GattEndpointSim(
                (lambda hh: lambda op, tid, riid, body: accessory.respond(self, hh, op, tid, riid, body))(h),
                decrypt=(lambda hh: (lambda data: self._decrypt(hh, data)))(h),
                encrypt=(lambda hh: (lambda data: self._encrypt(hh, data)))(h),
            )
        svcs = {}
        for h in self.handles.values():
            svcs.setdefault(h.service_uuid, []).append(h)
        self.services = [FakeService(u, cs) for u, cs in svcs.items()]

    # secure session plumbing: pair-verify characteristic is always plaintext
    def _decrypt(self, handle, data):
        if self.session is None or handle.iid == 21:
            return data
        return self.session.decrypt(data)

    def _encrypt(self, handle, data):
        if self.session is None or handle.iid == 21:
            return data
        return self.session.encrypt(data)

    # ---- API used by the repo -----------------------------------------------------------------------
    def determine_fragment_size(self, additional_overhead_size, handle):
        return self.negotiated - additional_overhead_size

    async def get_characteristic(self, service_uuid, characteristic_uuid, iid=None):
        for h in self.handles.values():
            if h.uuid.lower() == characteristic_uuid.lower() and h.service_uuid.lower() == service_uuid.lower():
                return h
        from aiohomekit.controller.ble.bleak import BleakCharacteristicMissing

        raise BleakCharacteristicMissing(f"{characteristic_uuid} not found")

    async def get_characteristic_iid(self, char):
        return char.iid

    async def write_gatt_char(self, handle, data, response=None):
        from bleak.exc import BleakError

        if not self.is_connected:
            raise BleakError("not connected")
        self.writes += 1
        await asyncio.sleep(0)
        if self.session is None and handle.iid != 21:
            # ground truth: bytes handed to a peer that has NOT completed pair-verify on this link, outside the pair-verify characteristic
            self.accessory.unverified_writes.append((self.index, handle.iid, len(data)))
        try:
            self.endpoints[handle].on_write(data)
        except InvalidTag:
            # the accessory cannot authenticate the fragment: it drops the link
            await self._drop()
            raise BleakError("disconnected by accessory")
        if self.accessory.response_hook is not None and self.endpoints[handle].pending:
            self.endpoints[handle].pending = self.accessory.response_hook(self, handle, self.endpoints[handle].pending)

    async def read_gatt_char(self, handle):
        from bleak.exc import BleakError

        if not self.is_connected:
            raise BleakError("not connected")
        self.reads += 1
        if self.gate is not None:
            gate, self.gate = self.gate, None
            await gate.wait()
        else:
            await asyncio.sleep(0)
        if self.read_fault is not None:
            fault, self.read_fault = self.read_fault, None
            raise fault
        if isinstance(handle, int):
            handle = next(h for h in self.handles.values() if h.handle == handle)
        return bytearray(self.endpoints[handle].on_read())

    async def start_notify(self, char, callback):
        # GATT notifications enabled for this handle: the simulated accessory may now poke the controller (ble_notify)
        self.notify_callbacks[getattr(char, "iid", char)] = callback
        return None

    async def clear_cache(self):
        return None

    async def disconnect(self):
        if self.disconnect_fault is not None:
            # the host's Bluetooth stack died under us (dead D-Bus socket): disconnect() raises and no callback is ever delivered
            fault, self.disconnect_fault = self.disconnect_fault, None
            self.is_connected = False
            raise fault
        await self._drop()

    async def _drop(self):
        if self.is_connected:
            self.is_connected = False
            if self.disconnected_callback is not None:
                self.disconnected_callback(self)


class BleWorld:
    """Accessory + real BleController/BlePairing with establish_connection patched."""

    def __init__(self, rng, cached=True, config_num=3):
        from aiohomekit.characteristic_cache import CharacteristicCacheMemory
        from aiohomekit.controller.ble import pairing as pairing_mod
        from aiohomekit.controller.ble.controller import BleController
        from aiohomekit.controller.ble.manufacturer_data import HomeKitAdvertisement
        from aiohomekit.model.categories import Categories
        from aiohomekit.model.status_flags import StatusFlags
        from bleak.backends.device import BLEDevice

        self.rng = rng
        self.accessory = BleAccessory(rng)
        self.cache = CharacteristicCacheMemory()
        pd = self.accessory.pairing_data()
        if cached:
            self.cache.async_create_or_update_map(pd["AccessoryPairingID"], config_num, entity_map(self.accessory.chars), None, 5)
        self.controller = BleController(char_cache=self.cache)
        self._mod = pairing_mod
        self._orig = pairing_mod.establish_connection
        world = self

        async def establish_connection(device, name, disconnected_callback, max_attempts=None, use_services_cache=False, ble_device_callback=None):
            await asyncio.sleep(0)
            c = FakeBleClient(world.accessory, len(world.accessory.clients), disconnected_callback)
            world.accessory.clients.append(c)
            return c

        pairing_mod.establish_connection = establish_connection
        device = BLEDevice("AA:BB:CC:DD:EE:01", "Sim BLE", {})
        desc = HomeKitAdvertisement(name="Sim BLE", id=pd["AccessoryPairingID"], category=Categories(5), status_flags=StatusFlags(0), config_num=config_num,
                                    state_num=5, setup_hash=b"", address="AA:BB:CC:DD:EE:01")
        self.controller.discoveries = {}
        self.pairing = pairing_mod.BlePairing(self.controller, pd, device=device, description=desc)
        self.controller.pairings[pd["AccessoryPairingID"]] = self.pairing

    async def close(self):
        try:
            await self.pairing.shutdown()
        except Exception:  # noqa: BLE001
            pass
        for _ in range(3):
            await asyncio.sleep(0)
        self._mod.establish_connection = self._orig


# ---------------------------------------------------------------------------------------------
# C01: key install on BLE (full verify, then resumed session)
# ---------------------------------------------------------------------------------------------


async def c01_sessions(ctx) -> None:
    for idx in range(ctx.pick(12, 100)):
        if not ctx.mine(idx):
            continue
        rng = ctx.grng("C01.ble", idx)
        w = BleWorld(rng)
        replay = {"kind": "ble", "idx": idx}
        ctx.case("ble-e2e", idx, sample={"kind": "ble-end-to-end (verify, request, disconnect, resume, request)"}, kind="ble")
        try:
            try:
                r1 = await asyncio.wait_for(w.pairing.get_characteristics([(1, 11)]), 120)
                await w.pairing.close()
                r2 = await asyncio.wait_for(w.pairing.get_characteristics([(1, 14)]), 120)
            except Exception as ex:  # noqa: BLE001
                acc = w.accessory
                ctx.violation(f"ble-session-fails-{type(ex).__name__}", f"honest BLE session failed: {ex!r}; sessions={len(acc.sessions)} decrypt_errors={[s.decrypt_errors for s in acc.sessions]}"
                              f" m3={[e.m3_verdict for e in acc.exchanges]}", replay)
                continue
            acc = w.accessory
            if r1 != {(1, 11): {"value": 50}} or r2 != {(1, 14): {"value": 99}}:
                ctx.violation("ble-session-keys-mismatch", f"reads returned {r1!r} / {r2!r}", replay)
                continue
            if len(acc.sessions) != 2 or any(s.decrypt_errors for s in acc.sessions):
                ctx.violation("ble-session-count", f"{len(acc.sessions)} sessions, decrypt errors {[s.decrypt_errors for s in acc.sessions]}", replay)
                continue
            if not acc.exchanges[-1].resumed:
                ctx.count("ble_second_session_not_resumed")
            else:
                ctx.count("ble_resumed_sessions")
                if acc.sessions[0].c2a_key == acc.sessions[1].c2a_key:
                    ctx.violation("ble-resume-reuses-key", "the resumed session uses the previous session's key", replay)
                    continue
            ctx.count("ble_end_to_end_sessions")
        finally:
            await w.close()
        # ---- an impostor answers pair-verify (forged M2); the operation fails - and so does the NEXT one on the same link:
        # nothing but pair-verify ever reaches the unverified peer ----
        w = BleWorld(ctx.grng("C01.ble-impostor", idx))
        w.accessory.verify_mode = "bad_sig"
        w.accessory.allow_resume = False
        replay = {"kind": "ble", "idx": idx}
        ctx.case("ble-impostor", idx, sample={"kind": "ble impostor, two operations on the link"}, kind="ble")
        try:
            outcomes = []
            for n in range(3):
                try:
                    r = await asyncio.wait_for(w.pairing.get_characteristics([(1, 11)]), 120)
                    outcomes.append(("returned", r))
                except Exception as ex:  # noqa: BLE001
                    outcomes.append(("raised", type(ex).__name__))
            acc = w.accessory
            leaked = [(r["opcode"], r["iid"]) for r in acc.requests if r["iid"] != 21]
            if leaked or acc.sessions or any(o[0] == "returned" for o in outcomes):
                ctx.violation("request-sent-to-unverified-peer", f"BLE: pair-verify was answered with a forged M2; operations ended {outcomes}; the unverified peer received HAP requests (opcode, iid) {leaked[:4]} (sessions installed: {len(acc.sessions)})", replay)
            else:
                ctx.count("ble_impostor_probes")
        finally:
            await w.close()
        # ---- an honest session ends (closed cleanly / disconnect() raising / dropped by the peer); whoever answers on the NEXT link
        # has to prove itself again: an impostor there gets pair-verify and nothing else ----
        from bleak.exc import BleakError

        for end in ("close", "close-raises-EOFError", "close-raises-BleakError", "peer-drop", "close-after-operation-raises"):
            w = BleWorld(ctx.grng("C01.ble-relink", idx, end))
            replay = {"kind": "ble", "idx": idx, "end": end}
            ctx.case("ble-relink", idx, end, sample={"kind": "ble honest session, link ends, impostor on the next link", "end": end}, kind="ble")
            try:
                acc = w.accessory
                try:
                    r1 = await asyncio.wait_for(w.pairing.get_characteristics([(1, 11)]), 120)
                except Exception as ex:  # noqa: BLE001
                    ctx.violation(f"ble-session-fails-{type(ex).__name__}", f"honest BLE session failed: {ex!r}", replay)
                    continue
                client = acc.clients[-1]
                try:
                    if end == "close":
                        await w.pairing.close()
                    elif end == "peer-drop":
                        await client._drop()
                    else:
                        client.disconnect_fault = EOFError() if "EOFError" in end or "operation" in end else BleakError("Not connected")
                        if "operation" in end:
                            await w.pairing.close_after_operation()
                        else:
                            await w.pairing.close()
                except Exception as ex:  # noqa: BLE001 - how close() itself ends is not judged here
                    ctx.count("ble_relink_close_raised_" + type(ex).__name__)
                for _ in range(3):
                    await asyncio.sleep(0)
                acc.verify_mode = "bad_sig"
                acc.allow_resume = False
                acc.identity.sessions.clear()
                n_req, n_sess, n_clients = len(acc.requests), len(acc.sessions), len(acc.clients)
                outcomes = []
                for n in range(2):
                    try:
                        r = await asyncio.wait_for(w.pairing.get_characteristics([(1, 11)]), 120)
                        outcomes.append(("returned", r))
                    except Exception as ex:  # noqa: BLE001
                        outcomes.append(("raised", type(ex).__name__))
                leaked = [(r["opcode"], r["iid"]) for r in acc.requests[n_req:] if r["iid"] != 21]
                raw = [u for u in acc.unverified_writes if u[0] >= n_clients]
                if len(acc.clients) == n_clients:
                    ctx.count("ble_relink_no_new_link")  # nothing to judge: the controller never reached the impostor
                elif leaked or raw or len(acc.sessions) != n_sess or any(o[0] == "returned" for o in outcomes):
                    ctx.violation("request-sent-to-unverified-peer", f"BLE: after the session ended by {end}, an impostor answered on the next link (forged M2); operations ended {outcomes}; "
                                  f"the unverified peer received HAP requests {leaked[:4]} / raw writes (link, iid, bytes) {raw[:4]} (new sessions: {len(acc.sessions) - n_sess})", replay)
                else:
                    ctx.count("ble_relink_impostor_probes")
            finally:
                await w.close()


# ---------------------------------------------------------------------------------------------
# C04: add / remove pairing on BLE
# ---------------------------------------------------------------------------------------------


async def c04_pairings(ctx, cells) -> None:
    from aiohomekit.exceptions import HomeKitException

    for idx, cell in enumerate(cells):
        if not ctx.mine(idx):
            continue
        op, err, st, extra = cell
        rng = ctx.grng("C04.ble", idx)
        w = BleWorld(rng)
        items = ([] if st is None else [(6, bytes([st]) if isinstance(st, int) else bytes(st))]) + ([] if err is None else [(7, err)])
        if extra:
            items += [(1, b"other-controller"), (3, bytes(32)), (11, b"\x01")]
        w.accessory.pairings_reply = items
        replay = {"ble_cell": [op, err, st, extra]}
        ctx.case("ble", op, repr(err), st, extra, sample={"transport": "ble", "op": op, "error": err, "state": st, "extra_fields": extra}, kind="ble-" + op)
        desc = f"ble {op}_pairing reply error={None if err is None else err.hex() or '<empty>'} state={st} extra={extra}"
        try:
            if idx % 2:
                # the SETTLED state of a session: some operation has already run on it (per-object state such as a pending
                # restore-after-reconnect is gone) before the pairing is changed
                try:
                    await asyncio.wait_for(w.pairing.get_characteristics([(1, 11)]), 120)
                    ctx.count("ble_pairings_cells_on_settled_session")
                except Exception as ex:  # noqa: BLE001
                    ctx.mark_inconclusive(f"C04 BLE harness: warm-up read failed: {ex!r}")
                    continue
            try:
                if op == "add":
                    res = await asyncio.wait_for(w.pairing.add_pairing("other-controller", "11" * 32, "User"), 120)
                else:
                    res = await asyncio.wait_for(w.pairing.remove_pairing("other-controller"), 120)
            except HomeKitException:
                ctx.count("ble_pairings_cells")
                continue
            except Exception as ex:  # noqa: BLE001
                ctx.violation(f"ble-{op}-pairing-non-library-exception", f"{desc}: raised {type(ex).__name__}: {ex}", replay)
                continue
            ctx.violation(f"ble-{op}-pairing-reported-done", f"{desc}: returned {res!r}", replay)
        finally:
            await w.close()


# ---------------------------------------------------------------------------------------------
# C13: BLE writes with a per-iid status script
# ---------------------------------------------------------------------------------------------


async def c13_part(ctx) -> None:
    import itertools

    writable = {10: True, 11: 42, 12: 3, 13: 9}
    statuses = [0, 1, 2, 3, 4, 5, 6]
    idx = 0
    combos = [c for n in (1, 2) for c in itertools.permutations(list(writable.items()), n)] + [tuple(list(writable.items())[:3])]
    # the remaining wire formats (32-bit float, 32 / 64-bit integers, UTF-8 text beyond ASCII), one item each
    combos += [((23, 70000),), ((24, 21.5),), ((25, 2**40 + 3),), ((15, "h\u00e9llo \u706f"),), ((23, 2**32 - 1), (24, -0.25))]
    # a characteristic WITHOUT write permission inside the call (rejected by the library itself, nothing is sent for it): the
    # other items of the same call are still written and reported on their own merits
    read_only = {14: 5, 3: "x"}
    ro_combos = [((14, 5), (10, True)), ((14, 5), (10, True), (11, 42)), ((10, True), (14, 5), (11, 42)), ((3, "x"), (13, 9)), ((11, 42), (14, 5)), ((14, 5),)]
    for combo in combos + ro_combos:
        for vec in (itertools.product(statuses, repeat=len(combo)) if combo not in ro_combos else [tuple(0 for _ in combo)]):
            idx += 1
            if not ctx.mine(idx):
                continue
            if len(combo) == 3 and sum(1 for v in vec if v) > 1 and ctx.quick:
                continue
            rng = ctx.grng("C13.ble", idx)
            w = BleWorld(rng)
            notes = []
            # other consumers share the pairing: some of them raise in their callbacks (before and after the one judged here)
            for _ in range(2):
                w.pairing.dispatcher_connect(_raising_listener())
            w.pairing.dispatcher_connect(lambda ev: notes.append(ev) if ev else None)
            w.pairing.dispatcher_connect(_raising_listener())
            def fold_back(ev, pairing=w.pairing):
                # a realistic consumer (Home Assistant does this): fold every notified change into the pairing's model, so a later
                # write of the value the model already holds is still a write the accessory accepted
                try:
                    if ev and pairing.accessories:
                        pairing.accessories.process_changes(ev)
                except Exception:  # noqa: BLE001 - ids unknown to the model
                    pass

            w.pairing.dispatcher_connect(fold_back)
            acc = w.accessory
            for (iid, _), s in zip(combo, vec):
                if s:
                    op = 0x04 if "tw" in acc.chars[iid][3] else 0x02
                    acc.status_script[(op, iid)] = s
            writes = [(1, iid, v) for iid, v in combo]
            ctx.case("ble-write", tuple(writes), vec, nontrivial=any(vec), sample={"transport": "ble", "op": "write", "writes": writes, "pdu_statuses": list(vec)}, kind="ble-write")
            replay = {"t": "ble", "writes": writes, "vec": list(vec)}
            try:
                failed = None
                try:
                    res = await asyncio.wait_for(w.pairing.put_characteristics(writes), 300)
                except Exception as ex:  # noqa: BLE001
                    failed = ex
                    res = None
                seen = {}
                for ev in notes:
                    seen.update(ev)
                first_reject = next((k for k, s in enumerate(vec) if s), None)
                if failed is not None:
                    if first_reject is None:
                        ctx.violation(f"ble-write-raises-{type(failed).__name__}", f"{writes}: {failed!r}", replay)
                        continue
                    # the call failed at the first rejected item: nothing rejected may have been notified
                    bad = [iid for (_, iid, _), s in zip(writes, vec) if s and (1, iid) in seen]
                    if bad:
                        ctx.violation("ble-rejected-write-notified", f"{writes} statuses {vec}: listeners saw {seen!r}", replay)
                        continue
                    # ... and everything the accessory accepted BEFORE the failing item was really written: readable ones are notified
                    lost = [iid for k, ((_, iid, v), s) in enumerate(zip(writes, vec))
                            if k < first_reject and not s and "pr" in acc.chars[iid][3] and seen.get((1, iid)) != {"value": v}]
                    if lost:
                        ctx.violation("ble-accepted-write-before-failure-not-notified", f"{writes} statuses {vec}: accessory accepted {lost} before rejecting a later item; listeners saw {seen!r}", replay)
                        continue
                    ctx.count("ble_writes_judged")
                    continue
                bad = None
                for (aid, iid, v), s in zip(writes, vec):
                    got = (res or {}).get((aid, iid))
                    isread = "pr" in acc.chars[iid][3]
                    if iid in read_only:
                        s = -1  # rejected locally
                        if any(r["opcode"] in (0x02, 0x04) and r["iid"] == iid for r in acc.requests):
                            bad = f"a write for {iid} (no write permission) was sent to the accessory"
                            break
                        ctx.count("ble_local_rejects_judged")
                    elif not s and not any(r["opcode"] in (0x02, 0x04) and r["iid"] == iid for r in acc.requests):
                        bad = f"the write for {iid} never reached the accessory"
                        break
                    if s:
                        if got is None or not got.get("status"):
                            bad = f"rejected {iid} (PDU status {s}) presented as written: {got!r}"
                        elif (aid, iid) in seen:
                            bad = f"rejected {iid} notified"
                    else:
                        # ground truth at the accessory: the value bytes it received are the value in the characteristic's
                        # own wire format (HAP-BLE: little-endian integers of the declared width, 32-bit floats, UTF-8)
                        fmt = acc.chars[iid][2]
                        stored = acc.values.get(iid)
                        want_raw = struct.pack("<" + PACK[fmt], v) if fmt in PACK else (v.encode() if isinstance(v, str) else None)
                        if want_raw is not None and isinstance(stored, tuple) and stored[0] == "raw" and bytes(stored[1] or b"") != want_raw:
                            bad = f"accepted {iid} ({fmt}): the accessory received value bytes {bytes(stored[1] or b'').hex()} for {v!r}, the format's encoding is {want_raw.hex()}"
                            break
                        if got is not None and got.get("status"):
                            bad = f"accepted {iid} reported as {got!r}"
                        elif isread and seen.get((aid, iid)) != {"value": v}:
                            bad = f"accepted readable {iid} not notified ({seen!r})"
                        elif not isread and (aid, iid) in seen:
                            bad = f"write-only {iid} notified"
                if bad:
                    ctx.violation("ble-write-outcome-differs", f"{writes} statuses {vec}: {bad}", replay)
                else:
                    ctx.count("ble_writes_judged")
            finally:
                await w.close()


async def c13_replay(ctx, d) -> None:
    ctx.shard, ctx.nshards = 0, 1
    await c13_part(ctx)
