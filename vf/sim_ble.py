"""Simulated HAP-BLE accessory behind a fake GATT client (no bleak back-end, no D-Bus).

Low level (C15, C17): `GattEndpointSim` + `FakeGattClient` implement exactly the client surface that
aiohomekit.controller.ble.client uses (determine_fragment_size, write_gatt_char, read_gatt_char, address).
The accessory side is built on vf.ref (independent PDU / TLV / crypto reference).
"""

from __future__ import annotations

import asyncio

import struct

from vf.ref import blepdu


class FakeDescriptor:
    def __init__(self, handle: int, uuid: str, value: bytes):
        self.handle = handle
        self.uuid = uuid
        self.value = value


class FakeHandle:
    """Stands in for bleak's BleakGATTCharacteristic (hashable, identity-compared)."""

    def __init__(self, uuid: str, handle: int, properties=("read", "write"), max_wwr: int | None = None):
        self.uuid = uuid
        self.handle = handle
        self.properties = list(properties)
        self.max_write_without_response_size = max_wwr
        self.descriptors: list[FakeDescriptor] = []
        self.service_uuid = None

    def get_descriptor(self, uuid):
        for d in self.descriptors:
            if str(d.uuid).lower() == str(uuid).lower():
                return d
        return None

    def __repr__(self):
        return f"FakeHandle({self.uuid}, h={self.handle})"


class GattEndpointSim:
    """Accessory side of one HAP characteristic: reassembles requests, serves response fragments.

    responder(opcode, tid, iid, body|None) -> (status, body|None, cuts, options)
      options: dict(first_control=, cont_control=, tid_override_first=, tid_override_cont=)
    decrypt/encrypt: optional callables modelling the secure session (raise on failure).
    """

    def __init__(self, responder, decrypt=None, encrypt=None):
        self.responder = responder
        self.decrypt = decrypt
        self.encrypt = encrypt
        self.assembler = blepdu.RequestAssembler()
        self.pending: list[bytes] = []
        self.requests: list[dict] = []
        self.raw_writes: list[bytes] = []
        self.errors: list[str] = []

    def on_write(self, data: bytes) -> None:
        data = bytes(data)
        self.raw_writes.append(data)
        if self.decrypt:
            data = self.decrypt(data)
        try:
            self.assembler.feed(data)
        except blepdu.RefPduError as ex:
            self.errors.append(str(ex))
            self.assembler = blepdu.RequestAssembler()
            return
        if self.assembler.complete:
            a = self.assembler
            self.assembler = blepdu.RequestAssembler()
            body = a.body if a.expected is not None else None
            req = {"opcode": a.opcode, "tid": a.tid, "iid": a.iid, "body": body, "fragments": a.fragments}
            self.requests.append(req)
            status, rbody, cuts, opts = self.responder(a.opcode, a.tid, a.iid, body)
            opts = dict(opts or {})
            frags = blepdu.encode_response(
                a.tid,
                status,
                rbody,
                cuts,
                first_control=opts.get("first_control", 0x02),
                cont_control=opts.get("cont_control", 0x82),
            )
            if "tid_override_first" in opts:
                f = bytearray(frags[0])
                f[1] = opts["tid_override_first"]
                frags[0] = bytes(f)
            if "tid_override_cont" in opts and len(frags) > 1:
                k = opts.get("cont_index", 1)
                k = min(k, len(frags) - 1)
                f = bytearray(frags[k])
                f[1] = opts["tid_override_cont"]
                frags[k] = bytes(f)
            if self.encrypt:
                frags = [self.encrypt(f) for f in frags]
            self.pending = frags

    def on_read(self) -> bytes:
        if not self.pending:
            self.errors.append("read with no pending response")
            return b""
        return self.pending.pop(0)


class FakeGattClient:
    """The subset of AIOHomeKitBleakClient that ble/client.py touches."""

    def __init__(self, negotiated_size: int, address: str = "AA:BB:CC:DD:EE:FF"):
        self.address = address
        self.negotiated_size = negotiated_size
        self.endpoints: dict[FakeHandle, GattEndpointSim] = {}
        self.write_log: list[tuple[FakeHandle, bytes, bool]] = []
        self.read_count = 0
        self.is_connected = True
        self.real_helper = False
        self.cooperative = False

    def determine_fragment_size(self, additional_overhead_size: int, handle) -> int:
        if self.real_helper:
            # the library's own computation (ble/bleak.py) for a link whose ATT_MTU is negotiated_size + 3 and whose bleak
            # characteristic object reports handle.max_write_without_response_size; what one write can carry on that link
            # is negotiated_size bytes (the callers of this class hold every write against that)
            from aiohomekit.controller.ble import bleak as bleak_mod

            return bleak_mod._determine_fragment_size(self.address, self.negotiated_size + 3, additional_overhead_size, handle)
        return self.negotiated_size - additional_overhead_size

    async def write_gatt_char(self, handle, data, response=None) -> None:
        if self.cooperative:
            await asyncio.sleep(0)  # a radio round trip: other tasks run meanwhile
        self.write_log.append((handle, bytes(data), response))
        self.endpoints[handle].on_write(data)

    async def read_gatt_char(self, handle) -> bytearray:
        if self.cooperative:
            await asyncio.sleep(0)
        self.read_count += 1
        return bytearray(self.endpoints[handle].on_read())

    # (used by drive_pairing_state_machine: the pairing characteristic is the single endpoint of this client)
    async def get_characteristic(self, service_uuid, characteristic_uuid, iid=None):
        return next(iter(self.endpoints))

    async def get_characteristic_iid(self, char):
        return getattr(char, "iid", 11)
