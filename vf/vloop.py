"""Virtual-time asyncio event loop on real selector transports.

* time() is a virtual clock; when no I/O is ready and no callback is queued the selector wrapper advances the
  clock to the next timer instead of sleeping (an hour of back-off costs microseconds, timer order is exact).
* real sockets (socketpair) are polled with timeout 0, so real asyncio transports run unmodified.
* select(None) with nothing ready = the system would block forever: raises HangError out of the loop.
* settle(): run until no immediate work remains (quiescent point) WITHOUT advancing virtual time.
* every "exception in callback" / "Task exception was never retrieved" / fatal transport error reported to the
  loop's exception handler is recorded in loop.captured.
"""

from __future__ import annotations

import asyncio
import selectors
import sys


class HangError(RuntimeError):
    pass


class _VirtualSelector:
    def __init__(self, real: selectors.BaseSelector, loop: "VirtualLoop"):
        self._real = real
        self._loop = loop

    def select(self, timeout=None):
        events = self._real.select(0)
        loop = self._loop
        loop.iterations += 1
        if loop.at_iteration:
            fn = loop.at_iteration.pop(loop.iterations, None)
            if fn is not None:
                loop.call_soon(fn)
        if events:
            loop.last_io_iteration = loop.iterations
            return events
        if timeout is None:
            raise HangError("virtual loop hang: nothing scheduled, nothing ready, no I/O")
        if timeout > 0:
            loop._vtime += timeout
        return events

    def __getattr__(self, name):
        return getattr(self._real, name)


class VirtualLoop(asyncio.SelectorEventLoop):
    def __init__(self):
        super().__init__(selectors.DefaultSelector())
        self._vtime = 1000.0
        self.iterations = 0
        self.last_io_iteration = 0
        self._selector = _VirtualSelector(self._selector, self)
        self.captured: list[dict] = []
        self.at_iteration: dict[int, object] = {}  # absolute iteration index -> callable (failpoint / sweep trigger)
        self.transport_factory = None
        self.set_exception_handler(self._capture)

    def time(self) -> float:
        return self._vtime

    def _capture(self, loop, context) -> None:
        exc = context.get("exception")
        self.captured.append(
            {
                "message": context.get("message"),
                "exception": exc,
                "exception_type": type(exc).__name__ if exc is not None else None,
                "vtime": self._vtime,
            }
        )

    def _make_socket_transport(self, sock, protocol, waiter=None, *, extra=None, server=None):
        if self.transport_factory is not None:
            return self.transport_factory(self, sock, protocol, waiter, extra, server)
        return super()._make_socket_transport(sock, protocol, waiter, extra=extra, server=server)


async def settle(rounds: int = 4, limit: int = 20000) -> None:
    """Run until quiescent: for `rounds` consecutive iterations nothing else is queued and no I/O was ready."""
    loop = asyncio.get_running_loop()
    idle = 0
    n = 0
    while idle < rounds:
        await asyncio.sleep(0)
        n += 1
        if n > limit:
            raise HangError("settle(): the system never became quiescent (busy loop?)")
        busy = len(loop._ready) > 0 or loop.last_io_iteration == loop.iterations
        idle = 0 if busy else idle + 1


def vnow() -> float:
    return asyncio.get_running_loop().time()


def run(coro, *, debug: bool = False):
    """Run a scenario coroutine on a fresh VirtualLoop; returns its result. Leftover tasks are cancelled."""
    loop = VirtualLoop()
    loop.set_debug(debug)
    asyncio.set_event_loop(loop)
    unraisable = []
    old_hook = sys.unraisablehook
    sys.unraisablehook = lambda u: unraisable.append(u)
    try:
        result = loop.run_until_complete(coro)
        return result
    finally:
        try:
            pending = [t for t in asyncio.all_tasks(loop) if not t.done()]
            for t in pending:
                t.cancel()
            if pending:
                try:
                    loop.run_until_complete(asyncio.gather(*pending, return_exceptions=True))
                except HangError:
                    pass
            try:
                loop.run_until_complete(loop.shutdown_asyncgens())
            except HangError:
                pass
        finally:
            sys.unraisablehook = old_hook
            asyncio.set_event_loop(None)
            loop.close()
