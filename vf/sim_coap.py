"""Simulated HAP-over-CoAP (Thread) accessory behind a fake aiocoap Context.

* `FakeContext` stands in for aiocoap.Context (bound to aiohomekit.controller.coap.connection.Context for the scenario):
  create_client_context / create_server_context return an object whose .request(msg).response is answered by the
  `CoapAccessory` (reference pair-verify on /2, encrypted PDU batches on /, independent AEAD + counters).
* `RecordingAead` wraps a cryptography ChaCha20Poly1305 object and logs every encrypt/decrypt (key id, nonce, ok) -
  the CoAP transport's AEAD monitor (C06).
"""

from __future__ import annotations

import asyncio
import hashlib
import struct

from cryptography.exceptions import InvalidTag
from cryptography.hazmat.primitives.ciphers.aead import ChaCha20Poly1305

from vf.ref import coapdb
from vf.ref import coappdu as refcoap
from vf.ref import pairverify as refpv
from vf.ref import structcodec as refstruct
from vf.ref import tlv8 as reftlv



def _raising_listener():
    def bad(ev):
        raise RuntimeError("a consumer's callback fails")

    return bad

def nonce(counter: int) -> bytes:
    return b"\x00\x00\x00\x00" + struct.pack("<Q", counter)


# ---------------------------------------------------------------------------------------------
# fake aiocoap
# ---------------------------------------------------------------------------------------------


class _Req:
    def __init__(self, fut):
        self.response = fut


class FakeContext:
    """One aiocoap context. handler(msg) -> awaitable Message (may raise / never complete)."""

    instances: list = []

    def __init__(self, handler, site=None):
        self.handler = handler
        self.site = site
        self.shutdowns = 0
        self.requests = 0

    def request(self, msg):
        self.requests += 1
        if self.shutdowns:
            # like aiocoap: a context that was shut down serves nothing any more
            from aiocoap.error import LibraryShutdown

            fut = asyncio.get_running_loop().create_future()
            fut.set_exception(LibraryShutdown())
            return _Req(fut)
        return _Req(asyncio.ensure_future(self.handler(msg)))

    async def shutdown(self):
        self.shutdowns += 1


class ContextFactory:
    """Replaces the `Context` name inside aiohomekit.controller.coap.connection."""

    def __init__(self, accessory):
        self.accessory = accessory
        self.created: list[FakeContext] = []

    async def create_client_context(self):
        c = FakeContext(self.accessory.handle)
        self.created.append(c)
        return c

    async def create_server_context(self, site, bind=None):
        c = FakeContext(self.accessory.handle, site)
        self.accessory.site = site
        self.created.append(c)
        return c

    def install(self):
        from aiohomekit.controller.coap import connection as mod

        self._mod = mod
        self._orig = mod.Context
        mod.Context = self
        return self

    def remove(self):
        self._mod.Context = self._orig


# ---------------------------------------------------------------------------------------------
# accessory
# ---------------------------------------------------------------------------------------------


def default_chars():
    # iid -> (type, format, properties, value)
    return {
        2: (0x14, "bool", 0x20, None),  # identify (write only)
        3: (0x23, "string", 0x10, "Sim CoAP"),
        10: (0x25, "bool", 0x10 | 0x20 | 0x80, False),
        11: (0x08, "int", 0x10 | 0x20 | 0x80, 50),
        12: (0xFE01, "uint8", 0x20, None),  # write only
        13: (0xFE02, "float", 0x10 | 0x80, 21.5),
        14: (0xFE03, "uint16", 0x10 | 0x20, 7),
        20: (0x50, "data", 0x10 | 0x20, b""),  # pairings
    }


class CoapAccessory:
    def __init__(self, rng, pairing_id="AA:BB:CC:0A:0B:0C", ios_pairing_id="coap-controller"):
        from cryptography.hazmat.primitives.asymmetric import ed25519

        self.rng = rng
        self.identity = refpv.AccessoryIdentity(pairing_id.encode(), rng.randbytes(32))
        self.ios_seed = rng.randbytes(32)
        self.ios_ltpk = refpv.raw_pub(ed25519.Ed25519PrivateKey.from_private_bytes(self.ios_seed))
        self.ios_pairing_id = ios_pairing_id
        self.identity.controllers[ios_pairing_id.encode()] = self.ios_ltpk
        self.exchange = None
        self.session = None  # dict(recv=AEAD, send=AEAD, event=AEAD, rc, sc, ec)
        self.chars = default_chars()
        self.status_script: dict[tuple[int, int], int] = {}  # (opcode, iid) -> PDU status
        self.requests: list = []
        self.verify_mode = "ok"
        self.site = None
        self.posts_without_session = 0
        self.verify_messages = 0
        self.subscribed: set[int] = set()
        self.decrypt_errors = 0

    def pairing_data(self):
        return {
            "AccessoryPairingID": self.identity.pairing_id.decode(),
            "AccessoryLTPK": self.identity.ltpk.hex(),
            "iOSPairingId": self.ios_pairing_id,
            "iOSDeviceLTSK": self.ios_seed.hex(),
            "iOSDeviceLTPK": self.ios_ltpk.hex(),
            "AccessoryIP": "fd00::1",
            "AccessoryPort": 5683,
            "Connection": "CoAP",
        }

    def database(self) -> bytes:
        def ch(iid):
            t, fmt, props, _ = self.chars[iid]
            return {"characteristic": {"type": t, "instance_id": iid, "properties": props, "presentation_format": coapdb.presentation_format(fmt)}}

        info = {"service": {"type": 0x3E, "instance_id": 1, "_characteristics": [ch(2), ch(3)]}}
        bulb = {"service": {"type": 0x43, "instance_id": 9, "_characteristics": [ch(10), ch(11), ch(12), ch(13), ch(14)]}}
        pairing = {"service": {"type": 0x55, "instance_id": 19, "_characteristics": [ch(20)]}}
        return refstruct.encode_struct(coapdb.DB_SCHEMA, {"_accessories": [{"accessory": {"instance_id": 1, "_services": [info, bulb, pairing]}}]})

    async def handle(self, msg):
        from aiocoap import Message
        from aiocoap.numbers.codes import Code

        path = "/".join(msg.opt.uri_path)
        if path == "2":
            self.verify_messages += 1
            items = reftlv.decode(bytes(msg.payload))
            state = dict(items).get(6)
            if state == b"\x01":
                self.exchange = refpv.VerifyExchange(self.identity, self.rng.randbytes(32))
                reply = self.exchange.m1(items)
                if self.verify_mode == "bad_sig":
                    reply = [(t, (v[:-1] + bytes([v[-1] ^ 1])) if t == 5 else v) for t, v in reply]
            else:
                reply = self.exchange.m3(items)
                if self.exchange.verified:
                    ex = self.exchange
                    self.session = {
                        "recv": ChaCha20Poly1305(ex.controller_to_accessory_key), "send": ChaCha20Poly1305(ex.accessory_to_controller_key),
                        "event": ChaCha20Poly1305(ex.event_key), "rc": 0, "sc": 0, "ec": 0,
                    }
            return Message(code=Code.CHANGED, payload=reftlv.encode(reply))
        if path == "" and self.session is None:
            # ground truth: an encrypted request handed to a peer that has NOT completed pair-verify
            self.posts_without_session += 1
        if path == "" and self.session is not None:
            s = self.session
            try:
                plain = s["recv"].decrypt(nonce(s["rc"]), bytes(msg.payload), b"")
            except InvalidTag:
                self.decrypt_errors += 1
                return Message(code=Code.NOT_FOUND, payload=b"")
            s["rc"] += 1
            reqs = refcoap.decode_requests(plain)
            self.requests.append(reqs)
            out = b""
            for r in reqs:
                out += self.answer(r)
            ct = s["send"].encrypt(nonce(s["sc"]), out, b"")
            s["sc"] += 1
            return Message(code=Code.CHANGED, payload=ct)
        return Message(code=Code.NOT_FOUND, payload=b"")

    def answer(self, r) -> bytes:
        op, iid, tid = r["opcode"], r["iid"], r["tid"]
        st = self.status_script.get((op, iid), 0)
        if st:
            return refcoap.encode_response(tid, st)
        if op == 0x09:
            return refcoap.encode_response(tid, 0, self.database())
        if op == 0x03:  # read
            if iid not in self.chars:
                return refcoap.encode_response(tid, 4)
            t, fmt, props, value = self.chars[iid]
            if not props & 0x10:
                return refcoap.encode_response(tid, 6)
            body = reftlv.encode([(1, coapdb.pack_value(fmt, value))]) if value not in (None, b"") else b""
            return refcoap.encode_response(tid, 0, body)
        if op == 0x02:  # write
            if iid not in self.chars:
                return refcoap.encode_response(tid, 4)
            t, fmt, props, value = self.chars[iid]
            raw = dict(reftlv.decode(r["body"])).get(1, b"")
            self.chars[iid] = (t, fmt, props, ("raw", raw))
            return refcoap.encode_response(tid, 0)
        if op == 0x0B:
            self.subscribed.add(iid)
            return refcoap.encode_response(tid, 0)
        if op == 0x0C:
            self.subscribed.discard(iid)
            return refcoap.encode_response(tid, 0)
        return refcoap.encode_response(tid, 1)

    def event_message(self, items, counter=None, corrupt=False):
        """Encrypted event PUT payload for [(iid, value bytes)]."""
        s = self.session
        plain = b"".join(refcoap.encode_event_item(iid, reftlv.encode([(1, v)]) if v else b"") for iid, v in items)
        c = s["ec"] if counter is None else counter
        ct = s["event"].encrypt(nonce(c), plain, b"")
        if counter is None:
            s["ec"] += 1
        if corrupt:
            ct = ct[:-1] + bytes([ct[-1] ^ 1])
        return ct


# ---------------------------------------------------------------------------------------------
# AEAD monitor for the CoAP transport
# ---------------------------------------------------------------------------------------------


class RecordingAead:
    """Stand-in for cryptography's ChaCha20Poly1305 that logs every call (delegates to the real primitive)."""

    def __init__(self, key: bytes, name: str, log: list):
        self._real = ChaCha20Poly1305(key)
        self.name = name
        self.log = log

    def encrypt(self, n, data, aad):
        out = self._real.encrypt(n, data, aad)
        self.log.append({"key": self.name, "op": "encrypt", "nonce": bytes(n), "ct": hashlib.sha256(out).digest()})
        return out

    def decrypt(self, n, data, aad):
        try:
            out = self._real.decrypt(n, data, aad)
        except InvalidTag:
            self.log.append({"key": self.name, "op": "decrypt", "nonce": bytes(n), "ok": False, "ct": hashlib.sha256(bytes(data)).digest()})
            raise
        self.log.append({"key": self.name, "op": "decrypt", "nonce": bytes(n), "ok": True, "ct": hashlib.sha256(bytes(data)).digest()})
        return out


# ---------------------------------------------------------------------------------------------
# C01: key install end to end
# ---------------------------------------------------------------------------------------------


async def c01_sessions(ctx) -> None:
    from aiocoap import Message
    from aiocoap.numbers.codes import Code
    from aiohomekit.controller.coap.connection import CoAPHomeKitConnection

    for idx in range(ctx.pick(12, 100)):
        if not ctx.mine(idx):
            continue
        rng = ctx.grng("C01.coap", idx)
        acc = CoapAccessory(rng)
        fac = ContextFactory(acc).install()
        replay = {"kind": "coap", "idx": idx}
        ctx.case("coap-e2e", idx, sample={"kind": "coap-end-to-end"}, kind="coap")
        events = []

        class Owner:
            def event_received(self, ev):
                events.append(ev)

        try:
            conn = CoAPHomeKitConnection(Owner(), "fd00::1", 5683)
            try:
                await asyncio.wait_for(conn.connect(acc.pairing_data()), 60)
                res = await asyncio.wait_for(conn.read_characteristics([(1, 11), (1, 13)]), 60)
            except Exception as ex:  # noqa: BLE001
                ctx.violation(f"coap-session-fails-{type(ex).__name__}", f"honest CoAP session failed: {ex!r}; accessory m3={acc.exchange.m3_verdict if acc.exchange else None} decrypt_errors={acc.decrypt_errors}", replay)
                continue
            if acc.decrypt_errors or res.get((1, 11), {}).get("value") != 50:
                ctx.violation("coap-session-keys-mismatch", f"read result {res!r}, accessory decrypt errors {acc.decrypt_errors}", replay)
                continue
            # event key: one encrypted event through the registered resource
            site = acc.site
            resource = site._resources.get(()) if hasattr(site, "_resources") else None
            if resource is None:
                ctx.violation("coap-event-resource-missing", "no event resource registered on the server context", replay)
                continue
            put = Message(code=Code.PUT, payload=acc.event_message([(10, b"\x01")]))
            resp = await resource.render_put(put)
            if resp.code != Code.VALID or events != [{(1, 10): {"value": True}}]:
                ctx.violation("coap-event-key-mismatch", f"event answered {resp.code}, listener saw {events!r}", replay)
                continue
            ctx.count("coap_end_to_end_sessions")
            # ---- the session ends by a fault (the accessory lost power: 4.04 to the next request / a request that is never
            # answered); whoever answers afterwards has to prove itself again - an impostor gets pair-verify and nothing else
            fault = ["reboot-404", "silent", "garbage-reply"][idx % 3]
            old_session = acc.session
            acc.session = None
            hang = asyncio.Event()
            orig_handle = acc.handle
            if fault != "reboot-404":
                async def handle(msg, orig=orig_handle):
                    if "/".join(msg.opt.uri_path) == "":
                        if fault == "silent":
                            await hang.wait()
                        return Message(code=Code.CHANGED, payload=rng.randbytes(40))
                    return await orig(msg)

                acc.handle = handle
                for c in fac.created:
                    c.handler = handle
            try:
                await asyncio.wait_for(conn.read_characteristics([(1, 11)]), 120)
                ctx.violation("coap-read-succeeds-without-session", f"the accessory lost its session ({fault}); the read returned", replay)
                continue
            except Exception:  # noqa: BLE001 - the operation that meets the fault fails
                pass
            acc.handle = orig_handle
            for c in fac.created:
                c.handler = orig_handle
            acc.verify_mode = "bad_sig"
            # while the new pair-verify is in flight, somebody who recorded the OLD session's traffic sends one of its event
            # datagrams to the socket the controller has just opened: nothing is dispatched before the peer has proved itself
            events.clear()
            stale_event = old_session["event"].encrypt(nonce(old_session["ec"]), b"".join([refcoap.encode_event_item(10, reftlv.encode([(1, b"\x00")]))]), b"")
            probe = {"tried": 0, "served": 0}
            verify_handle = acc.handle

            async def handle_with_probe(msg):
                if "/".join(msg.opt.uri_path) == "2" and acc.site is not None:
                    res = acc.site._resources.get(()) if hasattr(acc.site, "_resources") else None
                    probe["tried"] += 1
                    if res is not None:
                        probe["served"] += 1
                        try:
                            await res.render_put(Message(code=Code.PUT, payload=stale_event))
                        except Exception:  # noqa: BLE001
                            pass
                return await verify_handle(msg)

            acc.handle = handle_with_probe
            for c in fac.created:
                c.handler = handle_with_probe
            posts0, verifies0 = acc.posts_without_session, acc.verify_messages
            outcomes = []
            for n in range(2):
                try:
                    # what CoAPPairing._ensure_connected does before every operation
                    if not conn.is_connected:
                        await asyncio.wait_for(conn.connect(acc.pairing_data()), 120)
                    r = await asyncio.wait_for(conn.read_characteristics([(1, 11)]), 120)
                    outcomes.append(("returned", r))
                except Exception as ex:  # noqa: BLE001
                    outcomes.append(("raised", type(ex).__name__))
            if events:
                ctx.violation("event-dispatched-before-the-peer-is-verified", f"CoAP: after the session ended by {fault}, an event datagram of the OLD session sent to the new socket while pair-verify was in flight reached the listeners: {events!r}", replay)
                continue
            ctx.count("coap_stale_event_probes", probe["tried"])
            if acc.posts_without_session != posts0 or acc.session is not None or any(o[0] == "returned" for o in outcomes) or acc.verify_messages == verifies0:
                ctx.violation("request-sent-to-unverified-peer", f"CoAP: after the session ended by {fault}, an impostor answered (pair-verify M2 does not authenticate); operations ended {outcomes}; "
                              f"pair-verify messages since: {acc.verify_messages - verifies0}, encrypted requests handed to the unverified peer: {acc.posts_without_session - posts0}", replay)
                continue
            ctx.count("coap_relink_impostor_probes")
        finally:
            fac.remove()


# ---------------------------------------------------------------------------------------------
# C13: reads / writes through the real CoAP stack
# ---------------------------------------------------------------------------------------------


async def c13_part(ctx) -> None:
    import itertools

    from aiohomekit.characteristic_cache import CharacteristicCacheMemory
    from aiohomekit.controller.coap.controller import CoAPController
    from aiohomekit.controller.coap.pairing import CoAPPairing

    rng = ctx.grng("C13.coap")
    acc = CoapAccessory(rng)
    fac = ContextFactory(acc).install()
    try:
        controller = CoAPController(char_cache=CharacteristicCacheMemory(), zeroconf_instance=None)
        pairing = CoAPPairing(controller, acc.pairing_data())
        await asyncio.wait_for(pairing.list_accessories_and_characteristics(), 60)
        notes = []
        # other consumers share the pairing: some of them raise in their callbacks (before and after the one judged here)
        for _ in range(2):
            pairing.dispatcher_connect(_raising_listener())
        pairing.dispatcher_connect(lambda ev: notes.append(ev) if ev else None)
        pairing.dispatcher_connect(_raising_listener())
        def fold_back(ev, pairing=pairing):
            # a realistic consumer (Home Assistant does this): fold every notified change into the pairing's model, so a later
            # write of the value the model already holds is still a write the accessory accepted
            try:
                if ev and pairing.accessories:
                    pairing.accessories.process_changes(ev)
            except Exception:  # noqa: BLE001 - ids unknown to the model
                pass

        pairing.dispatcher_connect(fold_back)
        readable = [10, 11, 13, 14, 3]
        write_only = [2, 12]  # a read request may name them: the accessory answers each with an error status, which is reported
        writable = {10: True, 11: 42, 12: 3, 14: 9}
        statuses = [0, 1, 2, 3, 4, 5, 6]
        idx = 0
        for n in (1, 2, 3):
            for iids in itertools.permutations(readable, n) if n < 3 else [(10, 11, 13), (13, 3, 14), (14, 10, 3)]:
                for vec in itertools.product(statuses, repeat=n):
                    idx += 1
                    if not ctx.mine(idx):
                        continue
                    acc.status_script = {(0x03, i): s for i, s in zip(iids, vec) if s}
                    ids = [(1, i) for i in iids]
                    ctx.case("coap-read", iids, vec, nontrivial=any(vec), sample={"transport": "coap", "op": "read", "ids": ids, "pdu_statuses": list(vec)}, kind="coap-read")
                    replay = {"t": "coap", "op": "read", "iids": list(iids), "vec": list(vec)}
                    try:
                        res = await asyncio.wait_for(pairing.get_characteristics(ids), 60)
                    except Exception as ex:  # noqa: BLE001
                        ctx.violation(f"coap-read-raises-{type(ex).__name__}", f"{ids} statuses {vec}: {ex!r}", replay)
                        continue
                    bad = None
                    for (aid, iid), s in zip(ids, vec):
                        got = res.get((aid, iid))
                        if s:
                            if got is None or abs(got.get("status") or 0) != s:
                                bad = f"{iid}: accessory status {s} -> {got!r}"
                        else:
                            want = acc.chars[iid][3]
                            if isinstance(want, tuple):
                                want = None
                            if got is None or "status" in got or (want is not None and got.get("value") != (want if not isinstance(want, float) else got.get("value"))):
                                bad = f"{iid}: accessory value {want!r} -> {got!r}"
                            if isinstance(want, float) and got and abs(got.get("value", 0) - want) > 1e-3:
                                bad = f"{iid}: accessory value {want!r} -> {got!r}"
                    if bad:
                        ctx.violation("coap-read-result-differs", f"read {ids} statuses {vec}: {bad}", replay)
                    else:
                        ctx.count("coap_reads_judged")
        acc.status_script = {}
        # read requests that name a WRITE-ONLY characteristic, alone or among readable ones: every requested id comes back
        for iids in [(2,), (12,), (2, 10), (10, 2), (10, 12, 11), (2, 12), (3, 2, 14)]:
            idx += 1
            if not ctx.mine(idx):
                continue
            ids = [(1, i) for i in iids]
            ctx.case("coap-read-wo", iids, sample={"transport": "coap", "op": "read", "ids": ids, "write_only": [i for i in iids if i in write_only]}, kind="coap-read")
            replay = {"t": "coap", "op": "read", "iids": list(iids), "vec": [0] * len(iids)}
            try:
                res = await asyncio.wait_for(pairing.get_characteristics(ids), 60)
            except Exception as ex:  # noqa: BLE001
                ctx.violation(f"coap-read-raises-{type(ex).__name__}", f"{ids} (write-only ids included): {ex!r}", replay)
                continue
            bad = None
            for aid, iid in ids:
                got = res.get((aid, iid))
                if got is None:
                    bad = f"requested {iid} is missing from the result"
                elif iid in write_only and not got.get("status"):
                    bad = f"write-only {iid} (accessory answered with an error status) reported as {got!r}"
                elif iid not in write_only and "status" in got and got["status"]:
                    bad = f"readable {iid} reported as {got!r}"
            if bad:
                ctx.violation("coap-read-result-differs", f"read {ids}: {bad}", replay)
            else:
                ctx.count("coap_reads_judged")
                ctx.count("coap_write_only_reads_judged")
        witems = list(writable.items())
        for n in (1, 2, 3):
            for combo in itertools.permutations(witems, n) if n < 3 else [tuple(witems[:3]), tuple(witems[1:4])]:
                for vec in itertools.product(statuses, repeat=n):
                    idx += 1
                    if not ctx.mine(idx):
                        continue
                    acc.status_script = {(0x02, i): s for (i, _), s in zip(combo, vec) if s}
                    writes = [(1, i, v) for i, v in combo]
                    notes.clear()
                    ctx.case("coap-write", tuple(writes), vec, nontrivial=any(vec), sample={"transport": "coap", "op": "write", "writes": writes, "pdu_statuses": list(vec)}, kind="coap-write")
                    replay = {"t": "coap", "op": "write", "writes": writes, "vec": list(vec)}
                    try:
                        res = await asyncio.wait_for(pairing.put_characteristics(writes), 60)
                    except Exception as ex:  # noqa: BLE001
                        if not any(vec):
                            ctx.violation(f"coap-write-raises-{type(ex).__name__}", f"{writes}: {ex!r}", replay)
                        continue
                    seen = {}
                    for ev in notes:
                        seen.update(ev)
                    bad = None
                    for (aid, iid, v), s in zip(writes, vec):
                        got = res.get((aid, iid))
                        isread = bool(acc.chars[iid][2] & 0x10)
                        if s:
                            if got is None or abs(got.get("status") or 0) != s:
                                bad = f"rejected {iid} (status {s}) reported as {got!r}"
                            elif (aid, iid) in seen:
                                bad = f"rejected {iid} notified to listeners"
                        else:
                            if got is not None and got.get("status"):
                                bad = f"accepted {iid} reported as {got!r}"
                            elif isread and seen.get((aid, iid)) != {"value": v}:
                                bad = f"accepted readable {iid}={v!r} not notified ({seen!r})"
                            elif not isread and (aid, iid) in seen:
                                bad = f"write-only {iid} notified"
                    if bad:
                        ctx.violation("coap-write-outcome-differs", f"write {writes} statuses {vec}: {bad}", replay)
                    else:
                        ctx.count("coap_writes_judged")
        acc.status_script = {}
    finally:
        fac.remove()


async def c13_replay(ctx, d) -> None:
    ctx.shard, ctx.nshards = 0, 1
    await c13_part(ctx)


# ---------------------------------------------------------------------------------------------
# C12: CoAP event bursts reach every listener once and in order
# ---------------------------------------------------------------------------------------------


async def c12_part(ctx) -> None:
    """Notifications with 1-6 entries (the SAME characteristic may occur more than once: on then off, a dragged slider) pushed
    through the real EventResource to a real CoAPPairing with two listeners, one of which raises."""
    import struct

    from aiocoap import Message
    from aiocoap.numbers.codes import Code
    from aiohomekit.characteristic_cache import CharacteristicCacheMemory
    from aiohomekit.controller.coap.controller import CoAPController
    from aiohomekit.controller.coap.pairing import CoAPPairing

    for k in range(ctx.pick(4, 60)):
        if not ctx.mine(k):
            continue
        rng = ctx.grng("C12.coap", k)
        acc = CoapAccessory(rng)
        fac = ContextFactory(acc).install()
        replay = {"t": "coap-events", "k": k}
        try:
            controller = CoAPController(char_cache=CharacteristicCacheMemory(), zeroconf_instance=None)
            pairing = CoAPPairing(controller, acc.pairing_data())
            await asyncio.wait_for(pairing.list_accessories_and_characteristics(), 60)
            got_a, got_b = [], []

            def raising(ev):
                got_a.append(ev)
                raise RuntimeError("listener failure")

            pairing.dispatcher_connect(raising)
            pairing.dispatcher_connect(lambda ev: got_b.append(ev))
            await asyncio.wait_for(pairing.subscribe([(1, 10), (1, 11), (1, 13)]), 60)
            site = acc.site
            resource = site._resources.get(()) if site is not None and hasattr(site, "_resources") else None
            if resource is None:
                ctx.mark_inconclusive("C12 CoAP slice: no event resource registered")
                return
            got_a.clear()
            got_b.clear()
            want = []
            for n in range(rng.randint(3, 10)):
                items = []
                for _ in range(rng.randint(1, 6)):
                    iid = rng.choice([10, 10, 11, 13])
                    if iid == 10:
                        v = rng.choice([True, False])
                        raw = b"\x01" if v else b"\x00"
                    elif iid == 11:
                        v = rng.randint(-1000, 1000)
                        raw = struct.pack("<i", v)
                    else:
                        raw = struct.pack("<f", rng.choice([0.5, 21.25, -3.0, 1024.0, 0.0]))
                        v = struct.unpack("<f", raw)[0]
                    items.append((iid, raw))
                    want.append({(1, iid): {"value": v}})
                ctx.case("coap-events", k, n, sample={"transport": "coap", "entries": [i for i, _ in items]}, kind="coap-events")
                if n > 0 and rng.random() < 0.35:
                    # a datagram that does not authenticate arrives in between (damaged in transit, a duplicate of an earlier
                    # notification, noise): it reaches nobody - and the notifications that follow still reach everybody
                    junk = rng.choice(["corrupt", "duplicate", "noise"])
                    s_ = acc.session
                    payload = (acc.event_message(items, counter=s_["ec"], corrupt=True) if junk == "corrupt"
                               else acc.event_message(items, counter=max(0, s_["ec"] - 1)) if junk == "duplicate" else rng.randbytes(rng.choice([1, 16, 40])))
                    try:
                        await resource.render_put(Message(code=Code.PUT, payload=payload))
                    except Exception as ex:  # noqa: BLE001 - how the refusal is expressed is C06's subject
                        ctx.count("coap_unauthentic_event_refusal_raised_" + type(ex).__name__)
                    ctx.count("coap_unauthentic_events_in_between")
                try:
                    resp = await resource.render_put(Message(code=Code.PUT, payload=acc.event_message(items)))
                except Exception as ex:  # noqa: BLE001
                    ctx.violation(f"coap-event-handler-raises-{type(ex).__name__}", f"notification {n} entries {[i for i, _ in items]}: {ex!r}", replay)
                    return
                if resp.code != Code.VALID:
                    ctx.violation("coap-event-refused", f"notification {n}: answered {resp.code}", replay)
                    return
            for name, got in (("raising listener", got_a), ("second listener", got_b)):
                flat = [{key: val} for ev in got for key, val in ev.items()]
                if flat != want:
                    lost = len(want) - len(flat)
                    ctx.violation("coap-event-lost-or-reordered", f"{name}: the accessory sent {len(want)} entries (same characteristic repeated inside a notification), listeners saw {len(flat)}"
                                                                  f" ({'lost ' + str(lost) if lost > 0 else 'order / values differ'}); first difference at {next((i for i, (x, y) in enumerate(zip(flat, want)) if x != y), min(len(flat), len(want)))}", replay)
                    return
            ctx.count("coap_event_entries_delivered", len(want))
            ctx.count("events_sent", len(want))
        finally:
            fac.remove()
