#!/venv/bin/python
"""CLI:  check.py <Cnn> --tier quick|thorough [--seed N] [--replay FILE] [--shard i/n --out FILE]

Always runs the code imported from /repo's current working tree (PYTHONPATH=/repo).
Honours VERIF_SEED and VERIF_TIER from the environment.
"""

from __future__ import annotations

import argparse
import os
import sys
from pathlib import Path

ROOT = Path(__file__).resolve().parent
# never let /repo/aiohomekit itself be sys.path[0] (it shadows enum/http/uuid)
REPO = os.environ.get("VERIF_REPO", "/repo")  # the repository under test (a snapshot for background runs)
for p in (str(ROOT), REPO):
    if p not in sys.path:
        sys.path.insert(0, p)
os.environ.setdefault("AIOHOMEKIT_VERIF", "1")


def main() -> int:
    ap = argparse.ArgumentParser()
    ap.add_argument("prop")
    ap.add_argument("--tier", default=os.environ.get("VERIF_TIER", "quick"), choices=["quick", "thorough"])
    ap.add_argument("--seed", type=int, default=int(os.environ.get("VERIF_SEED", "0") or 0))
    ap.add_argument("--replay")
    ap.add_argument("--shard")
    ap.add_argument("--shards", type=int)
    ap.add_argument("--out")
    args = ap.parse_args()

    from vf import runner

    prop = args.prop.upper()
    if args.replay:
        return runner.run_replay(prop, args.replay)
    if args.shard:
        i, n = args.shard.split("/")
        return runner.run_shard(prop, args.tier, args.seed, int(i), int(n), args.out)
    if os.environ.get("PYTHONHASHSEED") != "0":
        # re-exec with a fixed hash seed so set iteration order is reproducible
        env = dict(os.environ)
        env["PYTHONHASHSEED"] = "0"
        env["PYTHONDONTWRITEBYTECODE"] = "1"
        os.execve(sys.executable, [sys.executable, *sys.argv], env)
    return runner.run_check(prop, args.tier, args.seed, args.shards)


if __name__ == "__main__":
    sys.exit(main())
